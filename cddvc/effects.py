"""
E2 — effect / frame checker (DESIGN.md §2.2).

Primitive effect sites are found syntactically after import-aware name resolution; effects are
propagated over the over-approximating call graph; one boolean flag can be tracked path-sensitively
(branches contradicting the assumed value are pruned, the flag is followed through calls that pass it on).
"""

import ast

from . import termination

# evaluation of text / data as code: eval & co, and the deserialisers that import and call whatever their input names
EXEC = {"eval", "exec", "compile", "builtins.eval", "builtins.exec", "builtins.compile",
        "pickle.loads", "pickle.load", "pickle.Unpickler", "_pickle.loads", "_pickle.load", "cPickle.loads", "cPickle.load",
        "marshal.loads", "marshal.load", "shelve.open", "dill.loads", "dill.load", "cloudpickle.loads", "cloudpickle.load",
        "jsonpickle.decode", "yaml.load", "yaml.unsafe_load", "yaml.full_load", "yaml.load_all", "code.interact", "code.InteractiveInterpreter",
        "types.FunctionType", "types.CodeType", "ctypes.CDLL", "ctypes.cdll.LoadLibrary"}
IMPORT_DYN = {"importlib.import_module", "__import__", "importlib.__import__"}
IMPORT_PARENT = {"importlib.util.find_spec", "importlib.util.spec_from_file_location", "importlib.util.module_from_spec", "pkgutil.find_loader", "runpy.run_path", "runpy.run_module"}
FS_WRITE = {
    "os.makedirs", "os.mkdir", "os.remove", "os.unlink", "os.rmdir", "os.rename", "os.replace", "os.removedirs", "os.renames",
    "os.symlink", "os.link", "os.truncate", "os.chmod", "os.utime",
    "shutil.rmtree", "shutil.move", "shutil.copy", "shutil.copy2", "shutil.copyfile", "shutil.copytree",
    "json.dump", "pickle.dump", "tempfile.mkstemp", "tempfile.mkdtemp", "tempfile.NamedTemporaryFile",
}
SPAWN_PREFIX = ("subprocess.", "os.system", "os.popen", "os.exec", "os.spawn", "os.fork", "os.startfile", "multiprocessing.", "pty.")
NET_PREFIX = ("socket.", "urllib.", "http.", "requests.", "ftplib.", "smtplib.", "ssl.", "xmlrpc.", "asyncio.open_connection")
WRITE_METHODS = {"write", "writelines", "write_text", "write_bytes", "mkdir", "unlink", "rmdir", "touch", "rename", "replace"}


class Site(object):
    def __init__(self, fid, kind, callee, node, ordinal, detail=""):
        self.fid, self.kind, self.callee, self.node, self.ordinal, self.detail = fid, kind, callee, node, ordinal, detail
        self.lineno = getattr(node, "lineno", 0)
        self.key = "%s@%s:%s#%d" % (kind, fid, callee, ordinal)

    def __repr__(self):
        return "%s (line %d)%s" % (self.key, self.lineno, (" " + self.detail) if self.detail else "")


def _const_str(n):
    return n.value if isinstance(n, ast.Constant) and isinstance(n.value, str) else None


def classify_call(graph, f, call):
    """-> (kind, callee, detail) or None"""
    fn = call.func
    d = graph.dotted_of(f.mod, fn, f.locals) if isinstance(fn, (ast.Name, ast.Attribute)) else None
    # getattr(import_module("m"), "name")(...) and friends are plain calls of a constant import: ignore
    if d is not None:
        # names re-exported through `from os import makedirs`
        if d in EXEC:
            return "EXEC", d, ""
        if d in IMPORT_DYN:
            arg = call.args[0] if call.args else None
            c = _const_str(arg) if arg is not None else None
            if c is not None:
                return "IMPORT_CONST", d, c
            return "IMPORT_DYN", d, ast.unparse(arg)[:80] if arg is not None else ""
        if d in IMPORT_PARENT:
            arg = call.args[0] if call.args else None
            if arg is not None and _const_str(arg) is not None:
                return None
            return "IMPORT_PARENT", d, ast.unparse(arg)[:80] if arg is not None else ""
        if d in FS_WRITE:
            return "FS_WRITE", d, ""
        if d == "open" or d == "io.open" or d == "codecs.open":
            mode = None
            if len(call.args) > 1:
                mode = call.args[1]
            for k in call.keywords:
                if k.arg == "mode":
                    mode = k.value
            if mode is None:
                return None  # read
            m = _const_str(mode)
            if m is not None and not (set(m) & set("wax+")):
                return None
            return "FS_WRITE", "open", "mode=%s" % (m if m is not None else ast.unparse(mode)[:40])
        if d.startswith(SPAWN_PREFIX):
            return "SPAWN", d, ""
        if d.startswith(NET_PREFIX):
            return "NET", d, ""
        return None
    if isinstance(fn, ast.Attribute) and fn.attr in WRITE_METHODS:
        # method on an object we cannot resolve (file handle / Path): weak write site
        if fn.attr == "replace" and len(call.args) >= 2:
            return None
        if fn.attr in ("replace", "rename") and not isinstance(fn.value, ast.Call):
            # str.replace is overwhelmingly a string op; only Path(...).replace counts
            return None
        if fn.attr in ("mkdir", "unlink", "rmdir", "touch", "replace", "rename") and not (
            isinstance(fn.value, ast.Call) or (isinstance(fn.value, ast.Name) and "path" in fn.value.id.lower())
        ):
            return None
        return "FS_WRITE", "." + fn.attr, ast.unparse(fn.value)[:60]
    return None


def scan_sites(graph):
    """All primitive effect sites of the package: {fid: [Site]}"""
    out = {}
    for fid, f in sorted(graph.funcs.items()):
        own = termination._own_nodes(f) if f.qual != "<module>" else _module_level_nodes(f)
        counts = {}
        sites = []
        for n in own:
            if isinstance(n, ast.Call):
                c = classify_call(graph, f, n)
                if c is None:
                    continue
                kind, callee, detail = c
                k = (kind, callee)
                counts[k] = counts.get(k, 0)
                sites.append(Site(fid, kind, callee, n, counts[k], detail))
                counts[k] += 1
        # references to exec primitives that are not calls (e.g. map(eval, xs))
        for n in own:
            if isinstance(n, ast.Name) and isinstance(n.ctx, ast.Load) and n.id in EXEC and n.id not in f.locals and n.id not in graph.imports[f.mod]:
                if not any(isinstance(s.node, ast.Call) and s.node.func is n for s in sites):
                    sites.append(Site(fid, "EXEC", n.id, n, 90, "reference (not a direct call)"))
        if sites:
            out[fid] = sites
    return out


def _module_level_nodes(f):
    out = []
    work = list(reversed(list(ast.iter_child_nodes(f.node))))
    while work:
        n = work.pop()
        if isinstance(n, (ast.FunctionDef, ast.AsyncFunctionDef)):
            work.extend(n.decorator_list + n.args.defaults + [x for x in n.args.kw_defaults if x])
            continue
        out.append(n)
        work.extend(reversed(list(ast.iter_child_nodes(n))))
    return out


# ---------------------------------------------------------------------------------- flag-guarded reachability

class FlagAnalysis(object):
    """
    Which effect sites / callees of a function are reachable when boolean parameter `flag` is assumed
    to have value `value`?  Three-valued evaluation of conditions over names whose value is known
    (the flag itself and locals assigned from expressions decided by it).
    """

    def __init__(self, graph, sites, flag, value=True):
        self.g, self.sites, self.flag, self.value = graph, sites, flag, value
        self.memo = {}

    def tri(self, e, env):
        """-> True / False / None (unknown)"""
        if isinstance(e, ast.Constant):
            return bool(e.value)
        if isinstance(e, ast.Name):
            return env.get(e.id)
        if isinstance(e, ast.UnaryOp) and isinstance(e.op, ast.Not):
            v = self.tri(e.operand, env)
            return None if v is None else (not v)
        if isinstance(e, ast.BoolOp):
            vals = [self.tri(v, env) for v in e.values]
            if isinstance(e.op, ast.And):
                if any(v is False for v in vals):
                    return False
                return True if all(v is True for v in vals) else None
            if any(v is True for v in vals):
                return True
            return False if all(v is False for v in vals) else None
        if isinstance(e, ast.Compare) and len(e.ops) == 1 and isinstance(e.ops[0], (ast.Is, ast.IsNot, ast.Eq, ast.NotEq)):
            l, r = e.left, e.comparators[0]
            if isinstance(l, ast.Name) and l.id in env and env[l.id] is not None and isinstance(r, ast.Constant) and isinstance(r.value, bool):
                eq = env[l.id] == r.value
                return eq if isinstance(e.ops[0], (ast.Is, ast.Eq)) else (not eq)
        return None

    def reachable_nodes(self, f, env):
        """AST nodes of f reachable under env (statement-level pruning, IfExp pruning)"""
        live = []
        env = dict(env)

        def expr_nodes(e):
            # prune IfExp arms and short-circuited BoolOp tails
            if isinstance(e, ast.IfExp):
                t = self.tri(e.test, env)
                out = list(expr_nodes(e.test))
                if t is not False:
                    out += expr_nodes(e.body)
                if t is not True:
                    out += expr_nodes(e.orelse)
                return out
            if isinstance(e, ast.BoolOp):
                out = []
                for v in e.values:
                    out += expr_nodes(v)
                    t = self.tri(v, env)
                    if (isinstance(e.op, ast.And) and t is False) or (isinstance(e.op, ast.Or) and t is True):
                        break
                return out
            if isinstance(e, (ast.FunctionDef, ast.AsyncFunctionDef)):
                return []
            out = [e]
            for ch in ast.iter_child_nodes(e):
                out += expr_nodes(ch)
            return out

        def block(stmts):
            for s in stmts:
                if isinstance(s, (ast.FunctionDef, ast.AsyncFunctionDef)):
                    continue
                if isinstance(s, ast.If):
                    t = self.tri(s.test, env)
                    live.extend(expr_nodes(s.test))
                    if t is not False:
                        block(s.body)
                    if t is not True:
                        block(s.orelse)
                    continue
                if isinstance(s, (ast.For, ast.AsyncFor, ast.While)):
                    live.extend(expr_nodes(s.iter if not isinstance(s, ast.While) else s.test))
                    # names assigned in a loop are not tracked
                    for n in ast.walk(s):
                        if isinstance(n, ast.Name) and isinstance(n.ctx, ast.Store):
                            env.pop(n.id, None)
                    block(s.body)
                    block(s.orelse)
                    continue
                if isinstance(s, (ast.With, ast.AsyncWith)):
                    for it in s.items:
                        live.extend(expr_nodes(it.context_expr))
                    block(s.body)
                    continue
                if isinstance(s, ast.Try):
                    block(s.body)
                    for h in s.handlers:
                        block(h.body)
                    block(s.orelse)
                    block(s.finalbody)
                    continue
                # simple statement
                live.append(s)
                for ch in ast.iter_child_nodes(s):
                    live.extend(expr_nodes(ch))
                # track assignments of decided values
                tgt, val = None, None
                if isinstance(s, ast.Assign) and len(s.targets) == 1 and isinstance(s.targets[0], ast.Name):
                    tgt, val = s.targets[0].id, s.value
                elif isinstance(s, ast.AnnAssign) and isinstance(s.target, ast.Name) and s.value is not None:
                    tgt, val = s.target.id, s.value
                if tgt is not None:
                    v = self.tri(val, env)
                    # only a *False* conclusion of an `and` chain / True of an `or` chain is sound for non-bool operands
                    if v is None:
                        env.pop(tgt, None)
                    else:
                        env[tgt] = v
                else:
                    for n in ast.walk(s):
                        if isinstance(n, ast.Name) and isinstance(n.ctx, (ast.Store, ast.Del)):
                            env.pop(n.id, None)
                if isinstance(s, (ast.Return, ast.Raise)):
                    return

        node = f.node
        block(node.body if not isinstance(node, ast.Lambda) else [ast.Expr(node.body)])
        return live

    def passes_flag(self, call, env, tid=None, skip=0):
        """Does this call pass the tracked flag on (keyword, or positionally to the callee's parameter)?  -> value or None"""
        for k in call.keywords:
            if k.arg == self.flag:
                return self.tri(k.value, env)
        t = self.g.funcs.get(tid) if tid else None
        if t is not None and not isinstance(t.node, ast.Module):
            names = [x.arg for x in t.node.args.posonlyargs + t.node.args.args]
            if self.flag in names:
                i = names.index(self.flag) - skip
                if 0 <= i < len(call.args) and not any(isinstance(a, ast.Starred) for a in call.args[: i + 1]):
                    return self.tri(call.args[i], env)
        return None

    def analyse(self, fid, flag_known):
        """-> set of Site keys reachable from fid (flag_known: True if the flag holds `value` here)"""
        key = (fid, flag_known)
        if key in self.memo:
            return self.memo[key]
        self.memo[key] = set()  # cycle guard
        f = self.g.funcs[fid]
        env = {}
        if flag_known and not isinstance(f.node, ast.Module):
            a = f.node.args
            if self.flag in [x.arg for x in a.posonlyargs + a.args + a.kwonlyargs]:
                env[self.flag] = self.value
        # a nested function sees the enclosing function's flag (closure)
        if flag_known and self.flag not in env and "." in f.qual:
            env[self.flag] = self.value
        live = self.reachable_nodes(f, env) if env else None
        live_ids = {id(n) for n in live} if live is not None else None
        out = set()
        for s in self.sites.get(fid, []):
            if live_ids is None or id(s.node) in live_ids:
                out.add(s.key)
        # callees: resolve each referenced repo function from the live nodes
        nodes = live if live is not None else termination._own_nodes(f)
        for n in nodes:
            tgt = None
            if isinstance(n, (ast.Name, ast.Attribute)) and not isinstance(getattr(n, "ctx", None), ast.Store):
                d = self.g.dotted_of(f.mod, n, f.locals)
                if d is not None:
                    tgt = self.g.resolve_dotted(d)
                elif isinstance(n, ast.Attribute):
                    for tid in self.g.methods.get(n.attr, ()):
                        out |= self.analyse(tid, False)
                if isinstance(n, ast.Name) and n.id in f.locals:
                    nid = "%s:%s.%s" % (f.mod, f.qual, n.id)
                    if nid in self.g.funcs:
                        tgt = nid
            if tgt is None:
                continue
            tids = [tgt] if tgt in self.g.funcs else [x for x in self.g.funcs if x.startswith(tgt + ".")]
            for tid in tids:
                known = False
                if flag_known:
                    # is this name the func of a call that passes the flag on with the assumed value?
                    known = self._call_passes(nodes, n, env, tid) or (tid.startswith("%s:%s." % (f.mod, f.qual)))
                out |= self.analyse(tid, known)
        self.memo[key] = out
        return out

    def _call_passes(self, nodes, ref, env, tid=None):
        """Every call / partial application of `ref` among the live nodes passes the flag with the assumed value"""
        seen = False
        for c in nodes:
            if isinstance(c, ast.Call):
                if c.func is ref:
                    if self.passes_flag(c, env, tid) != self.value:
                        return False
                    seen = True
                elif ref in c.args and isinstance(c.func, ast.Name) and c.func.id in ("partial", "rpartial"):
                    if self.passes_flag(c, env) != self.value:
                        return False
                    seen = True
                elif ref in c.args or ref in [k.value for k in c.keywords]:
                    return False  # passed along as a value: unknown caller
        return seen


def effects_fixpoint(graph, sites):
    """{fid: set of Site keys} inferred over the (flag-insensitive) call graph"""
    eff = {fid: {s.key for s in sites.get(fid, [])} for fid in graph.funcs}
    changed = True
    while changed:
        changed = False
        for fid, f in graph.funcs.items():
            for t in f.edges:
                if t in eff and not eff[t] <= eff[fid]:
                    eff[fid] |= eff[t]
                    changed = True
    return eff


def refine_open_modes(graph, sites):
    """
    `open(filename, mode)` where `mode` is a parameter whose default is read-only and which every call
    site in the package leaves alone (or sets to a read-only constant) is a read, not a write site.
    """
    for fid in list(sites):
        f = graph.funcs[fid]
        keep = []
        for s in sites[fid]:
            if s.kind == "FS_WRITE" and s.callee == "open" and s.detail.startswith("mode=") and not isinstance(f.node, ast.Module):
                pname = s.detail[5:]
                a = f.node.args
                names = [x.arg for x in a.posonlyargs + a.args]
                dflt = dict(zip(names[len(names) - len(a.defaults):], a.defaults))
                d = dflt.get(pname)
                if pname in names and isinstance(d, ast.Constant) and isinstance(d.value, str) and not (set(d.value) & set("wax+")):
                    idx = names.index(pname)
                    ok = True
                    for g2 in graph.funcs.values():
                        if fid not in g2.edges:
                            continue
                        for n in termination._own_nodes(g2):
                            if isinstance(n, ast.Call) and isinstance(n.func, (ast.Name, ast.Attribute)):
                                dd = graph.dotted_of(g2.mod, n.func, g2.locals)
                                if dd is None or graph.resolve_dotted(dd) != fid:
                                    continue
                                m = n.args[idx] if len(n.args) > idx else next((k.value for k in n.keywords if k.arg == pname), None)
                                if m is not None and not (isinstance(m, ast.Constant) and isinstance(m.value, str) and not (set(m.value) & set("wax+"))):
                                    ok = False
                            elif isinstance(n, (ast.Name, ast.Attribute)) and not isinstance(getattr(n, "ctx", None), ast.Store):
                                pass
                    if ok:
                        continue
            keep.append(s)
        if keep:
            sites[fid] = keep
        else:
            del sites[fid]
    return sites


def add_dispatch_edges(graph):
    """Declared edge sets of the two dynamic dispatchers (assumed contract, listed in the evidence)"""
    import re

    added = {}
    for disp, suffix in (("cdd.shared.parse.utils.parser_utils:get_parser", "parse"), ("cdd.shared.emit.utils.emitter_utils:get_emitter", "emit")):
        if disp not in graph.funcs:
            continue
        tg = {fid for fid, f in graph.funcs.items() if re.fullmatch(r"cdd\.[a-z_]+\.%s" % suffix, f.mod) and "." not in f.qual and f.qual != "<module>"}
        graph.funcs[disp].edges |= tg
        added[disp] = len(tg)
    return added

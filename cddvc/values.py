"""
Symbolic values and heap objects of the E1 verifier (see DESIGN.md §2.1, §3).
"""

import itertools

import z3

Opaque = z3.DeclareSort("Opaque")
_ctr = itertools.count()


def fresh(prefix, sort):
    """Fresh z3 constant (the name goes through SMT-LIB text: characters a |quoted| symbol cannot hold, and the quote
    z3's printer leaves bare, are spelled out)"""
    safe = "".join(c if c.isalnum() or c in "._[]{}()<>-+*=:," else "~%02x" % ord(c) for c in str(prefix))
    return z3.Const("%s!%d" % (safe, next(_ctr)), sort)


S = z3.StringSort()
I = z3.IntSort()
B = z3.BoolSort()

py_count = z3.Function("py_count", S, S, I)  # str.count(sub)
py_strip = z3.Function("py_strip", S, S)  # str.strip()
py_lstrip = z3.Function("py_lstrip", S, S)
py_rstrip = z3.Function("py_rstrip", S, S)
py_isspace = z3.Function("py_isspace", S, B)
py_repeat = z3.Function("py_repeat", S, I, S)  # s * n
py_lstrip_chars = z3.Function("py_lstrip_chars", S, S, S)  # s.lstrip(chars)
py_chars_subset = z3.Function("py_chars_subset", S, S, B)  # frozenset(a) <= frozenset(b)
opaque_truthy = z3.Function("opaque_truthy", Opaque, B)
opaque_is_none = z3.Function("opaque_is_none", Opaque, B)


class V(object):
    """Base of symbolic values"""


class VInt(V):
    def __init__(self, z):
        self.z = z if z3.is_expr(z) else z3.IntVal(z)

    def __repr__(self):
        return "VInt(%s)" % self.z


class VBool(V):
    def __init__(self, z):
        self.z = z if z3.is_expr(z) else z3.BoolVal(bool(z))

    def __repr__(self):
        return "VBool(%s)" % self.z


class VStr(V):
    def __init__(self, z):
        self.z = z if z3.is_expr(z) else z3.StringVal(z)

    def __repr__(self):
        return "VStr(%s)" % self.z


class VNone(V):
    def __repr__(self):
        return "VNone"


class VTuple(V):
    def __init__(self, items):
        self.items = list(items)

    def __repr__(self):
        return "VTuple(%r)" % (self.items,)


class VRef(V):
    """Reference to a mutable heap object (list / record)"""

    def __init__(self, rid):
        self.rid = rid

    def __repr__(self):
        return "VRef(%d)" % self.rid


class VOpaque(V):
    """A value the engine does not interpret"""

    def __init__(self, z=None, note=""):
        self.z = z if z is not None else fresh("opq", Opaque)
        self.note = note

    def __repr__(self):
        return "VOpaque(%s)" % self.note


class VCtor(V):
    """A CST node constructor (namedtuple / dataclass declared in the real module)"""

    def __init__(self, name, fields):
        self.name, self.fields = name, fields

    def __repr__(self):
        return "VCtor(%s)" % self.name


class VNode(V):
    """Immutable record built by a VCtor (or returned by a contract as kind 'node')"""

    def __init__(self, fields):
        self.fields = dict(fields)

    def __repr__(self):
        return "VNode(%r)" % (self.fields,)


class VFunc(V):
    """Nested def / lambda of the function under verification (inlined at calls)"""

    def __init__(self, node, name):
        self.node, self.name = node, name


class VPartial(V):
    def __init__(self, func, args, kwargs):
        self.func, self.args, self.kwargs = func, list(args), dict(kwargs)


class VPy(V):
    """A concrete Python object constant-folded from the real module (frozenset, dict, ...)"""

    def __init__(self, obj, name=""):
        self.obj, self.name = obj, name

    def __repr__(self):
        return "VPy(%s)" % (self.name or type(self.obj).__name__)


class VContractFn(V):
    """A repo function that has a contract: calls use the contract, never the body"""

    def __init__(self, qual):
        self.qual = qual


class VPyFunc(V):
    """A repo / stdlib function without contract: pure uninterpreted function of its arguments"""

    def __init__(self, qual, obj=None):
        self.qual, self.obj = qual, obj


class VBuiltin(V):
    def __init__(self, name):
        self.name = name


class VSlice(V):
    """slice(lo, hi) object; lo / hi are VInt or VNone"""

    def __init__(self, lo, hi):
        self.lo, self.hi = lo, hi


class VCharSet(V):
    """frozenset(s) of a string; `diff_of` = (a, b) for frozenset(a) - frozenset(b)"""

    def __init__(self, z=None, diff_of=None):
        self.z, self.diff_of = z, diff_of


class VSpecFn(V):
    """Specification-only function (joined, old, count, ...)"""

    def __init__(self, name):
        self.name = name


# ------------------------------------------------------------------ heap objects

NODE_GHOSTS = ("first_start", "last_end", "chain_ok", "span_ok", "joined_values")


class ListObj(object):
    """
    Abstract view of a list (DESIGN §2.1 "data structure against an abstract view").

    kind 'empty'  : no element yet (polymorphic)
    kind 'str'    : g = {'joined': String}       concatenation of the elements
    kind 'node'   : g = NODE_GHOSTS              CST node list (C09)
    kind 'seq'    : g = {'seq': Seq(sort)}       exact sequence of elements of one z3 sort
    kind 'opaque' : only the length is tracked
    """

    def __init__(self, length, kind, g, elem=None):
        self.len, self.kind, self.g, self.elem = length, kind, dict(g), elem

    @staticmethod
    def empty():
        return ListObj(z3.IntVal(0), "empty", {})

    @staticmethod
    def fresh(kind, name="l", elem=None):
        """Fresh symbolic list of the given kind + its type-invariant assumptions"""
        ln = fresh(name + ".len", I)
        asm = [ln >= 0]
        if kind == "str":
            j = fresh(name + ".joined", S)
            asm.append(z3.Implies(ln == 0, j == z3.StringVal("")))
            return ListObj(ln, "str", {"joined": j}), asm
        if kind == "node":
            g = {
                "first_start": fresh(name + ".first_start", I),
                "last_end": fresh(name + ".last_end", I),
                "chain_ok": fresh(name + ".chain_ok", B),
                "span_ok": fresh(name + ".span_ok", B),
                "joined_values": fresh(name + ".joined_values", S),
            }
            asm.append(z3.Implies(ln == 0, g["joined_values"] == z3.StringVal("")))
            return ListObj(ln, "node", g), asm
        if kind == "seq":
            sq = fresh(name + ".seq", z3.SeqSort(elem))
            asm.append(z3.Length(sq) == ln)
            return ListObj(ln, "seq", {"seq": sq}, elem), asm
        return ListObj(ln, "opaque", {}), asm

    def fresh_like(self, name="l"):
        if self.kind == "empty":
            # an empty polymorphic list that a loop may fill: caller must give a kind
            return None, None
        return ListObj.fresh(self.kind, name, self.elem)

    def __repr__(self):
        return "ListObj(%s,len=%s,%r)" % (self.kind, self.len, self.g)


class RecordObj(object):
    """dict with constant string keys: key -> (present: z3 Bool, value: V)"""

    def __init__(self, fields):
        self.fields = dict(fields)

    def __repr__(self):
        return "RecordObj(%r)" % (self.fields,)


class MapObj(object):
    """
    dict with symbolic string keys, as a write log on top of an unknown base:
    entries = [(key: z3 String, value: V)] in program order.  (C16: `paths`, `components[...]`)
    """

    def __init__(self, entries=(), value_kind=None, fetched=()):
        self.entries = list(entries)
        self.value_kind = value_kind  # kind of the values of the unknown base (read of an unwritten key)
        self.fetched = list(fetched)  # (key, value) pairs materialised from the base by reads

    def __repr__(self):
        return "MapObj(%d writes)" % len(self.entries)


class Unsupported(Exception):
    """Construct outside the supported subset (statement level: havoc; expression level: opaque)"""


class OutOfSubset(Exception):
    """The whole function cannot be verified (write set not boundable, contract does not attach...)"""

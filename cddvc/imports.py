"""
E3 — import-order verifier (DESIGN.md §2.3, C18).

An exact simulator of CPython's import protocol restricted to the package's *module-level*
statements, extracted from /repo's current files on every run: depth-first import in statement
order; per module a status (unloaded / loading / loaded), the ordered set of names bound so far,
and the "child bound on parent" bit that CPython sets only after the child finished executing.
The simulator is a model of the interpreter, so the check replays its verdicts in a real interpreter.
"""

import ast
import sys

from . import extract

UNLOADED, LOADING, LOADED = 0, 1, 2


class ImportFailure(Exception):
    def __init__(self, kind, where, detail, chain):
        Exception.__init__(self, "%s in %s: %s" % (kind, where, detail))
        self.kind, self.where, self.detail, self.chain = kind, where, detail, list(chain)


class Model(object):
    def __init__(self, include_tests=False):
        self.src = {}
        for m in extract.package_modules(include_tests=True):
            self.src[m] = extract.module_ast(m)[0]
        self.is_pkg = {m: extract.module_path(m).endswith("__init__.py") for m in self.src}
        self.consts = self._version_flags()
        self.imprecise = []

    def _version_flags(self):
        v = sys.version_info[:2]
        return {
            "PY3_8": v >= (3, 8), "PY_GTE_3_8": v >= (3, 8), "PY_GTE_3_9": v >= (3, 9), "PY_GTE_3_10": v >= (3, 10),
            "PY_GTE_3_11": v >= (3, 11), "PY_GTE_3_12": v >= (3, 12), "PY_GTE_3_13": v >= (3, 13),
        }

    # ------------------------------------------------------------------ one interpreter run

    def fresh(self):
        return {"status": {}, "bound": {}, "stack": [], "order": []}

    def run(self, entries):
        """Import the entries in order in one fresh interpreter. -> (ok, failure or None, state)"""
        st = self.fresh()
        try:
            for e in entries:
                self.import_name(e, st)
            return True, None, st
        except ImportFailure as f:
            return False, f, st

    def import_name(self, name, st):
        """`import a.b.c`: import every prefix in order"""
        parts = name.split(".")
        for i in range(1, len(parts) + 1):
            m = ".".join(parts[:i])
            if m in self.src:
                self.load(m, st)
            elif parts[0] == "cdd":
                raise ImportFailure("ModuleNotFoundError", st["stack"][-1] if st["stack"] else "<entry>", "No module named %r" % m, st["stack"])
            else:
                return  # external module: assumed importable in this environment

    def load(self, m, st):
        if st["status"].get(m, UNLOADED) != UNLOADED:
            return
        st["status"][m] = LOADING
        st["bound"][m] = {"__name__", "__file__", "__doc__", "__package__", "__spec__", "__builtins__"}
        st["stack"].append(m)
        st["order"].append(m)
        self.exec_block(self.src[m].body, m, st)
        st["stack"].pop()
        st["status"][m] = LOADED
        # CPython binds the child on its parent only now
        if "." in m:
            parent, _, child = m.rpartition(".")
            if parent in st["bound"]:
                st["bound"][parent].add(child)

    # ------------------------------------------------------------------ module-level execution

    def tri(self, e, m):
        if isinstance(e, ast.Name) and e.id in self.consts:
            return self.consts[e.id]
        if isinstance(e, ast.UnaryOp) and isinstance(e.op, ast.Not):
            v = self.tri(e.operand, m)
            return None if v is None else not v
        if isinstance(e, ast.Compare) and len(e.ops) == 1:
            txt = ast.unparse(e)
            if txt.startswith("sys.version_info") or txt.startswith("version_info"):
                try:
                    return bool(eval(compile(ast.Expression(e), "<flag>", "eval"), {"sys": sys, "version_info": sys.version_info}))
                except Exception:
                    return None
            if txt.startswith("__name__ =="):
                return False
        if isinstance(e, ast.Constant):
            return bool(e.value)
        return None

    def exec_block(self, stmts, m, st):
        for s in stmts:
            self.exec_stmt(s, m, st)

    def bind(self, m, st, name):
        st["bound"][m].add(name)

    def exec_stmt(self, s, m, st):
        if isinstance(s, ast.Import):
            for a in s.names:
                self.import_name(a.name, st)
                self.bind(m, st, a.asname or a.name.split(".")[0])
            return
        if isinstance(s, ast.ImportFrom):
            base = s.module or ""
            if s.level:
                pkg = m if self.is_pkg[m] else m.rpartition(".")[0]
                parts = pkg.split(".")
                parts = parts[: len(parts) - (s.level - 1)]
                base = ".".join(parts + ([s.module] if s.module else []))
            self.import_name(base, st)
            for a in s.names:
                if base in self.src:
                    if a.name == "*":
                        for n in sorted(st["bound"][base]):
                            if not n.startswith("_"):
                                self.bind(m, st, n)
                        continue
                    if a.name not in st["bound"][base]:
                        sub = base + "." + a.name
                        if sub in self.src:
                            self.load(sub, st)  # from package import submodule
                            if st["status"].get(sub) == LOADING and a.name not in st["bound"][base]:
                                # Python >= 3.7 falls back to sys.modules for a submodule that is still loading
                                pass
                        elif st["status"].get(base) == LOADING:
                            raise ImportFailure(
                                "ImportError", m, "cannot import name %r from partially initialized module %r (most likely due to a circular import)" % (a.name, base), st["stack"])
                        else:
                            if not self._dynamic_names(base):
                                raise ImportFailure("ImportError", m, "cannot import name %r from %r" % (a.name, base), st["stack"])
                            self.imprecise.append("%s: `from %s import %s` resolved dynamically" % (m, base, a.name))
                self.bind(m, st, a.asname or a.name)
            return
        if isinstance(s, (ast.FunctionDef, ast.AsyncFunctionDef)):
            for e in s.decorator_list + s.args.defaults + [d for d in s.args.kw_defaults if d is not None]:
                self.eval_expr(e, m, st)
            for a in s.args.posonlyargs + s.args.args + s.args.kwonlyargs:
                pass  # annotations are evaluated at definition time too
            for a in s.args.posonlyargs + s.args.args + s.args.kwonlyargs + [x for x in (s.args.vararg, s.args.kwarg) if x]:
                if a.annotation is not None:
                    self.eval_expr(a.annotation, m, st)
            if s.returns is not None:
                self.eval_expr(s.returns, m, st)
            self.bind(m, st, s.name)
            return
        if isinstance(s, ast.ClassDef):
            for e in s.decorator_list + s.bases + [k.value for k in s.keywords]:
                self.eval_expr(e, m, st)
            # the class body runs at import, in its own namespace: only its expressions matter here
            for b in s.body:
                if isinstance(b, (ast.FunctionDef, ast.AsyncFunctionDef)):
                    for e in b.decorator_list + b.args.defaults + [d for d in b.args.kw_defaults if d is not None]:
                        self.eval_expr(e, m, st)
                elif isinstance(b, (ast.Import, ast.ImportFrom)):
                    self.exec_stmt(b, m, st)
                else:
                    for e in ast.iter_child_nodes(b):
                        if isinstance(e, ast.expr):
                            self.eval_expr(e, m, st)
            self.bind(m, st, s.name)
            return
        if isinstance(s, ast.If):
            t = self.tri(s.test, m)
            self.eval_expr(s.test, m, st)
            if t is True:
                self.exec_block(s.body, m, st)
            elif t is False:
                self.exec_block(s.orelse, m, st)
            else:
                self.imprecise.append("%s line %d: non-constant module-level condition, both branches taken" % (m, s.lineno))
                self.exec_block(s.body, m, st)
                self.exec_block(s.orelse, m, st)
            return
        if isinstance(s, ast.Try):
            # body is executed; an ImportFailure inside a try whose handlers catch ImportError/AttributeError falls to the handler
            snap_bound = set(st["bound"][m])
            try:
                self.exec_block(s.body, m, st)
            except ImportFailure as f:
                names = {ast.unparse(h.type) if h.type is not None else "BaseException" for h in s.handlers}
                caught = any(n in ("BaseException", "Exception") or f.kind in n for n in names)
                if not caught:
                    raise
                for h in s.handlers:
                    self.exec_block(h.body, m, st)
            else:
                self.exec_block(s.orelse, m, st)
            self.exec_block(s.finalbody, m, st)
            return
        if isinstance(s, (ast.With, ast.AsyncWith)):
            for it in s.items:
                self.eval_expr(it.context_expr, m, st)
                if it.optional_vars is not None:
                    for n in ast.walk(it.optional_vars):
                        if isinstance(n, ast.Name):
                            self.bind(m, st, n.id)
            self.exec_block(s.body, m, st)
            return
        if isinstance(s, (ast.For, ast.While)):
            self.eval_expr(s.iter if isinstance(s, ast.For) else s.test, m, st)
            if isinstance(s, ast.For):
                for n in ast.walk(s.target):
                    if isinstance(n, ast.Name):
                        self.bind(m, st, n.id)
            self.exec_block(s.body, m, st)
            self.exec_block(s.orelse, m, st)
            return
        # simple statements: evaluate expressions, then bind targets
        for e in ast.iter_child_nodes(s):
            if isinstance(e, ast.expr) and not (isinstance(s, (ast.Assign, ast.AugAssign, ast.AnnAssign)) and e in getattr(s, "targets", [getattr(s, "target", None)])):
                self.eval_expr(e, m, st)
        if isinstance(s, (ast.Assign, ast.AnnAssign, ast.AugAssign)):
            tgts = s.targets if isinstance(s, ast.Assign) else [s.target]
            for t in tgts:
                if isinstance(t, (ast.Attribute, ast.Subscript)):
                    self.eval_expr(t.value, m, st)
                for n in ast.walk(t):
                    if isinstance(n, ast.Name) and isinstance(n.ctx, ast.Store):
                        if not (isinstance(s, ast.AnnAssign) and s.value is None):
                            self.bind(m, st, n.id)
        elif isinstance(s, ast.Delete):
            for t in s.targets:
                if isinstance(t, ast.Name):
                    st["bound"][m].discard(t.id)

    def _dynamic_names(self, base):
        """Does the module define names dynamically (globals().update, setattr on itself)?"""
        for n in ast.walk(self.src[base]):
            if isinstance(n, ast.Call) and isinstance(n.func, ast.Name) and n.func.id in ("globals", "vars", "setattr"):
                return True
        return False

    def eval_expr(self, e, m, st):
        """Evaluate a module-level expression: check every attribute chain rooted at a package name"""
        skip = set()
        for n in ast.walk(e):
            if isinstance(n, (ast.Lambda,)):
                for x in ast.walk(n.body):
                    skip.add(id(x))  # lambda bodies do not run at import
            if isinstance(n, (ast.GeneratorExp,)):
                pass
        inner = set()
        for n in ast.walk(e):
            if id(n) in skip or not isinstance(n, ast.Attribute) or id(n) in inner:
                continue
            chain = []
            x = n
            while isinstance(x, ast.Attribute):
                chain.append(x.attr)
                inner.add(id(x.value))
                x = x.value
            if not isinstance(x, ast.Name):
                continue
            chain.reverse()
            root = x.id
            if root not in st["bound"][m]:
                continue  # builtin or unknown: not our concern
            # which module object is `root` bound to here?  only plain `import pkg...` bindings are tracked
            if root not in self.src:
                continue
            cur = root
            for i, attr in enumerate(chain):
                status = st["status"].get(cur, UNLOADED)
                if status == UNLOADED:
                    break
                if attr in st["bound"].get(cur, ()):
                    nxt = cur + "." + attr
                    if nxt in self.src and st["status"].get(nxt, UNLOADED) != UNLOADED:
                        cur = nxt
                        continue
                    break  # a plain attribute: fine
                nxt = cur + "." + attr
                if nxt in self.src and st["status"].get(nxt, UNLOADED) == LOADING:
                    raise ImportFailure(
                        "AttributeError", m,
                        "cannot access submodule %r of module %r (most likely due to a circular import) in `%s` at line %d" % (attr, cur, ast.unparse(n)[:80], n.lineno), st["stack"])
                if st["status"].get(cur) == LOADING:
                    raise ImportFailure(
                        "AttributeError", m,
                        "partially initialized module %r has no attribute %r (most likely due to a circular import) in `%s` at line %d" % (cur, attr, ast.unparse(n)[:80], n.lineno), st["stack"])
                if self._dynamic_names(cur):
                    self.imprecise.append("%s: attribute %s.%s resolved dynamically" % (m, cur, attr))
                    break
                raise ImportFailure("AttributeError", m, "module %r has no attribute %r in `%s` at line %d" % (cur, attr, ast.unparse(n)[:80], n.lineno), st["stack"])

    def public_names(self, st, m):
        return sorted(n for n in st["bound"].get(m, ()) if not n.startswith("_"))

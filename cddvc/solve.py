"""
SMT back ends: z3 (Python API, 5.1) first; `unknown` is re-asked of /usr/bin/cvc5 --strings-exp
and /usr/bin/z3 4.8 on the dumped SMT-LIB text (DESIGN §2.1 "Back ends").
"""

import os
import subprocess
import tempfile
import time

import z3

PROVED, REFUTED, UNDECIDED = "proved", "refuted", "undecided"
EXTERNAL_BUDGET_MS = int(os.environ.get("VERIF_EXTERNAL_BUDGET_MS", "60000"))


class Solver(object):
    def __init__(self, timeout_ms=10000, feas_timeout_ms=2000, defer=False):
        self.defer = defer
        self.timeout_ms = timeout_ms
        self.feas_timeout_ms = int(os.environ.get("VERIF_FEAS_TIMEOUT_MS", feas_timeout_ms))  # (the override is for stress tests)
        self.time = 0.0
        self.by_backend = {}
        self.queries = 0
        self.feas_queries = 0

    def feasible(self, pc):
        """False only when the path condition is proved unsatisfiable"""
        s = z3.Solver()
        s.set("timeout", self.feas_timeout_ms)
        s.add(*pc)
        t = time.time()
        r = s.check()
        self.time += time.time() - t
        self.feas_queries += 1
        return r != z3.unsat

    def smt2(self, pc, claim):
        s = z3.Solver()
        s.add(*pc)
        s.add(z3.Not(claim))
        return s.to_smt2()

    def discharge(self, ob):
        if self.defer:
            # obligations are solved later, in parallel, from their SMT-LIB text (solve_smt2)
            sd = z3.Solver()
            sd.add(*ob.pc)
            sd.add(z3.Not(ob.claim))
            ob.smt2 = sd.to_smt2()
            ob.status = None
            self.queries += 1
            return None
        s = z3.Solver()
        s.set("timeout", self.timeout_ms)
        s.add(*ob.pc)
        s.add(z3.Not(ob.claim))
        t = time.time()
        r = s.check()
        dt = time.time() - t
        self.time += dt
        self.queries += 1
        ob.time = dt
        if r == z3.unsat:
            ob.status, ob.backend = PROVED, "z3-%s" % z3.get_version_string()
        elif r == z3.sat:
            ob.status, ob.backend = REFUTED, "z3-%s" % z3.get_version_string()
            try:
                m = s.model()
                ob.model = {str(d): _val_text(m[d]) for d in m.decls() if not str(d).startswith("uf:")}
            except z3.Z3Exception:
                ob.model = {}
        else:
            ob.smt2 = s.to_smt2()
            st, be = self.external(ob.smt2)
            ob.status, ob.backend = st, be
            ob.time += 0.0
        self.by_backend[ob.backend] = self.by_backend.get(ob.backend, 0) + 1
        if ob.status != PROVED and ob.smt2 is None:
            ob.smt2 = s.to_smt2()
        return ob.status

    def external(self, smt2):
        """Ask the other installed solvers; only `unsat` counts as proved, `sat` as refuted"""
        with tempfile.NamedTemporaryFile("wt", suffix=".smt2", delete=False) as f:
            f.write("(set-logic ALL)\n" + smt2 + "\n(get-model)\n")
            fn = f.name
        self.last_model = None
        try:
            for name, cmd in (
                ("cvc5-1.0.3", ["/usr/bin/cvc5", "--strings-exp", "--produce-models", "--tlimit=%d" % self.timeout_ms, fn]),
                ("z3-4.8.12", ["/usr/bin/z3", "-T:%d" % max(1, self.timeout_ms // 1000), fn]),
            ):
                if not os.path.exists(cmd[0]):
                    continue
                t = time.time()
                try:
                    out = subprocess.run(cmd, capture_output=True, text=True, timeout=self.timeout_ms / 1000 + 5).stdout
                except subprocess.TimeoutExpired:
                    out = ""
                self.time += time.time() - t
                first = out.strip().splitlines()[0] if out.strip() else ""
                if first == "unsat":
                    return PROVED, name
                if first == "sat":
                    self.last_model = parse_model(out)
                    return REFUTED, name
            return UNDECIDED, "none (unknown/timeout in z3-5.1, cvc5, z3-4.8)"
        finally:
            os.unlink(fn)


def _val_text(v):
    """Model value as text; strings in SMT-LIB form (an embedded quote doubled), which is what replay_block.z3_string decodes --
    z3's Python printer leaves embedded quotes bare, so '""' inside a value would be ambiguous"""
    try:
        if z3.is_string_value(v):
            return v.sexpr()
    except z3.Z3Exception:
        pass
    return str(v)


def parse_model(out):
    """(define-fun |name| () Sort value) lines of a (get-model) answer -> {name: value text} (nullary constants only)"""
    import re

    model = {}
    for m in re.finditer(r'\(define-fun\s+(\|[^|]*\||\S+)\s+\(\)\s+(String|Int|Bool)\s+((?:"(?:[^"]|"")*")|\(-\s*\d+\)|[^\s()]+)\s*\)', out):
        name = m.group(1).strip("|")
        val = m.group(3)
        if m.group(2) == "Int":
            val = val.replace("(", "").replace(")", "").replace(" ", "")
        elif m.group(2) == "Bool":
            val = "True" if val == "true" else "False"
        model[name] = val
    return model


def _z3_text(text, timeout_ms):
    s = z3.Solver()
    s.set("timeout", timeout_ms)
    s.from_string(text)
    r = s.check()
    if r == z3.sat:
        try:
            m = s.model()
            return r, {str(d): _val_text(m[d]) for d in m.decls() if not str(d).startswith("uf:")}
        except z3.Z3Exception:
            return r, {}
    return r, None


def model_confirmed(text, model, timeout_ms=20000):
    """
    A `sat` answer counts as a refutation only if its model survives an independent check: the obligation is re-read by z3 5.1
    with every nullary String / Int / Bool constant pinned to the value the model gives.  -> False when z3 then answers
    `unsat` (the two solvers disagree: a wrong `sat` -- the old string solvers are known for them -- must not become a VIOLATION),
    True otherwise (`sat`, or `unknown`: no evidence against the model).
    """
    if not model:
        return True
    try:
        s = z3.Solver()
        s.set("timeout", timeout_ms)
        s.from_string(text)
        consts = {}
        for a in s.assertions():
            stack = [a]
            seen = set()
            while stack:
                e = stack.pop()
                if e.get_id() in seen:
                    continue
                seen.add(e.get_id())
                if z3.is_const(e) and e.decl().kind() == z3.Z3_OP_UNINTERPRETED:
                    consts[str(e.decl().name())] = e
                stack.extend(e.children())
        from .replay_block import z3_string

        for name, val in model.items():
            c = consts.get(name)
            if c is None:
                continue
            try:
                if c.sort() == z3.StringSort():
                    s.add(c == z3.StringVal(z3_string(val)))
                elif c.sort() == z3.IntSort():
                    s.add(c == z3.IntVal(int(str(val).replace("(- ", "-").replace(")", "").replace(" ", ""))))
                elif c.sort() == z3.BoolSort():
                    s.add(c == z3.BoolVal(str(val) == "True"))
            except (ValueError, z3.Z3Exception):
                continue
        return s.check() != z3.unsat
    except z3.Z3Exception:
        return True


def solve_smt2(args):
    status, backend, dt, model = _solve_smt2(args)
    if status != REFUTED or model_confirmed(args[0], model):
        return status, backend, dt, model
    # A `sat` whose model does not survive the independent check is a wrong answer of a string solver (seen from z3 5.1 itself,
    # on a loaded machine, for an obligation it proves in every other run).  It is neither a refutation nor the end of the
    # portfolio: the other solvers are asked, then z3 again under other random seeds; `unsat` from any of them proves the
    # obligation, a `sat` counts only with a confirmed model.
    text, timeout_ms = args
    t = time.time()
    first = backend
    sv = Solver(timeout_ms=max(timeout_ms, EXTERNAL_BUDGET_MS))
    st, be2 = sv.external(text)
    if st == PROVED:
        return PROVED, "%s (after an unconfirmed sat of %s)" % (be2, first), dt + time.time() - t, None
    if st == REFUTED and model_confirmed(text, sv.last_model):
        return REFUTED, be2, dt + time.time() - t, sv.last_model
    for seed in (1, 2, 3):
        try:
            s = z3.Solver()
            s.set("timeout", max(timeout_ms, 10000))
            s.set("random_seed", seed)
            s.from_string(text)
            r = s.check()
        except z3.Z3Exception:
            continue
        if r == z3.unsat:
            return PROVED, "z3-%s seed %d (after an unconfirmed sat of %s)" % (z3.get_version_string(), seed, first), dt + time.time() - t, None
        if r == z3.sat:
            try:
                m = s.model()
                model2 = {str(d): _val_text(m[d]) for d in m.decls() if not str(d).startswith("uf:")}
            except z3.Z3Exception:
                continue
            if model_confirmed(text, model2):
                return REFUTED, "z3-%s seed %d" % (z3.get_version_string(), seed), dt + time.time() - t, model2
    return UNDECIDED, "%s answered sat, but z3-%s finds the obligation unsat under that very model, and no other solver / seed decided it (solver disagreement: undecided, not a refutation)" % (first, z3.get_version_string()), dt + time.time() - t, None


def _solve_smt2(args):
    """
    Worker: decide one obligation from its SMT-LIB text. -> (status, backend, seconds, model dict or None)
    Order: z3 5.1 with a short budget (most obligations take milliseconds), then cvc5 --strings-exp and z3 4.8 with the
    full budget, then z3 5.1 again with the full budget.  Only `unsat` counts as proved, only `sat` as refuted.
    """
    text, timeout_ms = args
    t = time.time()
    be = "z3-%s" % z3.get_version_string()
    short = min(timeout_ms, 3000)
    try:
        r, model = _z3_text(text, short)
    except z3.Z3Exception as ex:
        return UNDECIDED, "z3 could not re-read the obligation: %s" % str(ex)[:100], time.time() - t, None
    if r == z3.unsat:
        return PROVED, be, time.time() - t, None
    if r == z3.sat:
        return REFUTED, be, time.time() - t, model
    # the external solvers get a budget sized for a fully loaded machine (they answer in seconds or not at all), so that a
    # verdict does not flip to `undecided` when all cores are busy
    sv = Solver(timeout_ms=max(timeout_ms, EXTERNAL_BUDGET_MS))
    st, be2 = sv.external(text)
    if st != UNDECIDED or short >= timeout_ms:
        return st, be2, time.time() - t, (sv.last_model if st == REFUTED else None)
    try:
        r, model = _z3_text(text, timeout_ms)
    except z3.Z3Exception:
        r, model = z3.unknown, None
    if r == z3.unsat:
        return PROVED, be, time.time() - t, None
    if r == z3.sat:
        return REFUTED, be, time.time() - t, model
    return UNDECIDED, be2, time.time() - t, None

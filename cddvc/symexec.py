"""
E1 — AST -> verification-condition generator with SMT back ends (DESIGN.md §2.1).

Forward symbolic execution of the real `ast.FunctionDef` with path splitting;
loops are cut at their invariant; calls to functions that have a contract use the
contract only.  Every proof obligation is a z3 query `path-condition ∧ ¬claim`.
"""

import ast
import builtins
import dataclasses
import importlib
import re
import time

import z3

from . import extract
from .values import *  # noqa: F401,F403
from .values import (
    B,
    I,
    ListObj,
    MapObj,
    Opaque,
    OutOfSubset,
    RecordObj,
    S,
    Unsupported,
    VBool,
    VBuiltin,
    VContractFn,
    VCtor,
    VFunc,
    VInt,
    VNode,
    VNone,
    VOpaque,
    VPartial,
    VPy,
    VPyFunc,
    VRef,
    VCharSet,
    VSlice,
    VSpecFn,
    VStr,
    VTuple,
    fresh,
    opaque_is_none,
    opaque_truthy,
    py_count,
    py_isspace,
    py_repeat,
    py_chars_subset,
    py_lstrip_chars,
    py_lstrip,
    py_rstrip,
    py_strip,
)

NORMAL, BREAK, CONTINUE, RETURN, RAISE = "normal", "break", "continue", "return", "raise"
EMPTY = z3.StringVal("")

SPEC_FUNCS = (
    "joined old count n_count first_start last_end chain_ok span_ok joined_values "
    "implies is_none appended length seq_of at unchanged strip lstrip rstrip isspace "
    "startswith endswith contains substr ite same present is_ctor or_empty field refs_closed writes_only has_op declares_param defines chars_subset differs_only_at is_suffix touched_exactly_one_marked isdigit isalpha isidentifier only_chars pure is_str replace is_obj"
).split()


class State(object):
    """One symbolic path"""

    def __init__(self):
        self.frames = [{}]
        self.heap = {}
        self.pc = []
        self.old = None  # entry snapshot: (frame0 copy, heap copy)
        self.ghost = {}  # loop ghosts visible to invariants (done, ...)
        self.notes = []  # imprecision tags
        self.trace = []  # branch decisions, for reports

    def fork(self):
        s = State()
        s.frames = [dict(f) for f in self.frames]
        s.heap = dict(self.heap)
        s.pc = list(self.pc)
        s.old = self.old
        s.ghost = dict(self.ghost)
        if "__paths__" in s.ghost:
            s.ghost["__paths__"] = dict(s.ghost["__paths__"])
        s.notes = list(self.notes)
        s.trace = list(self.trace)
        return s

    def lookup(self, name):
        for f in reversed(self.frames):
            if name in f:
                return f[name]
        return None

    def bind(self, name, v):
        self.frames[-1][name] = v

    def alloc(self, obj):
        rid = next(_rid)
        self.heap[rid] = obj
        return VRef(rid)

    def assume(self, *conds):
        for c in conds:
            if not z3.is_true(c):
                self.pc.append(c)


import itertools  # noqa: E402

_rid = itertools.count(1)


class Obligation(object):
    def __init__(self, name, claim, pc, notes, trace, lineno):
        self.name, self.claim, self.pc = name, claim, list(pc)
        self.notes, self.trace, self.lineno = list(notes), list(trace), lineno
        self.status = None
        self.backend = None
        self.time = 0.0
        self.model = None
        self.smt2 = None


def is_node_ctor(obj):
    """Type rule: a namedtuple / dataclass declared with the three basic CST attributes"""
    if not isinstance(obj, type):
        return None
    if issubclass(obj, tuple) and hasattr(obj, "_fields"):
        return tuple(obj._fields)
    if dataclasses.is_dataclass(obj):
        return tuple(f.name for f in dataclasses.fields(obj))
    return None


class Engine(object):
    """Verifies one function against its contract"""

    def __init__(self, contracts, solver, prop="", timeout_ms=10000):
        self.contracts = contracts  # qual -> Contract
        self.solver = solver
        self.prop = prop
        self.timeout_ms = timeout_ms
        self.obligations = []
        self.assumptions = set()
        self.abstracted = set()
        self.covers = []
        self.module = None
        self.modname = None
        self.contract = None
        self.loop_ordinals = {}
        self.depth = 0
        self.paths_ended = 0
        self.unsupported = []

    # ------------------------------------------------------------------ helpers

    def oblige(self, st, kind, claim, lineno=0):
        """Record (and immediately try to discharge) `st.pc ⇒ claim`"""
        name = "%s/%s/%s" % (self.prop, self.contract.qual, kind)
        ob = Obligation(name, claim, st.pc, st.notes, st.trace, lineno)
        self.solver.discharge(ob)
        self.obligations.append(ob)
        return ob

    def no_raise(self, st, exc, expr, safe):
        """Total-correctness contracts (`total=True`): the operation must not raise -- an obligation, not a dropped path"""
        if getattr(self.contract, "total", False) and not self.spec_mode:
            try:
                txt = ast.unparse(expr)[:50] if isinstance(expr, ast.AST) else str(expr)[:50]
            except Exception:
                txt = "?"
            self.oblige(st, "no-%s@%s" % (exc, txt), safe, getattr(expr, "lineno", 0))

    def feasible(self, st):
        return self.solver.feasible(st.pc)

    def truthy(self, v, st):
        """z3 Bool for Python truthiness of v"""
        if isinstance(v, VBool):
            return v.z
        if isinstance(v, VInt):
            return v.z != 0
        if isinstance(v, VStr):
            return v.z != EMPTY
        if isinstance(v, VNone):
            return z3.BoolVal(False)
        if isinstance(v, VTuple):
            return z3.BoolVal(len(v.items) > 0)
        if isinstance(v, VRef):
            o = st.heap[v.rid]
            if isinstance(o, ListObj):
                return o.len > 0
            if isinstance(o, RecordObj):
                ps = [p for p, _ in o.fields.values()]
                return z3.Or(*ps) if ps else z3.BoolVal(False)
        if isinstance(v, VOpaque):
            return opaque_truthy(v.z)
        if isinstance(v, VPy):
            return z3.BoolVal(bool(v.obj))
        if isinstance(v, VCharSet):
            if v.diff_of is not None:
                return z3.Not(py_chars_subset(v.diff_of[0], v.diff_of[1]))
            return v.z != EMPTY
        if isinstance(v, (VCtor, VNode, VFunc, VPartial, VContractFn, VPyFunc, VBuiltin)):
            return z3.BoolVal(True)
        raise Unsupported("truthiness of %r" % (v,))

    def lift(self, obj, name=""):
        """Concrete Python constant -> symbolic value"""
        if obj is None:
            return VNone()
        if isinstance(obj, bool):
            return VBool(obj)
        if isinstance(obj, int):
            return VInt(obj)
        if isinstance(obj, str):
            return VStr(obj)
        if isinstance(obj, tuple) and all(
            isinstance(o, (str, int, bool, type(None))) for o in obj
        ):
            return VTuple([self.lift(o) for o in obj])
        return VPy(obj, name)

    def to_z3(self, v, st):
        """z3 term for a value used as argument of an uninterpreted function (or None)"""
        if isinstance(v, (VInt, VBool, VStr, VOpaque)):
            return [v.z]
        if isinstance(v, VNone):
            return [z3.StringVal("<None>")]
        if isinstance(v, VTuple):
            out = []
            for i in v.items:
                t = self.to_z3(i, st)
                if t is None:
                    return None
                out.extend(t)
            return out
        if isinstance(v, VPy):
            return [z3.StringVal(repr(v.obj))]
        if isinstance(v, VNode):
            out = []
            for k in sorted(v.fields):
                t = self.to_z3(v.fields[k], st)
                if t is None:
                    return None
                out.extend(t)
            return out
        return None

    def opaque_call(self, qual, args, st, result="opaque"):
        """Pure uninterpreted function of the arguments (assumption recorded)"""
        zs = []
        for a in args:
            t = self.to_z3(a, st)
            if t is None:
                # argument we cannot name: result is an unconstrained fresh value
                self.abstracted.add("call %s with an uninterpretable argument -> fresh value" % qual)
                return self.fresh_value(result, qual)
            zs.extend(t)
        sort = {"bool": B, "int": I, "str": S}.get(result, Opaque)
        f = z3.Function(
            "uf:%s/%s" % (qual, ",".join(str(z.sort()) for z in zs)),
            *([z.sort() for z in zs] + [sort])
        )
        self.assumptions.add(
            "call to %s is pure, deterministic, terminating and does not mutate variables under contract (modelled as an uninterpreted function)"
            % qual
        )
        r = f(*zs) if zs else fresh(qual, sort)
        return {"bool": VBool, "int": VInt, "str": VStr}.get(result, VOpaque)(r)

    def fresh_value(self, kind, name="v", st=None):
        if kind == "bool":
            return VBool(fresh(name, B))
        if kind == "int":
            return VInt(fresh(name, I))
        if kind == "str":
            return VStr(fresh(name, S))
        if kind == "none":
            return VNone()
        if kind == "node":
            return VNode(
                {
                    "line_no_start": VInt(fresh(name + ".line_no_start", I)),
                    "line_no_end": VInt(fresh(name + ".line_no_end", I)),
                    "value": VStr(fresh(name + ".value", S)),
                }
            )
        if kind == "ctor":
            return VCtor(None, None)
        if kind == "map" and st is not None:
            return st.alloc(MapObj())
        if isinstance(kind, tuple) and len(kind) == 2 and kind[0] == "map" and st is not None:
            return st.alloc(MapObj(value_kind=kind[1]))
        if isinstance(kind, (tuple, list)) and st is not None:
            return VTuple([self.fresh_value(k, "%s[%d]" % (name, i), st) for i, k in enumerate(kind)])
        if isinstance(kind, str) and kind.startswith("list:seq:") and st is not None:
            lo, asm = ListObj.fresh("seq", name, {"str": S, "int": I, "opaque": Opaque}[kind[9:]])
            st.assume(*asm)
            return st.alloc(lo)
        if isinstance(kind, str) and kind.startswith("list:") and st is not None:
            lo, asm = ListObj.fresh(kind[5:], name)
            st.assume(*asm)
            return st.alloc(lo)
        if isinstance(kind, dict) and st is not None:  # record
            rec = RecordObj({})
            for k, kk in kind.items():
                if k.endswith("?"):  # optional key: symbolic presence bit
                    rec.fields[k[:-1]] = (fresh(name + "." + k[:-1] + ".present", B), self.fresh_value(kk, name + "." + k[:-1], st))
                else:
                    rec.fields[k] = (z3.BoolVal(True), self.fresh_value(kk, name + "." + k, st))
            return st.alloc(rec)
        return VOpaque(note=name)

    def fresh_like(self, v, st, name="h"):
        """Havoc: a fresh value of the same kind as v"""
        if isinstance(v, VInt):
            return VInt(fresh(name, I))
        if isinstance(v, VBool):
            return VBool(fresh(name, B))
        if isinstance(v, VStr):
            return VStr(fresh(name, S))
        if isinstance(v, VRef):
            self.havoc_obj(v, st, name)
            return v
        if isinstance(v, VNode):
            return VNode({k: self.fresh_like(x, st, name + "." + k) for k, x in v.fields.items()})
        if isinstance(v, VTuple):
            return VTuple([self.fresh_like(x, st, name) for x in v.items])
        if isinstance(v, (VNone, VOpaque)):
            return VOpaque(note=name)
        return v  # functions, ctors, constants: not assignable state

    def havoc_obj(self, ref, st, name="h", kind_hint=None):
        o = st.heap[ref.rid]
        if isinstance(o, ListObj):
            if o.kind == "empty":
                k = kind_hint or self.contract.local_kinds.get(name)
                if k is None:
                    # no declared view: after the havoc it is a list about which nothing is known (length, elements) -- the
                    # weakest view there is.  (Raising here made the verdict depend on whether a feasibility query that prunes
                    # the path happened to time out on a slow machine.)
                    k = "opaque"
                if k.startswith("seq"):
                    n, asm = ListObj.fresh("seq", name, {"str": S, "int": I}.get(k[4:], Opaque))
                else:
                    n, asm = ListObj.fresh(k, name)
            else:
                n, asm = o.fresh_like(name)
            st.heap[ref.rid] = n
            st.assume(*asm)
        elif isinstance(o, RecordObj):
            n = RecordObj({})
            for k, (p, v) in o.fields.items():
                np_ = p if z3.is_true(p) else fresh(name + "." + k + ".present", B)
                n.fields[k] = (np_, self.fresh_like(v, st, name + "." + k))
            st.heap[ref.rid] = n

    # ------------------------------------------------------------------ python slice semantics

    @staticmethod
    def norm_index(i, n):
        """Python's clamping of a slice bound i for a sequence of length n"""
        return z3.If(i < 0, z3.If(n + i < 0, z3.IntVal(0), n + i), z3.If(i > n, n, i))

    def py_slice(self, s, lo, hi):
        n = z3.Length(s)
        lo_ = z3.IntVal(0) if lo is None else self.norm_index(lo, n)
        hi_ = n if hi is None else self.norm_index(hi, n)
        return z3.SubString(s, lo_, z3.If(hi_ - lo_ < 0, z3.IntVal(0), hi_ - lo_))

    # ------------------------------------------------------------------ expressions

    SAFE_METHODS = frozenset(
        "startswith endswith isspace strip lstrip rstrip count find rfind lower upper isdigit isalpha isidentifier isupper islower casefold".split()
    )

    def is_safe(self, e):
        """Syntactically total + pure expression: may be combined without forking"""
        if isinstance(e, (ast.Name, ast.Constant)):
            return True
        if isinstance(e, ast.UnaryOp) and isinstance(e.op, (ast.Not, ast.USub)):
            return self.is_safe(e.operand)
        if isinstance(e, ast.BoolOp):
            return all(self.is_safe(v) for v in e.values)
        if isinstance(e, ast.Compare):
            return self.is_safe(e.left) and all(self.is_safe(c) for c in e.comparators)
        if isinstance(e, ast.BinOp) and isinstance(e.op, (ast.Add, ast.Sub, ast.Mult)):
            return self.is_safe(e.left) and self.is_safe(e.right)
        if isinstance(e, ast.Call) and not e.keywords:
            if (
                isinstance(e.func, ast.Attribute)
                and e.func.attr in self.SAFE_METHODS
                and self.is_safe(e.func.value)
                and all(self.is_safe(a) for a in e.args)
            ):
                return True
            if (
                isinstance(e.func, ast.Name)
                and e.func.id in ("len", "is_triple_quoted", "balanced_parentheses")
                and all(self.is_safe(a) for a in e.args)
            ):
                return True
        if isinstance(e, ast.Subscript) and isinstance(e.slice, ast.Slice):
            sl = e.slice
            return (
                self.is_safe(e.value)
                and sl.step is None
                and all(x is None or self.is_safe(x) for x in (sl.lower, sl.upper))
            )
        return False

    def eval1(self, e, st):
        """Evaluate an expression that must not fork (spec mode / safe expressions)"""
        rs = self.eval(e, st)
        if len(rs) != 1:
            raise Unsupported("expression forks: %s" % ast.unparse(e))
        return rs[0][1]

    def eval_seq(self, es, st):
        """Evaluate several expressions left to right -> [(state, [values])]"""
        outs = [(st, [])]
        for e in es:
            nxt = []
            for s, vs in outs:
                for s2, v in self.eval(e, s):
                    nxt.append((s2, vs + [v]))
            outs = nxt
        return outs

    def eval(self, e, st):
        """-> list of (State, V); paths that raise are dropped (partial correctness)"""
        try:
            return self._eval(e, st)
        except Unsupported as ex:
            return [(st, self.opaque_expr(e, st, str(ex)))]

    def opaque_expr(self, e, st, why=""):
        """Unsupported expression: fresh unconstrained value; tracked objects mentioned are havocked"""
        txt = ast.unparse(e)
        self.abstracted.add("abstracted: %s" % (txt if len(txt) < 160 else txt[:157] + "..."))
        par = {}
        for n in ast.walk(e):
            for ch in ast.iter_child_nodes(n):
                par[id(ch)] = n
        for n in ast.walk(e):
            if isinstance(n, ast.Name):
                v = st.lookup(n.id)
                if isinstance(v, VRef) and isinstance(st.heap.get(v.rid), RecordObj):
                    # reading an immutable field (`rec["k"]`, `rec.get("k")`) cannot mutate the record
                    p_ = par.get(id(n))
                    rec = st.heap[v.rid]
                    key = None
                    if isinstance(p_, ast.Subscript) and p_.value is n and isinstance(p_.slice, ast.Constant) and isinstance(p_.ctx, ast.Load):
                        key = p_.slice.value
                    elif isinstance(p_, ast.Attribute) and p_.attr == "get" and isinstance(par.get(id(p_)), ast.Call) and par[id(p_)].args and isinstance(par[id(p_)].args[0], ast.Constant):
                        key = par[id(p_)].args[0].value
                    if key is not None and (key not in rec.fields or not isinstance(rec.fields[key][1], VRef)):
                        continue
                if isinstance(v, VRef) and self.may_mutate(e, n.id):
                    self.havoc_obj(v, st, n.id)
                    st.notes.append("imprecise: %s havocked by unsupported expression `%s`" % (n.id, txt[:80]))
        return VOpaque(note=txt[:60])

    MUTATORS = frozenset(
        "append extend insert pop remove clear sort reverse update setdefault popitem add discard".split()
    )

    def may_mutate(self, e, name):
        """Could evaluating e mutate the object bound to `name`? (syntactic over-approximation)"""
        for n in ast.walk(e):
            # a bound mutator taken as a value (`xs.append` handed to map / deque) escapes
            if isinstance(n, ast.Attribute) and isinstance(n.value, ast.Name) and n.value.id == name and n.attr in self.MUTATORS:
                return True
            if isinstance(n, ast.Call):
                f = n.func
                if isinstance(f, ast.Attribute) and isinstance(f.value, ast.Name) and f.value.id == name:
                    if f.attr in self.MUTATORS:
                        return True
                    continue
                # passed as an argument to anything that is not a known pure builtin
                fname = f.id if isinstance(f, ast.Name) else (f.attr if isinstance(f, ast.Attribute) else "")
                for a in list(n.args) + [k.value for k in n.keywords]:
                    for m in ast.walk(a):
                        if isinstance(m, ast.Name) and m.id == name:
                            if fname not in (
                                "len", "tuple", "list", "map", "filter", "enumerate", "zip", "any", "all",
                                "join", "isinstance", "str", "repr", "sorted", "iter", "next", "frozenset",
                                "set", "range", "min", "max", "sum", "format", "getattr", "hasattr",
                            ):
                                return True
        return False

    def _eval(self, e, st):
        if isinstance(e, ast.Constant):
            return [(st, self.lift(e.value))]
        if isinstance(e, ast.Name):
            return [(st, self.eval_name(e.id, st))]
        if isinstance(e, ast.JoinedStr):
            raise Unsupported("f-string")
        if isinstance(e, ast.Tuple) or isinstance(e, ast.List):
            if any(isinstance(x, ast.Starred) for x in e.elts) and not isinstance(e, ast.Tuple):
                raise Unsupported("starred display")
            outs = []
            for s, vs in self.eval_seq([x.value if isinstance(x, ast.Starred) else x for x in e.elts], st):
                if isinstance(e, ast.Tuple):
                    flat = []
                    for x, v in zip(e.elts, vs):
                        if isinstance(x, ast.Starred):
                            if not isinstance(v, VTuple):
                                raise Unsupported("starred non-tuple in a tuple display")
                            flat.extend(v.items)
                        else:
                            flat.append(v)
                    outs.append((s, VTuple(flat)))
                else:
                    lo = ListObj.empty()
                    for v in vs:
                        lo = self.list_append(lo, v, s)
                    if lo.kind == "opaque":
                        lo.g["items"] = list(vs)  # a display of arbitrary values: the items are kept (JSON trees)
                    outs.append((s, s.alloc(lo)))
            return outs
        if isinstance(e, ast.Dict):
            if not all(isinstance(k, ast.Constant) and isinstance(k.value, str) for k in e.keys):
                raise Unsupported("dict display with non-constant keys")
            outs = []
            for s, vs in self.eval_seq(e.values, st):
                rec = RecordObj({k.value: (z3.BoolVal(True), v) for k, v in zip(e.keys, vs)})
                outs.append((s, s.alloc(rec)))
            return outs
        if isinstance(e, ast.UnaryOp):
            outs = []
            for s, v in self.eval(e.operand, st):
                if isinstance(e.op, ast.Not):
                    outs.append((s, VBool(z3.Not(self.truthy(v, s)))))
                elif isinstance(e.op, ast.USub) and isinstance(v, VInt):
                    outs.append((s, VInt(-v.z)))
                else:
                    raise Unsupported("unary op")
            return outs
        if isinstance(e, ast.BoolOp):
            return self.eval_boolop(e, st)
        if isinstance(e, ast.IfExp):
            outs = []
            for s, c in self.eval(e.test, st):
                t = self.truthy(c, s)
                for cond, branch in ((t, e.body), (z3.Not(t), e.orelse)):
                    s2 = s.fork()
                    s2.assume(cond)
                    if self.feasible(s2):
                        outs.extend(self.eval(branch, s2))
            return outs
        if isinstance(e, ast.Compare):
            return self.eval_compare(e, st)
        if isinstance(e, ast.BinOp):
            outs = []
            for s, (a, b) in self.eval_seq([e.left, e.right], st):
                outs.append((s, self.binop(e.op, a, b, s)))
            return outs
        if isinstance(e, ast.Subscript):
            return self.eval_subscript(e, st)
        if isinstance(e, ast.Attribute):
            outs = []
            for s, v in self.eval(e.value, st):
                outs.append((s, self.get_attr(v, e.attr, s, e)))
            return outs
        if isinstance(e, ast.Call):
            return self.eval_call(e, st)
        if isinstance(e, ast.Lambda):
            return [(st, VFunc(e, "<lambda>"))]
        raise Unsupported(type(e).__name__)

    def eval_name(self, name, st):
        v = st.lookup(name)
        if v is not None:
            return v
        if name in st.ghost:
            return st.ghost[name]
        if self.spec_mode and name in SPEC_FUNCS:
            return VSpecFn(name)
        bind = self.contract.bind.get(name)
        if bind is not None:
            return VContractFn(bind)
        if self.module is not None and hasattr(self.module, name):
            return self.lift_global(getattr(self.module, name), name)
        if hasattr(builtins, name):
            return VBuiltin(name)
        if self.spec_mode:
            # a specification that names a variable the code has not bound on this path says nothing about this path; evaluating
            # it over an arbitrary value would turn a harmless rewrite (an early return) into a refutation
            raise OutOfSubset("the specification mentions `%s`, which is not bound on this path: the contract does not attach" % name)
        raise Unsupported("unbound name %s" % name)

    spec_mode = False

    def lift_global(self, obj, name):
        """Module-level name of the real (imported) module -> value"""
        if isinstance(obj, (str, int, bool, type(None), tuple, frozenset, dict)) and not isinstance(obj, type):
            return self.lift(obj, name)
        fields = is_node_ctor(obj)
        if fields is not None:
            return VCtor(obj.__name__, fields)
        if callable(obj):
            mod = getattr(obj, "__module__", None) or ""
            qn = getattr(obj, "__qualname__", getattr(obj, "__name__", name))
            qual = "%s:%s" % (mod, qn)
            if qual in self.contracts:
                return VContractFn(qual)
            if obj in (len, all, any, tuple, list, dict, filter, map, enumerate, isinstance, range, abs, bool, str, int, min, max, slice, frozenset, set, type, float, complex, getattr, setattr):
                return VBuiltin(obj.__name__)
            if mod == "collections" and qn == "deque":
                return VBuiltin("deque")
            if mod == "functools" and qn == "partial":
                return VBuiltin("partial")
            return VPyFunc(qual, obj)
        return VPy(obj, name)

    def eval_boolop(self, e, st):
        is_and = isinstance(e.op, ast.And)
        if self.spec_mode:
            zs = [self.truthy(self._eval_spec_node(v, st), st) for v in e.values]
            return [(st, VBool(z3.And(*zs) if is_and else z3.Or(*zs)))]
        if all(self.is_safe(v) for v in e.values):
            vals = [self.eval1(v, st) for v in e.values]
            if all(isinstance(v, VBool) for v in vals):
                zs = [v.z for v in vals]
                return [(st, VBool(z3.And(*zs) if is_and else z3.Or(*zs)))]
        # short-circuit with forking; the value of the BoolOp is the deciding operand
        outs = []
        work = [(st, 0)]
        while work:
            s, i = work.pop()
            for s2, v in self.eval(e.values[i], s):
                if i == len(e.values) - 1:
                    outs.append((s2, v))
                    continue
                t = self.truthy(v, s2)
                stop_c, go_c = (z3.Not(t), t) if is_and else (t, z3.Not(t))
                sa = s2.fork()
                sa.assume(stop_c)
                if self.feasible(sa):
                    outs.append((sa, v))
                sb = s2.fork()
                sb.assume(go_c)
                if self.feasible(sb):
                    work.append((sb, i + 1))
        return outs

    def eval_compare(self, e, st):
        outs = []
        for s, vs in self.eval_seq([e.left] + list(e.comparators), st):
            conj = []
            for op, a, b in zip(e.ops, vs, vs[1:]):
                conj.append(self.compare(op, a, b, s))
            outs.append((s, VBool(z3.And(*conj) if len(conj) > 1 else conj[0])))
        return outs

    def equal(self, a, b, st):
        """z3 Bool for Python == (None when not expressible)"""
        if isinstance(a, VBool) and isinstance(b, VBool):
            return a.z == b.z
        if isinstance(a, VInt) and isinstance(b, VInt):
            return a.z == b.z
        if isinstance(a, VStr) and isinstance(b, VStr):
            return a.z == b.z
        if isinstance(a, VNone) and isinstance(b, VNone):
            return z3.BoolVal(True)
        if isinstance(a, VNone) and isinstance(b, VOpaque):
            return opaque_is_none(b.z)
        if isinstance(b, VNone) and isinstance(a, VOpaque):
            return opaque_is_none(a.z)
        if isinstance(a, VNone) or isinstance(b, VNone):
            if isinstance(a, (VInt, VStr, VBool, VTuple, VRef, VNode)) or isinstance(
                b, (VInt, VStr, VBool, VTuple, VRef, VNode)
            ):
                return z3.BoolVal(False)
        if isinstance(a, VTuple) and isinstance(b, VTuple):
            if len(a.items) != len(b.items):
                return z3.BoolVal(False)
            cs = [self.equal(x, y, st) for x, y in zip(a.items, b.items)]
            if any(c is None for c in cs):
                return None
            return z3.And(*cs) if cs else z3.BoolVal(True)
        if isinstance(a, VOpaque) and isinstance(b, VOpaque):
            return a.z == b.z
        if isinstance(a, VRef) and isinstance(b, VRef) and self.spec_mode:
            return self.view_equal(st.heap[a.rid], st.heap[b.rid])
        if isinstance(a, VNode) and isinstance(b, VNode) and self.spec_mode:
            ks = set(a.fields) | set(b.fields)
            cs = [self.equal(a.fields[k], b.fields[k], st) if k in a.fields and k in b.fields else z3.BoolVal(False) for k in ks]
            if any(c is None for c in cs):
                return None
            return z3.And(*cs)
        return None

    def view_equal(self, x, y):
        if isinstance(x, ListObj) and isinstance(y, ListObj):
            if x.kind == "empty" or y.kind == "empty":
                return z3.And(x.len == y.len)
            if x.kind != y.kind:
                return z3.BoolVal(False)
            return z3.And(x.len == y.len, *[x.g[k] == y.g[k] for k in x.g])
        return None

    def compare(self, op, a, b, st):
        if isinstance(op, (ast.Eq, ast.NotEq)):
            c = self.equal(a, b, st)
            if c is None:
                c = fresh("eq", B)
                self.abstracted.add("abstracted: == between %s and %s" % (type(a).__name__, type(b).__name__))
            return c if isinstance(op, ast.Eq) else z3.Not(c)
        if isinstance(op, (ast.Is, ast.IsNot)):
            if isinstance(a, VPy) and isinstance(b, VPy):
                c = z3.BoolVal(a.obj is b.obj)
                return c if isinstance(op, ast.Is) else z3.Not(c)
            if (isinstance(a, VPy) and isinstance(b, (VStr, VInt, VBool, VNone, VTuple))) or (isinstance(b, VPy) and isinstance(a, (VStr, VInt, VBool, VNone, VTuple))):
                c = z3.BoolVal(False)
                return c if isinstance(op, ast.Is) else z3.Not(c)
            if isinstance(b, VNone) or isinstance(a, VNone):
                c = self.equal(a, b, st)
                if c is None:
                    c = z3.BoolVal(False)
            elif isinstance(a, VBool) and isinstance(b, VBool):
                c = a.z == b.z
            else:
                c = fresh("is", B)
            return c if isinstance(op, ast.Is) else z3.Not(c)
        if isinstance(op, (ast.Lt, ast.LtE, ast.Gt, ast.GtE)) and isinstance(a, VInt) and isinstance(b, VInt):
            return {ast.Lt: a.z < b.z, ast.LtE: a.z <= b.z, ast.Gt: a.z > b.z, ast.GtE: a.z >= b.z}[type(op)]
        if isinstance(op, (ast.In, ast.NotIn)):
            c = self.contains(b, a, st)
            return c if isinstance(op, ast.In) else z3.Not(c)
        return fresh("cmp", B)

    def contains(self, container, x, st):
        if isinstance(container, VStr) and isinstance(x, VStr):
            return z3.Contains(container.z, x.z)
        if isinstance(container, VPy) and isinstance(container.obj, (frozenset, set, tuple, list, dict)):
            if isinstance(x, VNone):
                return z3.BoolVal(None in container.obj)
            if isinstance(x, VBool) and z3.is_false(x.z) or isinstance(x, VBool) and z3.is_true(x.z):
                return z3.BoolVal(z3.is_true(x.z) in container.obj)
            if isinstance(x, VStr):
                return z3.Or(*[x.z == z3.StringVal(c) for c in container.obj if isinstance(c, str)]) if container.obj else z3.BoolVal(False)
        if isinstance(container, VTuple):
            cs = [self.equal(i, x, st) for i in container.items]
            if all(c is not None for c in cs):
                return z3.Or(*cs) if cs else z3.BoolVal(False)
        if isinstance(container, VRef) and isinstance(x, VStr):
            o = st.heap[container.rid]
            if isinstance(o, RecordObj) and z3.is_string_value(x.z):
                k = x.z.as_string()
                return o.fields[k][0] if k in o.fields else z3.BoolVal(False)
            if isinstance(o, RecordObj):
                # symbolic key against a record with constant keys: it is one of the present keys
                return z3.Or(*[z3.And(p_, x.z == z3.StringVal(k_)) for k_, (p_, _v) in o.fields.items()]) if o.fields else z3.BoolVal(False)
        if isinstance(container, VPy) and isinstance(container.obj, (frozenset, set, tuple)) and isinstance(x, VOpaque):
            f_ = z3.Function("in:%s" % sorted(map(repr, container.obj)), Opaque, B)
            self.assumptions.add("membership of an uninterpreted value in a constant set is a function of the value")
            return f_(x.z)
        if isinstance(container, VOpaque) and isinstance(x, VStr):
            # membership of a string in an uninterpreted container: a function of the two (the same in code and specification)
            self.assumptions.add("membership of a string in an uninterpreted container is a function of the container and the string (the container is not mutated in between)")
            return z3.Function("in:opaque", Opaque, S, B)(container.z, x.z)
        self.abstracted.add("abstracted: membership test")
        return fresh("in", B)

    def binop(self, op, a, b, st):
        if isinstance(a, VInt) and isinstance(b, VInt):
            if isinstance(op, ast.Add):
                return VInt(a.z + b.z)
            if isinstance(op, ast.Sub):
                return VInt(a.z - b.z)
            if isinstance(op, ast.Mult):
                return VInt(a.z * b.z)
        if isinstance(a, VStr) and isinstance(b, VStr) and isinstance(op, ast.Add):
            return VStr(z3.Concat(a.z, b.z))
        if isinstance(op, ast.Sub) and isinstance(a, VCharSet) and isinstance(b, VCharSet) and a.diff_of is None and b.diff_of is None:
            self.assumptions.add("stdlib spec: frozenset(a) - frozenset(b) is empty iff every character of a occurs in b (uninterpreted py_chars_subset)")
            return VCharSet(diff_of=(a.z, b.z))
        if isinstance(op, ast.Mult) and ((isinstance(a, VStr) and isinstance(b, VInt)) or (isinstance(a, VInt) and isinstance(b, VStr))):
            sv, nv = (a, b) if isinstance(a, VStr) else (b, a)
            r = py_repeat(sv.z, nv.z)
            st.assume(z3.Implies(nv.z <= 0, r == EMPTY), z3.Implies(nv.z == 1, r == sv.z), z3.Length(r) == z3.If(nv.z <= 0, 0, nv.z * z3.Length(sv.z)))
            self.assumptions.add("stdlib spec: s * n is uninterpreted apart from its length, n <= 0 and n == 1")
            return VStr(r)
        if isinstance(op, ast.Add) and isinstance(a, VTuple) and isinstance(b, VTuple):
            return VTuple(a.items + b.items)
        if isinstance(op, ast.Add) and isinstance(a, VRef) and isinstance(b, VRef):
            x, y = st.heap[a.rid], st.heap[b.rid]
            if isinstance(x, ListObj) and isinstance(y, ListObj):
                return st.alloc(self.list_concat(x, y))
        raise Unsupported("binop %s on %s,%s" % (type(op).__name__, type(a).__name__, type(b).__name__))

    def list_concat(self, x, y):
        if x.kind == "empty":
            return ListObj(y.len, y.kind, y.g, y.elem)
        if y.kind == "empty":
            return ListObj(x.len, x.kind, x.g, x.elem)
        if x.kind == y.kind == "str":
            return ListObj(x.len + y.len, "str", {"joined": z3.Concat(x.g["joined"], y.g["joined"])})
        if x.kind == y.kind == "seq" and x.elem == y.elem:
            return ListObj(x.len + y.len, "seq", {"seq": z3.Concat(x.g["seq"], y.g["seq"])}, x.elem)
        return ListObj(x.len + y.len, "opaque", {})

    def get_attr(self, v, attr, st, e=None):
        if isinstance(v, VNode):
            if attr in v.fields:
                return v.fields[attr]
            raise Unsupported("node has no field %s" % attr)
        if isinstance(v, VPy) and hasattr(v.obj, attr):
            return self.lift_global(getattr(v.obj, attr), attr)
        if isinstance(v, VPyFunc) and isinstance(getattr(v, "obj", None), type) and issubclass(v.obj, __import__("enum").Enum) and attr in v.obj.__members__:
            # a member of an Enum declared in the real module: one named constant per member, members pairwise distinct, not None
            members = list(v.obj.__members__)
            consts = {m: z3.Const("enum:%s.%s" % (v.obj.__name__, m), Opaque) for m in members}
            if len(members) > 1:
                st.assume(z3.Distinct(*consts.values()))
            st.assume(z3.Not(opaque_is_none(consts[attr])))
            return VOpaque(consts[attr], note="%s.%s" % (v.obj.__name__, attr))
        if isinstance(v, VOpaque):
            # access path on an uninterpreted object: the same path denotes the same object until it is stored to
            path = (v.path + "." + attr) if getattr(v, "path", None) else None
            memo = st.ghost.setdefault("__paths__", {})
            if path is not None:
                if path not in memo:
                    kind = self.contract.paths.get(path) if self.contract is not None else None
                    nv = self.fresh_value(kind, path, st) if kind else VOpaque(note=path)
                    if isinstance(nv, VOpaque):
                        nv.path = path
                    memo[path] = nv
                return memo[path]
            self.assumptions.add("attribute reads on uninterpreted objects are pure (attr:%s is a function of the object)" % attr)
            if attr == "__name__":
                return VStr(z3.Function("attr_str:__name__", Opaque, S)(v.z))
            f_ = z3.Function("attr:%s" % attr, Opaque, Opaque)
            return VOpaque(f_(v.z), note="." + attr)
        raise Unsupported("attribute %s of %s" % (attr, type(v).__name__))

    # ------------------------------------------------------------------ subscripts

    def eval_subscript(self, e, st):
        outs = []
        if isinstance(e.slice, ast.Slice):
            if e.slice.step is not None:
                raise Unsupported("slice step")
            parts = [x for x in (e.slice.lower, e.slice.upper) if x is not None]
            for s, vs in self.eval_seq([e.value] + parts, st):
                base, rest = vs[0], vs[1:]
                lo = rest.pop(0) if e.slice.lower is not None else None
                hi = rest.pop(0) if e.slice.upper is not None else None
                if not all(x is None or isinstance(x, VInt) for x in (lo, hi)):
                    # `None` bound (e.g. rfind(x, None, end)) -> treat as absent
                    lo = None if isinstance(lo, VNone) else lo
                    hi = None if isinstance(hi, VNone) else hi
                    if not all(x is None or isinstance(x, VInt) for x in (lo, hi)):
                        raise Unsupported("slice bound kind")
                if isinstance(base, VStr):
                    outs.append((s, VStr(self.py_slice(base.z, lo and lo.z, hi and hi.z))))
                elif isinstance(base, VRef) and isinstance(s.heap[base.rid], ListObj) and s.heap[base.rid].kind == "seq":
                    o = s.heap[base.rid]
                    sub = self.py_slice(o.g["seq"], lo and lo.z, hi and hi.z)
                    outs.append((s, s.alloc(ListObj(z3.Length(sub), "seq", {"seq": sub}, o.elem))))
                elif isinstance(base, VRef) and isinstance(s.heap[base.rid], ListObj) and s.heap[base.rid].kind in ("str", "empty"):
                    # a slice of a list of strings: some contiguous run of its elements
                    o = s.heap[base.rid]
                    n, asm = ListObj.fresh("str", "slice")
                    pre, post = fresh("pre", S), fresh("post", S)
                    s.assume(*asm)
                    s.assume(n.len <= o.len, (o.g["joined"] if o.kind == "str" else EMPTY) == z3.Concat(pre, n.g["joined"], post))
                    if lo is None and hi is None:
                        s.assume(n.len == o.len, pre == EMPTY, post == EMPTY)
                    self.assumptions.add("list slice xs[a:b] abstracted as a contiguous run of xs (joined(xs) == pre ++ joined(xs[a:b]) ++ post)")
                    outs.append((s, s.alloc(n)))
                elif isinstance(base, VTuple) and all(x is None or z3.is_int_value(x.z) for x in (lo, hi)):
                    a = None if lo is None else lo.z.as_long()
                    b = None if hi is None else hi.z.as_long()
                    outs.append((s, VTuple(base.items[a:b])))
                else:
                    raise Unsupported("slice of %s" % type(base).__name__)
            return outs
        slot = self.slot_path(e)
        if slot is not None:
            # declared slot `xs[i]` of a block contract: the same text denotes the same element until it is stored to
            memo = st.ghost.setdefault("__paths__", {})
            if slot not in memo:
                kind = self.contract.paths.get(slot)
                nv = self.fresh_value(kind, slot, st) if kind else VOpaque(note=slot)
                if isinstance(nv, VOpaque):
                    nv.path = slot
                memo[slot] = nv
            return [(st, memo[slot])]
        for s, (base, idx) in self.eval_seq([e.value, e.slice], st):
            if isinstance(idx, VSlice) and isinstance(base, VStr):
                lo = None if isinstance(idx.lo, VNone) else idx.lo.z
                hi = None if isinstance(idx.hi, VNone) else idx.hi.z
                outs.append((s, VStr(self.py_slice(base.z, lo, hi))))
                continue
            if isinstance(base, VRef) and isinstance(s.heap[base.rid], MapObj) and isinstance(idx, (VStr, VOpaque)):
                mo = s.heap[base.rid]
                hit = [v_ for k_, v_ in mo.entries + mo.fetched if k_.eq(idx.z)]
                if not hit:
                    if mo.value_kind is None:
                        raise Unsupported("read of a symbolic-key map entry that was not written in this function")
                    # an entry of the unknown base: materialised once, later reads / stores see the same object (KeyError path ends)
                    v_new = self.fresh_value(mo.value_kind, "entry", s)
                    s.heap[base.rid] = MapObj(mo.entries, mo.value_kind, mo.fetched + [(idx.z, v_new)])
                    hit = [v_new]
                outs.append((s, hit[-1]))
                continue
            if isinstance(base, VRef):
                o = s.heap[base.rid]
                if isinstance(o, RecordObj) and isinstance(idx, VStr) and z3.is_string_value(idx.z):
                    k = idx.z.as_string()
                    if k not in o.fields:
                        continue  # KeyError: path ends
                    p, v = o.fields[k]
                    if not z3.is_true(p):
                        s.assume(p)  # KeyError on the other path
                        if not self.feasible(s):
                            continue
                    outs.append((s, v))
                    continue
                if isinstance(o, RecordObj) and isinstance(idx, VStr) and o.fields and all(isinstance(v_, VInt) for _p, v_ in o.fields.values()):
                    # counter record read at a symbolic key: KeyError unless it is a present key
                    s.assume(z3.Or(*[z3.And(p_, idx.z == z3.StringVal(k_)) for k_, (p_, _v) in o.fields.items()]))
                    if not self.feasible(s):
                        continue
                    val = z3.IntVal(0)
                    for k_, (_p, v_) in o.fields.items():
                        val = z3.If(idx.z == z3.StringVal(k_), v_.z, val)
                    outs.append((s, VInt(val)))
                    continue
                if isinstance(o, ListObj) and o.kind == "seq" and isinstance(idx, VInt):
                    n = o.len
                    i = z3.If(idx.z < 0, n + idx.z, idx.z)
                    self.no_raise(s, "IndexError", e, z3.And(i >= 0, i < n))
                    s.assume(z3.And(i >= 0, i < n))  # else IndexError: path ends
                    if self.feasible(s):
                        outs.append((s, self.wrap_sort(o.g["seq"][i], o.elem)))
                    continue
            if isinstance(base, VStr) and isinstance(idx, VInt):
                n = z3.Length(base.z)
                i = z3.If(idx.z < 0, n + idx.z, idx.z)
                self.no_raise(s, "IndexError", e, z3.And(i >= 0, i < n))
                s.assume(z3.And(i >= 0, i < n))  # else IndexError: path ends
                if self.feasible(s):
                    outs.append((s, VStr(z3.SubString(base.z, i, 1))))
                continue
            if isinstance(base, VTuple) and isinstance(idx, VInt) and z3.is_int_value(idx.z):
                k = idx.z.as_long()
                if -len(base.items) <= k < len(base.items):
                    outs.append((s, base.items[k]))
                continue
            if isinstance(base, VPy) and isinstance(base.obj, dict) and isinstance(idx, VStr) and base.obj and all(isinstance(k, str) and isinstance(v, str) for k, v in base.obj.items()):
                # lookup in a constant str -> str table (KeyError path ends)
                r = fresh("lookup", S)
                s.assume(z3.Or(*[z3.And(idx.z == z3.StringVal(k), r == z3.StringVal(v)) for k, v in base.obj.items()]))
                if self.feasible(s):
                    outs.append((s, VStr(r)))
                continue
            if isinstance(base, VPy) and isinstance(base.obj, dict) and isinstance(idx, (VStr, VOpaque)):
                # lookup in a constant table: any of its values (KeyError path ends)
                vals = list(base.obj.values())
                ctor_fields = [is_node_ctor(v) for v in vals]
                if vals and all(f is not None for f in ctor_fields):
                    outs.append((s, VCtor(None, None)))
                    continue
            raise Unsupported("subscript %s[%s]" % (type(base).__name__, type(idx).__name__))
        return outs

    def const_key(self, e, st):
        """A subscript key that is a string constant, or a variable currently bound to one (loop over a constant tuple)"""
        if isinstance(e, ast.Constant) and isinstance(e.value, str):
            return e.value
        if isinstance(e, ast.Name):
            try:
                v = st.lookup(e.id)
            except Exception:
                return None
            if isinstance(v, VStr) and z3.is_string_value(v.z):
                return v.z.as_string()
        return None

    def slot_path(self, e):
        """`xs[i]` (two plain names) when the block contract declares an access path through it, else None"""
        c = self.contract
        if c is None or not getattr(c, "paths", None):
            return None
        if (isinstance(e, ast.Subscript) and isinstance(e.slice, ast.Constant) and isinstance(e.slice.value, int) and not isinstance(e.slice.value, bool)
                and isinstance(e.ctx, ast.Load)):
            # `p.a.b[0]`: a constant element of a dotted access path rooted at a name, when the contract declares exactly it
            base = e.value
            while isinstance(base, ast.Attribute):
                base = base.value
            key = ast.unparse(e)
            if isinstance(base, ast.Name) and any(p_ == key or p_.startswith(key + ".") for p_ in c.paths):
                return key
        if getattr(c, "block", None) is None:
            return None
        if not (isinstance(e, ast.Subscript) and isinstance(e.value, ast.Name) and isinstance(e.slice, ast.Name)):
            return None
        key = "%s[%s]" % (e.value.id, e.slice.id)
        if any(p_ == key or p_.startswith(key + ".") for p_ in c.paths):
            return key
        return None

    def wrap_sort(self, z, sort):
        if sort == I:
            return VInt(z)
        if sort == S:
            return VStr(z)
        if sort == B:
            return VBool(z)
        return VOpaque(z)

    # ------------------------------------------------------------------ lists

    def list_append(self, lo, v, st):
        """Effect of list.append(v) on the abstract view (pure: returns the new view)"""
        kind = lo.kind
        if kind == "empty":
            if isinstance(v, VStr):
                kind, lo = "str", ListObj(lo.len, "str", {"joined": EMPTY})
            elif isinstance(v, VNode) and all(k in v.fields for k in ("line_no_start", "line_no_end", "value")):
                lo = ListObj(
                    lo.len,
                    "node",
                    {
                        "first_start": z3.IntVal(0),
                        "last_end": z3.IntVal(0),
                        "chain_ok": z3.BoolVal(True),
                        "span_ok": z3.BoolVal(True),
                        "joined_values": EMPTY,
                    },
                )
                kind = "node"
            elif isinstance(v, (VInt, VBool, VOpaque)):
                sort = v.z.sort()
                lo = ListObj(lo.len, "seq", {"seq": z3.Empty(z3.SeqSort(sort))}, sort)
                kind = "seq"
            else:
                return ListObj(lo.len + 1, "opaque", {})
        if kind == "str" and isinstance(v, VStr):
            return ListObj(lo.len + 1, "str", {"joined": z3.Concat(lo.g["joined"], v.z)})
        if kind == "node" and isinstance(v, VNode):
            ns, ne, val = v.fields["line_no_start"], v.fields["line_no_end"], v.fields["value"]
            if isinstance(ns, VInt) and isinstance(ne, VInt) and isinstance(val, VStr):
                g = lo.g
                return ListObj(
                    lo.len + 1,
                    "node",
                    {
                        "first_start": z3.If(lo.len == 0, ns.z, g["first_start"]),
                        "last_end": ne.z,
                        "chain_ok": z3.And(g["chain_ok"], z3.Or(lo.len == 0, ns.z == g["last_end"])),
                        "span_ok": z3.And(g["span_ok"], ne.z - ns.z == py_count(val.z, z3.StringVal("\n"))),
                        "joined_values": z3.Concat(g["joined_values"], val.z),
                    },
                )
        if kind == "seq" and hasattr(v, "z") and v.z.sort() == lo.elem:
            return ListObj(lo.len + 1, "seq", {"seq": z3.Concat(lo.g["seq"], z3.Unit(v.z))}, lo.elem)
        return ListObj(lo.len + 1, "opaque", {})

    # ------------------------------------------------------------------ calls

    def eval_call(self, e, st):
        f = e.func
        if self.spec_mode and isinstance(f, ast.Name) and f.id == "implies" and len(e.args) == 2 and not e.keywords:
            # implies(a, b) where b names a variable that is unbound on this path: b is only needed where a can hold
            a_ = self.truthy(self._eval_spec_node(e.args[0], st), st)
            try:
                b_ = self.truthy(self._eval_spec_node(e.args[1], st), st)
            except OutOfSubset as ex:
                if "not bound on this path" not in str(ex):
                    raise
                probe = st.fork()
                probe.assume(a_)
                if self.feasible(probe):
                    raise
                return [(st, VBool(z3.BoolVal(True)))]
            return [(st, VBool(z3.Implies(a_, b_)))]
        if self.spec_mode and isinstance(f, ast.Name) and f.id == "old" and len(e.args) == 1:
            frame0, heap0 = self._spec_old
            s_old = st.fork()
            s_old.frames = [dict(frame0)]
            s_old.heap = dict(heap0)
            if "__old_paths__" in st.ghost:
                s_old.ghost["__paths__"] = dict(st.ghost["__old_paths__"])  # access paths as they were at entry
            v = self._eval_spec_node(e.args[0], s_old)
            if isinstance(v, VRef):
                # re-home the old object into the current heap under a fresh reference
                origin = getattr(v, "origin_rid", v.rid)
                v = st.alloc(s_old.heap[v.rid])
                v.origin_rid = origin  # which object this is the entry-state view of (for is_obj)
            return [(st, v)]
        if (
            isinstance(f, ast.Attribute) and f.attr == "join" and isinstance(f.value, ast.Constant) and f.value.value == "" and len(e.args) == 1 and not e.keywords
            and isinstance(e.args[0], ast.Call) and isinstance(e.args[0].func, ast.Name) and e.args[0].func.id == "filter" and len(e.args[0].args) == 2
            and isinstance(e.args[0].args[0], ast.Attribute) and e.args[0].args[0].attr == "__contains__"
        ):
            # idiom: "".join(filter(CS.__contains__, s)) -- s with every character outside the constant set CS removed
            outs = []
            for s, cs in self.eval(e.args[0].args[0].value, st):
                for s2, sv in self.eval(e.args[0].args[1], s):
                    chars = None
                    if isinstance(cs, VCharSet) and cs.diff_of is None:
                        zc = z3.simplify(cs.z)
                        if z3.is_string_value(zc):
                            chars = zc.as_string()
                    if chars and isinstance(sv, VStr):
                        cls = z3.Union(*[z3.Re(z3.StringVal(c)) for c in sorted(set(chars))]) if len(set(chars)) > 1 else z3.Re(z3.StringVal(chars[0]))
                        r = fresh("filtered", S)
                        s2.assume(z3.Length(r) <= z3.Length(sv.z), z3.InRe(r, z3.Star(cls)), z3.Implies(z3.InRe(sv.z, z3.Star(cls)), r == sv.z))
                        self.assumptions.add("stdlib idiom spec: ''.join(filter(CS.__contains__, s)) keeps exactly the characters of s that are in the constant set CS (r in CS*, len(r) <= len(s), r == s when s in CS*)")
                        outs.append((s2, VStr(r)))
                    else:
                        outs.append((s2, self.abstract_call(e, [sv], s2, "join(filter(...)) over a non-constant character set")))
            return outs
        # ---- method calls
        if isinstance(f, ast.Attribute):
            # "".join(xs)
            if f.attr == "join" and isinstance(f.value, ast.Constant) and isinstance(f.value.value, str) and len(e.args) == 1:
                outs = []
                for s, v in self.eval(e.args[0], st):
                    if f.value.value == "" and isinstance(v, VRef) and isinstance(s.heap[v.rid], ListObj):
                        o = s.heap[v.rid]
                        if o.kind == "str":
                            outs.append((s, VStr(o.g["joined"])))
                            continue
                        if o.kind == "empty":
                            outs.append((s, VStr(EMPTY)))
                            continue
                    # join over something the views do not describe: some string (argument already evaluated)
                    self.abstracted.add("abstracted: %s (an arbitrary string)" % ast.unparse(e)[:100])
                    outs.append((s, VStr(fresh("joined", S))))
                self.assumptions.add("stdlib spec: ''.join(xs) is the concatenation of the elements of xs")
                return outs
            outs = []
            recv_is_name = isinstance(f.value, ast.Name) and (st.lookup(f.value.id) is None and self.module is not None and hasattr(self.module, f.value.id) and not isinstance(getattr(self.module, f.value.id), (str, dict, list, tuple, frozenset)))
            if recv_is_name or (isinstance(f.value, ast.Attribute)):
                # module-qualified call such as cdd.shared.ast_utils.get_value(...) / path.join(...)
                tgt = self.resolve_dotted(f)
                if tgt is not None:
                    return self.call_value(tgt, e, st)
            for s, recv in self.eval(f.value, st):
                for s2, (args, kwargs) in self.eval_args(e, s):
                    try:
                        for s3, r in self.call_method(recv, f.attr, args, kwargs, s2, e):
                            outs.append((s3, r))
                    except Unsupported as ex:
                        extra = [recv] if (isinstance(recv, VRef) and f.attr in self.MUTATORS) else []
                        outs.append((s2, self.abstract_call(e, extra + list(args) + list(kwargs.values()), s2, str(ex))))
            return outs
        if ast.unparse(e).startswith("list(islice(cycle((None,)), ") and isinstance(f, ast.Name) and f.id == "list" and len(e.args) == 1:
            # idiom: a list of n Nones
            n_expr = e.args[0].args[1]
            outs = []
            for s, nv in self.eval(n_expr, st):
                if not isinstance(nv, VInt):
                    raise Unsupported("islice count")
                lo, asm = ListObj.fresh("seq", "nones", Opaque)
                s.assume(*asm)
                s.assume(lo.len == z3.If(nv.z < 0, 0, nv.z))
                self.assumptions.add("stdlib idiom spec: list(islice(cycle((None,)), n)) is a list of n elements (all None)")
                outs.append((s, s.alloc(lo)))
            return outs
        if (
            isinstance(f, ast.Name) and f.id == "count_iter_items" and len(e.args) == 1 and not e.keywords
            and isinstance(e.args[0], ast.Call) and isinstance(e.args[0].func, ast.Name)
            and e.args[0].func.id == "takewhile" and len(e.args[0].args) == 2
        ):
            pred, xs = e.args[0].args
            outs = []
            for s, x in self.eval(xs, st):
                r = fresh("takewhile_count", I)
                s.assume(r >= 0)
                if isinstance(x, VStr):
                    s.assume(r <= z3.Length(x.z))
                    if ast.unparse(pred) == "str.isspace":
                        s.assume(z3.Implies(z3.And(z3.Length(x.z) > 0, py_isspace(z3.SubString(x.z, 0, 1))), r >= 1))
                self.assumptions.add(
                    "stdlib idiom spec: count_iter_items(takewhile(p, s)) is the length r of the longest prefix of s whose items satisfy p "
                    "(0 <= r <= len(s); r >= 1 if s is non-empty and p(s[0]))"
                )
                outs.append((s, VInt(r)))
            return outs
        if (
            isinstance(f, ast.Name) and f.id == "any" and len(e.args) == 1 and not e.keywords
            and isinstance(e.args[0], ast.Call) and isinstance(e.args[0].func, ast.Name) and e.args[0].func.id == "filter"
            and len(e.args[0].args) == 2 and isinstance(e.args[0].args[0], ast.Attribute)
            and e.args[0].args[0].attr in ("startswith", "endswith")
        ):
            # idiom: any(filter(s.startswith, CONSTANT_SET_OF_NON_EMPTY_STRINGS)) -- s starts with one of them
            meth = e.args[0].args[0]
            outs = []
            for s, sv in self.eval(meth.value, st):
                for s2, cs in self.eval(e.args[0].args[1], s):
                    if isinstance(sv, VStr) and isinstance(cs, VPy) and isinstance(cs.obj, (frozenset, set, tuple, list)) and cs.obj and all(isinstance(x, str) and x for x in cs.obj):
                        op = z3.PrefixOf if meth.attr == "startswith" else z3.SuffixOf
                        outs.append((s2, VBool(z3.Or(*[op(z3.StringVal(x), sv.z) for x in sorted(cs.obj)]))))
                        self.assumptions.add("stdlib idiom spec: any(filter(s.startswith, C)) for a constant collection C of non-empty strings is the disjunction of s.startswith(c)")
                    else:
                        outs.append((s2, self.abstract_call(e, [sv], s2, "any(filter(...)) over a non-constant collection")))
            return outs
        if (
            isinstance(f, ast.Name) and f.id == "next" and len(e.args) == 2 and not e.keywords
            and isinstance(e.args[0], ast.Call) and isinstance(e.args[0].func, ast.Name) and e.args[0].func.id == "map" and len(e.args[0].args) == 2
            and isinstance(e.args[0].args[0], ast.Lambda) and len(e.args[0].args[0].args.args) == 1
            and isinstance(e.args[0].args[1], ast.Call) and isinstance(e.args[0].args[1].func, ast.Name) and e.args[0].args[1].func.id == "filter" and len(e.args[0].args[1].args) == 2
            and isinstance(e.args[0].args[1].args[0], ast.Lambda) and len(e.args[0].args[1].args[0].args.args) == 1
        ):
            # idiom: next(map(F, filter(P, xs)), D) -- D, or F(x) for SOME element x of xs with P(x) (xs: strings, by `seq:` hint or unknown)
            F_, flt = e.args[0].args[0], e.args[0].args[1]
            P_ = flt.args[0]
            outs = []
            for s_d, dv in self.eval(e.args[1], st):
                outs.append((s_d, dv))
            kind = (self.contract.local_kinds or {}).get("__next_elem__", "str") if self.contract is not None else "str"
            sx = st.fork()
            x = self.fresh_value(kind, "elem", sx)
            try:
                sx.frames.append({P_.args.args[0].arg: x})
                for s1, pv in self.eval(P_.body, sx):
                    s1.assume(self.truthy(pv, s1))
                    if not self.feasible(s1):
                        continue
                    s1.frames[-1] = {F_.args.args[0].arg: x}
                    for s2, fvv in self.eval(F_.body, s1):
                        s2.frames.pop()
                        outs.append((s2, fvv))
            except Unsupported:
                raise
            self.assumptions.add("stdlib idiom spec: next(map(F, filter(P, xs)), D) is D or F(x) for some x with P(x) (x ranges over all strings: xs itself is not consulted)")
            return outs
        if (
            isinstance(f, ast.Name) and f.id == "all" and len(e.args) == 1 and not e.keywords
            and isinstance(e.args[0], ast.Call) and isinstance(e.args[0].func, ast.Name) and e.args[0].func.id == "filter"
            and len(e.args[0].args) == 2 and ast.unparse(e.args[0].args[0]) in ("str.isalpha", "str.isdigit", "str.isalnum", "str.isidentifier", "str.isspace", "str.isdecimal", "str.isnumeric")
        ):
            # idiom: all(filter(str.isX, xs)) -- the kept strings satisfy isX, hence are non-empty, hence truthy: always True
            outs = []
            for s, _xs in self.eval(e.args[0].args[1], st):
                self.assumptions.add("stdlib idiom spec: all(filter(str.isX, xs)) is True for every xs (a string for which isX holds is non-empty, i.e. truthy)")
                outs.append((s, VBool(True)))
            return outs
        # ---- the deque(map(f, xs), maxlen=0) idiom is handled at statement level
        for s, fv in self.eval(f, st):
            return self.call_value(fv, e, s)
        return []

    def resolve_dotted(self, f):
        """cdd.x.y.func / path.join -> value from the real module objects (or None)"""
        parts = []
        n = f
        while isinstance(n, ast.Attribute):
            parts.append(n.attr)
            n = n.value
        if not isinstance(n, ast.Name) or self.module is None or not hasattr(self.module, n.id):
            return None
        obj = getattr(self.module, n.id)
        for p in reversed(parts):
            if not hasattr(obj, p):
                return None
            obj = getattr(obj, p)
        return self.lift_global(obj, ast.unparse(f))

    def eval_args(self, e, st):
        """-> [(state, (args, kwargs))]; **record splats are expanded"""
        pos = []
        for a in e.args:
            if isinstance(a, ast.Starred):
                raise Unsupported("*args at call")
            pos.append(a)
        kw_exprs = [k.value for k in e.keywords]
        outs = []
        for s, vs in self.eval_seq(pos + kw_exprs, st):
            args, kwargs = vs[: len(pos)], {}
            ok = True
            for k, v in zip(e.keywords, vs[len(pos):]):
                if k.arg is None:
                    if isinstance(v, VRef) and isinstance(s.heap[v.rid], RecordObj):
                        for kk, (p, vv) in s.heap[v.rid].fields.items():
                            if not z3.is_true(p):
                                ok = False
                            kwargs[kk] = vv
                    else:
                        ok = False
                else:
                    kwargs[k.arg] = v
            if not ok:
                raise Unsupported("** splat of a non-record")
            outs.append((s, (args, kwargs)))
        return outs

    def call_value(self, fv, e, st):
        outs = []
        for s, (args, kwargs) in self.eval_args(e, st):
            try:
                outs.extend(self.apply(fv, args, kwargs, s, e))
            except Unsupported as ex:
                # the arguments have been evaluated (their effects are in `s`); the call itself is abstracted
                outs.append((s, self.abstract_call(e, list(args) + list(kwargs.values()), s, str(ex))))
        return outs

    def abstract_call(self, e, argvals, st, why):
        txt = ast.unparse(e)
        self.abstracted.add("abstracted call: %s" % (txt if len(txt) < 140 else txt[:137] + "..."))
        # builtins that only READ their arguments (their lazy results alias the elements, which the views do not track anyway)
        fn_ = e.func if isinstance(e, ast.Call) else None
        readonly = isinstance(fn_, ast.Name) and fn_.id in ("zip", "enumerate", "reversed", "iter", "len", "sorted", "tuple", "list", "frozenset", "set", "any", "all", "min", "max", "sum", "map", "filter", "isinstance", "repr", "str")
        if readonly and fn_.id in ("map", "filter"):
            readonly = False  # the mapped function may mutate
        for a in argvals:
            if isinstance(a, VRef) and readonly:
                continue
            if isinstance(a, VRef):
                named = self.reachable_from_names(a.rid, st)
                self.havoc_obj(a, st, "arg", kind_hint="opaque")
                if named:
                    # (a temporary -- e.g. a list display built for this very call -- is nobody's state: no imprecision)
                    st.notes.append("imprecise: mutable object passed to abstracted call `%s` havocked" % txt[:60])
        return VOpaque(note=txt[:60])

    def reachable_from_names(self, rid, st, depth=4):
        """Is heap object `rid` bound to a variable, or contained in an object that is?"""
        seen = set()

        def holds(v, d):
            if isinstance(v, VRef):
                if v.rid == rid:
                    return True
                if d <= 0 or v.rid in seen:
                    return False
                seen.add(v.rid)
                o = st.heap.get(v.rid)
                if isinstance(o, RecordObj):
                    return any(holds(x, d - 1) for _p, x in o.fields.values())
                if isinstance(o, MapObj):
                    return any(holds(x, d - 1) for _k, x in list(o.entries) + list(o.fetched))
                return False
            if isinstance(v, VTuple):
                return any(holds(x, d - 1) for x in v.items)
            if isinstance(v, VNode):
                return any(holds(x, d - 1) for x in v.fields.values())
            return False

        for frame in st.frames:
            for v in frame.values():
                if holds(v, depth):
                    return True
        for v in (st.ghost.get("__paths__") or {}).values():
            if holds(v, depth):
                return True
        return False

    def apply(self, fv, args, kwargs, st, e=None):
        """Apply a callable value -> [(state, value)]"""
        if isinstance(fv, VPartial):
            return self.apply(fv.func, fv.args + list(args), dict(fv.kwargs, **kwargs), st, e)
        if isinstance(fv, VSpecFn):
            return [(st, self.spec_call(fv.name, args, st, e))]
        if isinstance(fv, VCtor):
            if fv.fields is not None and set(kwargs) != set(fv.fields) and not args:
                return []  # TypeError: path ends
            if args:
                raise Unsupported("positional ctor call")
            if not all(k in kwargs for k in ("line_no_start", "line_no_end", "value")):
                return []  # every node constructor needs the three basic attributes
            return [(st, VNode(kwargs))]
        if isinstance(fv, VContractFn):
            return self.call_contract(fv.qual, args, kwargs, st, e)
        if isinstance(fv, VFunc):
            return self.call_inline(fv, args, kwargs, st)
        if isinstance(fv, VBuiltin):
            return self.call_builtin(fv.name, args, kwargs, st, e)
        if isinstance(fv, VPyFunc):
            import operator as _op

            if getattr(fv, "obj", None) is _op.contains and len(args) == 2 and not kwargs and isinstance(args[0], VStr) and isinstance(args[1], VStr):
                # operator.contains(a, b) on two strings: b in a
                return [(st, VBool(z3.Contains(args[0].z, args[1].z)))]
            for a in list(args) + list(kwargs.values()):
                if isinstance(a, VRef):
                    raise Unsupported("mutable object passed to uncontracted %s" % fv.qual)
            kind = self.contract.pure_results.get(fv.qual.split(":")[-1], "opaque")
            return [(st, self.opaque_call(fv.qual, list(args) + [kwargs[k] for k in sorted(kwargs)], st, kind))]
        raise Unsupported("call of %s" % type(fv).__name__)

    def call_builtin(self, name, args, kwargs, st, e):
        if name == "len" and len(args) == 1:
            a = args[0]
            if isinstance(a, VStr):
                return [(st, VInt(z3.Length(a.z)))]
            if isinstance(a, VTuple):
                return [(st, VInt(len(a.items)))]
            if isinstance(a, VRef) and isinstance(st.heap[a.rid], ListObj):
                return [(st, VInt(st.heap[a.rid].len))]
            if isinstance(a, VOpaque):
                r = self.opaque_call("len", [a], st, "int")
                st.assume(r.z >= 0)
                return [(st, r)]
        if name == "sum" and len(args) == 1 and isinstance(args[0], VTuple) and all(isinstance(i, VInt) for i in args[0].items):
            return [(st, VInt(z3.Sum(*[i.z for i in args[0].items]) if args[0].items else z3.IntVal(0)))]
        if name in ("max", "min") and len(args) >= 2 and not kwargs and all(isinstance(a, VInt) for a in args):
            r = args[0].z
            for a in args[1:]:
                r = z3.If(a.z > r, a.z, r) if name == "max" else z3.If(a.z < r, a.z, r)
            return [(st, VInt(r))]
        if name == "abs" and len(args) == 1 and isinstance(args[0], VInt):
            return [(st, VInt(z3.If(args[0].z < 0, -args[0].z, args[0].z)))]
        if name == "int" and len(args) == 1 and isinstance(args[0], (VBool, VInt)):
            return [(st, VInt(z3.If(args[0].z, 1, 0)) if isinstance(args[0], VBool) else args[0])]
        if name == "bool" and len(args) == 1:
            return [(st, VBool(self.truthy(args[0], st)))]
        if name in ("all", "any") and len(args) == 1 and isinstance(args[0], VTuple):
            ts = [self.truthy(i, st) for i in args[0].items]
            return [(st, VBool((z3.And if name == "all" else z3.Or)(*ts) if ts else z3.BoolVal(name == "all")))]
        if name == "tuple" and len(args) == 1 and isinstance(args[0], VRef) and isinstance(st.heap[args[0].rid], ListObj):
            o = st.heap[args[0].rid]
            return [(st, st.alloc(ListObj(o.len, o.kind, o.g, o.elem)))]
        if name == "list" and len(args) == 1 and isinstance(args[0], VRef) and isinstance(st.heap[args[0].rid], ListObj):
            o = st.heap[args[0].rid]
            return [(st, st.alloc(ListObj(o.len, o.kind, o.g, o.elem)))]
        if name == "tuple" and not args:
            return [(st, VTuple([]))]
        if name == "dict" and not args:
            return [(st, st.alloc(RecordObj({k: (z3.BoolVal(True), v) for k, v in kwargs.items()})))]
        if name == "partial" and args:
            return [(st, VPartial(args[0], args[1:], kwargs))]
        if name == "getattr" and len(args) in (2, 3) and isinstance(args[1], VStr) and z3.is_string_value(args[1].z) and (len(args) == 2 or isinstance(args[0], VOpaque)):
            # getattr(x, "a", default) on an uninterpreted object: "the attribute or the default" is a function of the object
            return [(st, self.get_attr(args[0], args[1].z.as_string(), st, e))]
        if name == "type" and len(args) == 1 and isinstance(args[0], VOpaque):
            f_ = z3.Function("typeof", Opaque, Opaque)
            return [(st, VOpaque(f_(args[0].z), note="type(...)"))]
        if name == "setattr" and len(args) == 3 and isinstance(args[0], VOpaque) and getattr(args[0], "path", None) and isinstance(args[1], VStr) and z3.is_string_value(args[1].z):
            st.ghost.setdefault("__paths__", {})[args[0].path + "." + args[1].z.as_string()] = args[2]
            return [(st, VNone())]
        if name in ("frozenset", "set") and len(args) == 1 and isinstance(args[0], VTuple) and all(isinstance(i, VStr) and z3.is_string_value(i.z) for i in args[0].items):
            return [(st, VPy(frozenset(i.z.as_string() for i in args[0].items), "frozenset"))]
        if name in ("frozenset", "set") and len(args) == 1 and isinstance(args[0], VStr):
            return [(st, VCharSet(args[0].z))]
        if name == "slice" and len(args) == 2 and all(isinstance(a, (VInt, VNone)) for a in args):
            return [(st, VSlice(args[0], args[1]))]
        if name == "map" and len(args) == 2 and isinstance(args[1], VTuple) and isinstance(args[0], (VFunc, VPartial, VContractFn, VPyFunc)):
            # map(f, (x, y, ...)) over a tuple display: applied eagerly, left to right (it is consumed at once by unpacking)
            outs = [(st, [])]
            for item in args[1].items:
                nxt = []
                for s2, vs in outs:
                    arg_items = item.items if False else [item]
                    for s3, r in self.apply(args[0], arg_items, {}, s2, e):
                        nxt.append((s3, vs + [r]))
                outs = nxt
            self.assumptions.add("stdlib idiom spec: a, b = map(f, (x, y)) == a, b = f(x), f(y)")
            return [(s2, VTuple(vs)) for s2, vs in outs]
        if name == "type" and len(args) == 1 and isinstance(args[0], VNone):
            return [(st, VPy(type(None), "NoneType"))]
        if name == "isinstance" and len(args) == 2 and isinstance(args[0], (VStr, VInt, VBool, VNone)):
            cls = args[1].items if isinstance(args[1], VTuple) else [args[1]]
            tys = []
            for c in cls:
                if isinstance(c, VBuiltin) and c.name in ("str", "int", "float", "complex", "bool", "list", "tuple", "dict", "set", "frozenset", "bytes"):
                    tys.append(getattr(builtins, c.name))
                elif isinstance(c, VPy) and isinstance(c.obj, type):
                    tys.append(c.obj)
                elif isinstance(c, (VPyFunc, VCtor)) and isinstance(getattr(c, "obj", None), type):
                    tys.append(c.obj)
                else:
                    tys = None
                    break
            if tys is not None:
                py = {VStr: str, VInt: int, VBool: bool, VNone: type(None)}[type(args[0])]
                return [(st, VBool(any(issubclass(py, t) for t in tys)))]
        if name == "isinstance":
            self.abstracted.add("abstracted: isinstance(...)")
            return [(st, VBool(fresh("isinstance", B)))]
        raise Unsupported("builtin %s" % name)

    def call_method(self, recv, m, args, kwargs, st, e):
        """-> [(state, value)]"""
        if isinstance(recv, VStr):
            s = recv.z
            if m in ("strip", "rstrip") and len(args) == 1 and isinstance(args[0], VStr):
                r_ = z3.Function("py_%s_chars" % m, S, S, S)(s, args[0].z)
                st.assume(z3.Length(r_) <= z3.Length(s))
                self.assumptions.add("stdlib spec: s.%s(chars) is an uninterpreted string no longer than s" % m)
                return [(st, VStr(r_))]
            if m in ("strip", "lstrip", "rstrip") and not args:
                fn = {"strip": py_strip, "lstrip": py_lstrip, "rstrip": py_rstrip}[m]
                r = fn(s)
                a, b = fresh("ws_l", S), fresh("ws_r", S)
                if m == "strip":
                    st.assume(s == z3.Concat(a, r, b))
                elif m == "lstrip":
                    st.assume(s == z3.Concat(a, r))
                else:
                    st.assume(s == z3.Concat(r, b))
                self.assumptions.add("stdlib spec: s.%s() is a contiguous piece of s with only removed characters around it (s == a ++ s.%s() ++ b)" % (m, m))
                return [(st, VStr(r))]
            if m == "lstrip" and len(args) == 1 and isinstance(args[0], VStr) and z3.is_string_value(args[0].z) and len(args[0].z.as_string()) >= 1:
                chars = args[0].z.as_string()
                r = py_lstrip_chars(s, args[0].z)
                a = fresh("stripped", S)
                st.assume(s == z3.Concat(a, r))
                for c in chars:
                    st.assume(z3.Not(z3.PrefixOf(z3.StringVal(c), r)))
                if len(chars) == 1:
                    # the removed prefix consists of that character only
                    st.assume(z3.Or(a == EMPTY, z3.And(z3.PrefixOf(args[0].z, a), z3.SuffixOf(args[0].z, a))))
                self.assumptions.add("stdlib spec: s.lstrip(chars) is a suffix of s that does not start with any of chars")
                return [(st, VStr(r))]
            if m == "startswith" and len(args) == 1 and isinstance(args[0], VStr):
                return [(st, VBool(z3.PrefixOf(args[0].z, s)))]
            if m == "endswith" and len(args) == 1 and isinstance(args[0], VStr):
                return [(st, VBool(z3.SuffixOf(args[0].z, s)))]
            if m in ("startswith", "endswith") and len(args) == 1 and isinstance(args[0], VTuple) and args[0].items and all(isinstance(x, VStr) for x in args[0].items):
                # s.startswith((a, b, ...)): any of them
                op_ = z3.PrefixOf if m == "startswith" else z3.SuffixOf
                return [(st, VBool(z3.Or(*[op_(x.z, s) for x in args[0].items])))]
            if m == "isspace" and not args:
                st.assume(z3.Implies(py_isspace(s), s != EMPTY))
                self.assumptions.add("stdlib spec: ''.isspace() is False")
                return [(st, VBool(py_isspace(s)))]
            if m in ("casefold",) and not args:
                return [(st, VStr(z3.Function("py_casefold", S, S)(s)))]
            if m in ("isdigit", "isalpha", "isidentifier", "isupper", "islower") and not args:
                return [(st, VBool(z3.Function("py_%s" % m, S, B)(s)))]
            if m == "count" and len(args) == 1 and isinstance(args[0], VStr):
                r = py_count(s, args[0].z)
                st.assume(r >= 0)
                self.assumptions.add("stdlib spec: s.count(sub) is the mathematical number of non-overlapping occurrences (uninterpreted py_count, >= 0)")
                return [(st, VInt(r))]
            if m in ("find", "rfind") and 1 <= len(args) <= 3 and isinstance(args[0], VStr):
                return [(st, self.str_find(m, s, args, st))]
            if m in ("partition", "rpartition") and len(args) == 1 and isinstance(args[0], VStr) and z3.is_string_value(args[0].z) and args[0].z.as_string():
                # s.partition(sep) / s.rpartition(sep) for a constant non-empty separator, as a word equation
                sep = args[0].z
                sep_s = sep.as_string()
                a_, b_ = fresh(m + ".head", S), fresh(m + ".tail", S)
                mid = fresh(m + ".sep", S)
                has = z3.Contains(s, sep)
                if m == "partition":
                    first_only = z3.Not(z3.Contains(z3.Concat(a_, z3.StringVal(sep_s[:-1])), sep))
                    st.assume(z3.If(has, z3.And(s == z3.Concat(a_, sep, b_), mid == sep, first_only), z3.And(a_ == s, mid == EMPTY, b_ == EMPTY)))
                else:
                    last_only = z3.Not(z3.Contains(z3.Concat(z3.StringVal(sep_s[1:]), b_), sep))
                    st.assume(z3.If(has, z3.And(s == z3.Concat(a_, sep, b_), mid == sep, last_only), z3.And(a_ == EMPTY, mid == EMPTY, b_ == s)))
                self.assumptions.add("stdlib spec: s.partition(sep) / s.rpartition(sep) split at the first / last occurrence of a constant separator (word equation); (s, '', '') / ('', '', s) when absent")
                return [(st, VTuple([VStr(a_), VStr(mid), VStr(b_)]))]
            if m == "format" and z3.is_string_value(s):
                kw2 = dict(kwargs)
                for i_, a_ in enumerate(args):
                    kw2[str(i_)] = a_
                return [(st, self.str_format(s.as_string(), kw2))]
            if m == "replace" or m == "split" or m == "splitlines" or m == "lower" or m == "title":
                return [(st, self.opaque_call("str." + m, [recv] + list(args), st, "str" if m in ("replace", "lower", "title") else "opaque"))]
        if isinstance(recv, VRef):
            o = st.heap[recv.rid]
            if isinstance(o, ListObj):
                if m == "append" and len(args) == 1:
                    st.heap[recv.rid] = self.list_append(o, args[0], st)
                    return [(st, VNone())]
                if m == "clear" and not args:
                    st.heap[recv.rid] = ListObj.empty()
                    return [(st, VNone())]
                if m == "copy" and not args:
                    return [(st, st.alloc(ListObj(o.len, o.kind, o.g, o.elem)))]
                if m == "pop" and o.kind == "seq" and len(args) <= 1:
                    n = o.len
                    self.no_raise(st, "IndexError", e, n > 0)
                    st.assume(n > 0)  # IndexError otherwise
                    if not self.feasible(st):
                        return []
                    if args and isinstance(args[0], VInt) and z3.is_int_value(args[0].z) and args[0].z.as_long() == 0:
                        v = o.g["seq"][0]
                        rest = z3.SubString(o.g["seq"], 1, n - 1)
                    elif not args:
                        v = o.g["seq"][n - 1]
                        rest = z3.SubString(o.g["seq"], 0, n - 1)
                    else:
                        raise Unsupported("pop(i)")
                    st.heap[recv.rid] = ListObj(n - 1, "seq", {"seq": rest}, o.elem)
                    return [(st, self.wrap_sort(v, o.elem))]
                if m == "pop" and o.kind in ("opaque", "str", "node") and len(args) <= 1:
                    st.assume(o.len > 0)
                    if not self.feasible(st):
                        return []
                    st.heap[recv.rid] = ListObj(o.len - 1, "opaque", {})
                    return [(st, VOpaque(note="pop"))]
            if isinstance(o, RecordObj):
                if m == "values" and not args and all(z3.is_true(p_) for p_, _v in o.fields.values()):
                    return [(st, VTuple([v_ for _p, v_ in o.fields.values()]))]
                if m == "get" and args and isinstance(args[0], VStr) and z3.is_string_value(args[0].z):
                    k = args[0].z.as_string()
                    dflt = args[1] if len(args) > 1 else VNone()
                    if k not in o.fields:
                        return [(st, dflt)]
                    p, v = o.fields[k]
                    if z3.is_true(p):
                        return [(st, v)]
                    outs = []
                    for c, val in ((p, v), (z3.Not(p), dflt)):
                        s2 = st.fork()
                        s2.assume(c)
                        if self.feasible(s2):
                            outs.append((s2, val))
                    return outs
                if m == "setdefault" and len(args) == 2 and isinstance(args[0], VStr) and z3.is_string_value(args[0].z):
                    k = args[0].z.as_string()
                    if k not in o.fields:
                        n = RecordObj(o.fields)
                        n.fields[k] = (z3.BoolVal(True), args[1])
                        st.heap[recv.rid] = n
                        return [(st, args[1])]
                    p, v = o.fields[k]
                    outs = []
                    s_has = st.fork()
                    s_has.assume(p)
                    if self.feasible(s_has):
                        outs.append((s_has, v))
                    if not z3.is_true(p):
                        s_no = st.fork()
                        s_no.assume(z3.Not(p))
                        if self.feasible(s_no):
                            n = RecordObj(o.fields)
                            n.fields[k] = (z3.BoolVal(True), args[1])
                            s_no.heap[recv.rid] = n
                            outs.append((s_no, args[1]))
                    return outs
                if m == "update" and len(args) == 1 and isinstance(args[0], VRef) and isinstance(st.heap[args[0].rid], RecordObj) and not kwargs:
                    src = st.heap[args[0].rid]
                    n = RecordObj(o.fields)
                    for k, (p, v) in src.fields.items():
                        if not z3.is_true(p):
                            raise Unsupported("update from a record with optional keys")
                        n.fields[k] = (z3.BoolVal(True), v)
                    st.heap[recv.rid] = n
                    return [(st, VNone())]
                if m == "pop" and args and isinstance(args[0], VStr) and z3.is_string_value(args[0].z):
                    k = args[0].z.as_string()
                    has_d = len(args) > 1
                    if k not in o.fields:
                        return [(st, args[1])] if has_d else []
                    p, v = o.fields[k]
                    outs = []
                    s2 = st.fork()
                    s2.assume(p)
                    if self.feasible(s2):
                        n = RecordObj(o.fields)
                        n.fields[k] = (z3.BoolVal(False), v)
                        s2.heap[recv.rid] = n
                        outs.append((s2, v))
                    if has_d and not z3.is_true(p):
                        s3 = st.fork()
                        s3.assume(z3.Not(p))
                        if self.feasible(s3):
                            outs.append((s3, args[1]))
                    return outs
        raise Unsupported("method %s on %s" % (m, type(recv).__name__))

    def str_find(self, m, s, args, st):
        """str.find / rfind with optional start/end (None allowed)"""
        sub = args[0].z
        n = z3.Length(s)
        lo = args[1] if len(args) > 1 else None
        hi = args[2] if len(args) > 2 else None
        lo_z = z3.IntVal(0) if lo is None or isinstance(lo, VNone) else self.norm_index(lo.z, n)
        hi_z = n if hi is None or isinstance(hi, VNone) else self.norm_index(hi.z, n)
        r = fresh(m, I)
        k = z3.Length(sub)
        # r == -1, or lo <= r and r + k <= hi and s[r:r+k] == sub  (exactness of first/last not needed)
        st.assume(z3.Or(r == -1, z3.And(r >= lo_z, r + k <= hi_z, z3.SubString(s, r, k) == sub)))
        if m == "find":
            # if sub occurs at or after lo (as a whole-string containment fact) find does not return -1
            st.assume(z3.Implies(z3.And(lo_z == 0, hi_z == n, z3.Contains(s, sub)), r != -1))
        # exactness (first / last occurrence), for a non-empty needle and a well-ordered window, as a word equation:
        # window == pre ++ sub ++ post with len(pre) == r - lo and no further occurrence before (find) / after (rfind)
        wf = z3.And(k > 0, lo_z <= hi_z)
        whole = (lo is None or isinstance(lo, VNone)) and (hi is None or isinstance(hi, VNone))
        win = s if whole else z3.SubString(s, lo_z, hi_z - lo_z)
        pre, post = fresh(m + ".pre", S), fresh(m + ".post", S)
        st.assume(z3.Implies(z3.And(wf, r == -1), z3.Not(z3.Contains(win, sub))))
        if m == "find":
            excl = z3.Not(z3.Contains(z3.Concat(pre, z3.SubString(sub, 0, k - 1)), sub))
        else:
            excl = z3.Not(z3.Contains(z3.Concat(z3.SubString(sub, 1, k - 1), post), sub))
        st.assume(z3.Implies(z3.And(wf, r >= 0), z3.And(win == z3.Concat(pre, sub, post), z3.Length(pre) == r - lo_z, excl)))
        self.assumptions.add("stdlib spec: s.find/rfind(sub, lo, hi) is -1 (iff sub does not occur in s[lo:hi]) or the first/last index r in [lo, hi-len(sub)] with s[r:r+len(sub)] == sub")
        return VInt(r)

    def str_format(self, tpl, kwargs):
        """Constant template with {name} fields only"""
        import string

        parts = []
        auto = 0
        for lit, field, spec, conv in string.Formatter().parse(tpl):
            if lit:
                parts.append(z3.StringVal(lit))
            if field == "":
                field = str(auto)  # automatic positional numbering
                auto += 1
            if field is not None:
                if spec or conv or field not in kwargs:
                    raise Unsupported("format field %r" % field)
                if isinstance(kwargs[field], VStr):
                    parts.append(kwargs[field].z)
                else:
                    # str() of a value the engine does not interpret: some string
                    self.abstracted.add("format field {%s}: text of an uninterpreted value (an arbitrary string)" % field)
                    parts.append(fresh("str_of_" + field, S))
        if not parts:
            return VStr(EMPTY)
        return VStr(z3.Concat(*parts) if len(parts) > 1 else parts[0])

    # ------------------------------------------------------------------ inlined nested functions

    def bind_params(self, fnode, args, kwargs):
        """Map actuals to the formal parameter names of a def / lambda"""
        a = fnode.args
        if a.vararg or a.kwarg or a.posonlyargs:
            raise Unsupported("*args/**kwargs in callee signature")
        names = [x.arg for x in a.args] + [x.arg for x in a.kwonlyargs]
        out = {}
        if len(args) > len(a.args):
            raise Unsupported("too many positional arguments")
        for n, v in zip([x.arg for x in a.args], args):
            out[n] = v
        for k, v in kwargs.items():
            if k not in names or k in out:
                raise Unsupported("bad keyword %s" % k)
            out[k] = v
        # defaults
        defaults = dict(zip([x.arg for x in a.args][len(a.args) - len(a.defaults):], a.defaults))
        defaults.update({x.arg: d for x, d in zip(a.kwonlyargs, a.kw_defaults) if d is not None})
        for n in names:
            if n not in out:
                if n in defaults and isinstance(defaults[n], ast.Constant):
                    out[n] = self.lift(defaults[n].value)
                else:
                    raise Unsupported("missing argument %s" % n)
        return out

    def call_inline(self, fv, args, kwargs, st):
        if self.depth > 6:
            raise OutOfSubset("inlining depth exceeded (recursive nested function?)")
        bound = self.bind_params(fv.node, args, kwargs)
        st.frames.append(dict(bound))
        self.depth += 1
        try:
            outs = []
            if isinstance(fv.node, ast.Lambda):
                for s, v in self.eval(fv.node.body, st):
                    s.frames.pop()
                    outs.append((s, v))
                return outs
            for s, (kind, val) in self.exec_block(extract.strip_docstring(fv.node.body), st):
                if kind == RETURN:
                    s.frames.pop()
                    outs.append((s, val))
                elif kind == NORMAL:
                    s.frames.pop()
                    outs.append((s, VNone()))
                elif kind == RAISE:
                    continue
                else:
                    raise OutOfSubset("break/continue escaping a nested function")
            return outs
        finally:
            self.depth -= 1

    # ------------------------------------------------------------------ contracts at call sites

    def spec_env_state(self, st, bindings):
        """A state whose innermost frame is exactly `bindings` (for evaluating a callee's spec)"""
        s = st.fork()
        s.frames = [dict(bindings)]
        return s

    def eval_spec(self, text, st, old=None, extra=None):
        """Evaluate a specification expression (string) to a z3 Bool"""
        tree = ast.parse(text.strip(), mode="eval").body
        prev_mode, prev_old = self.spec_mode, getattr(self, "_spec_old", None)
        self.spec_mode, self._spec_old = True, (old if old is not None else st.old)
        try:
            s = st
            if extra:
                s = st.fork()
                s.frames.append(dict(extra))
            v = self._eval_spec_node(tree, s)
        finally:
            self.spec_mode, self._spec_old = prev_mode, prev_old
        return self.truthy(v, st)

    def _eval_spec_node(self, tree, s):
        rs = self._eval(tree, s)
        if len(rs) != 1:
            raise OutOfSubset("specification expression forks: %s" % ast.unparse(tree))
        return rs[0][1]

    def spec_call(self, name, args, st, e):
        """Specification vocabulary"""
        def lst(v):
            if isinstance(v, VRef) and isinstance(st.heap[v.rid], ListObj):
                return st.heap[v.rid]
            raise OutOfSubset("spec function %s expects a list view, got %r" % (name, v))

        if name == "old":
            raise OutOfSubset("old() must be handled before evaluation")
        if name == "joined":
            o = lst(args[0])
            if o.kind == "empty":
                return VStr(EMPTY)
            if o.kind != "str":
                raise OutOfSubset("joined() of a %s list" % o.kind)
            return VStr(o.g["joined"])
        if name in ("length",):
            return self.call_builtin("len", args, {}, st, e)[0][1]
        if name == "n_count":
            return VInt(lst(args[0]).len)
        if name in ("first_start", "last_end", "chain_ok", "span_ok", "joined_values"):
            o = lst(args[0])
            if o.kind == "empty":
                return {"first_start": VInt(0), "last_end": VInt(0), "chain_ok": VBool(True), "span_ok": VBool(True), "joined_values": VStr(EMPTY)}[name]
            if o.kind != "node":
                raise OutOfSubset("%s() of a %s list" % (name, o.kind))
            z = o.g[name]
            return VBool(z) if name.endswith("_ok") else (VStr(z) if name == "joined_values" else VInt(z))
        if name == "count":
            return VInt(py_count(args[0].z, args[1].z))
        if name == "implies":
            return VBool(z3.Implies(self.truthy(args[0], st), self.truthy(args[1], st)))
        if name == "ite":
            c = self.truthy(args[0], st)
            a, b = args[1], args[2]
            if isinstance(a, VInt):
                return VInt(z3.If(c, a.z, b.z))
            if isinstance(a, VStr):
                return VStr(z3.If(c, a.z, b.z))
            return VBool(z3.If(c, self.truthy(a, st), self.truthy(b, st)))
        if name == "is_str":
            # is_str(v): on this path the value is a Python str.  Decided by the kind of the symbolic value: a string term is
            # one, None / numbers / tuples / concrete Python objects (typing.Any, classes, modules) are not; an uninterpreted
            # value is not known to be one (the claim fails: the contract must type it, e.g. through `paths` / `pure_results`)
            return VBool(z3.BoolVal(isinstance(args[0], VStr)))
        if name == "is_none":
            c = self.equal(args[0], VNone(), st)
            return VBool(c if c is not None else z3.BoolVal(False))
        if name == "touched_exactly_one_marked":
            # touched_exactly_one_marked(map, prefix): exactly one entry of the map was written or updated in place, and its
            # 'doc' now starts with `prefix`
            mo = st.heap[args[0].rid]
            touched = mo.entries + mo.fetched
            if len(touched) != 1:
                return VBool(False)
            k_, v_ = touched[0]
            rec = st.heap[v_.rid] if isinstance(v_, VRef) else None
            if not isinstance(rec, RecordObj) or "doc" not in rec.fields or not isinstance(rec.fields["doc"][1], VStr):
                return VBool(False)
            return VBool(z3.And(rec.fields["doc"][0], z3.PrefixOf(args[1].z, rec.fields["doc"][1].z)))
        if name in ("refs_closed", "writes_only", "has_op", "declares_param", "defines"):
            return self.tree_spec(name, args, st)
        if name == "at":
            o_ = lst(args[0])
            if o_.kind != "seq":
                raise OutOfSubset("at() expects a seq list")
            if not isinstance(args[1], VInt):
                return VOpaque(note="at(non-int)")  # only meaningful under a premise that makes the index an int
            return self.wrap_sort(o_.g["seq"][args[1].z], o_.elem)
        if name == "is_suffix":
            a_, b_ = lst(args[0]), lst(args[1])
            if a_.kind == "empty":
                return VBool(True)
            return VBool(z3.And(z3.SuffixOf(a_.g["seq"], b_.g["seq"]), a_.len <= b_.len))
        if name == "differs_only_at":
            a_, b_ = lst(args[0]), lst(args[1])
            if a_.kind != "seq" or b_.kind != "seq":
                raise OutOfSubset("differs_only_at expects seq lists")
            i_ = args[2].z
            sa, sb = a_.g["seq"], b_.g["seq"]
            n_ = b_.len
            return VBool(z3.And(a_.len == n_, i_ >= 0, i_ < n_, z3.SubString(sa, 0, i_) == z3.SubString(sb, 0, i_),
                                z3.SubString(sa, i_ + 1, n_ - i_ - 1) == z3.SubString(sb, i_ + 1, n_ - i_ - 1)))
        if name == "chars_subset":
            return VBool(py_chars_subset(args[0].z, args[1].z))
        if name == "field":
            r = st.heap[args[0].rid]
            k_ = args[1].z.as_string()
            if k_ not in r.fields:
                return VStr(fresh("absent_field", S))  # only meaningful under present(...)
            return r.fields[k_][1]
        if name == "or_empty":
            v = args[0]
            if isinstance(v, VNone):
                return VStr(EMPTY)
            if isinstance(v, VStr):
                return v
            raise OutOfSubset("or_empty() of %r" % (v,))
        if name == "pure":
            # pure('f', x, ...): the SAME uninterpreted function the engine uses for a call f(x, ...) of the module's
            # (uncontracted) global f -- lets a specification talk about e.g. iskeyword(s) without interpreting it
            fname = args[0].z.as_string()
            fv = self.lift_global(getattr(self.module, fname), fname)
            if not isinstance(fv, VPyFunc):
                raise OutOfSubset("pure(%r): not an uncontracted function of the module" % fname)
            kind = self.contract.pure_results.get(fv.qual.split(":")[-1], "opaque")
            return self.opaque_call(fv.qual, list(args[1:]), st, kind)
        if name == "is_ctor":
            return VBool(isinstance(args[0], VCtor))
        if name == "appended":
            o = lst(args[0])
            return st.alloc(self.list_append(o, args[1], st))
        if name in ("startswith", "endswith", "contains", "strip", "rstrip", "lstrip", "isspace", "substr", "isdigit", "isalpha", "isidentifier", "only_chars"):
            # an operand the engine does not know to be a string: an arbitrary string (only sound under a premise that rules it out)
            args = [a if not isinstance(a, (VOpaque, VNone)) else VStr(fresh("unknown_str", S)) for a in args]
        if name == "strip":
            return VStr(py_strip(args[0].z))
        if name == "rstrip":
            return VStr(py_rstrip(args[0].z))
        if name in ("isdigit", "isalpha", "isidentifier"):
            return VBool(z3.Function("py_%s" % name, S, B)(args[0].z))
        if name == "only_chars":
            chars = args[1].z.as_string()
            cls = z3.Union(*[z3.Re(z3.StringVal(c)) for c in sorted(set(chars))]) if len(set(chars)) > 1 else z3.Re(z3.StringVal(chars[0]))
            return VBool(z3.InRe(args[0].z, z3.Star(cls)))
        if name == "lstrip":
            return VStr(py_lstrip(args[0].z))
        if name == "isspace":
            return VBool(py_isspace(args[0].z))
        if name == "startswith":
            return VBool(z3.PrefixOf(args[1].z, args[0].z))
        if name == "endswith":
            return VBool(z3.SuffixOf(args[1].z, args[0].z))
        if name == "contains":
            return VBool(z3.Contains(args[0].z, args[1].z))
        if name == "replace":
            # the SAME uninterpreted function the engine uses for s.replace(a, b) in the code
            return self.opaque_call("str.replace", list(args[:3]), st, "str")
        if name == "substr":
            return VStr(self.py_slice(args[0].z, args[1].z if isinstance(args[1], VInt) else None, args[2].z if isinstance(args[2], VInt) else None))
        if name == "seq_of":
            o = lst(args[0])
            if o.kind == "seq":
                return VOpaqueSeq(o.g["seq"])
        if name == "same":
            c = self.equal(args[0], args[1], st)
            if c is None:
                raise OutOfSubset("same() on incomparable values")
            return VBool(c)
        if name == "is_obj":
            # identity of two mutable objects (the very same dict / list)
            return VBool(z3.BoolVal(isinstance(args[0], VRef) and isinstance(args[1], VRef)
                                    and getattr(args[0], "origin_rid", args[0].rid) == getattr(args[1], "origin_rid", args[1].rid)))
        if name == "present":
            r = st.heap[args[0].rid]
            k = args[1].z.as_string()
            return VBool(r.fields[k][0] if k in r.fields else z3.BoolVal(False))
        raise OutOfSubset("unknown spec function %s" % name)

    # ------------------------------------------------------------------ JSON-tree specifications (C16)

    def tree_leaves(self, v, st, key=None):
        """Yield (key, value) for every leaf of a tree of records / lists / maps"""
        if isinstance(v, VRef):
            o = st.heap[v.rid]
            if isinstance(o, RecordObj):
                for k, (p, x) in o.fields.items():
                    if z3.is_false(p):
                        continue
                    for leaf in self.tree_leaves(x, st, k):
                        yield leaf
                return
            if isinstance(o, ListObj):
                for x in o.g.get("items", []):
                    for leaf in self.tree_leaves(x, st, key):
                        yield leaf
                return
            if isinstance(o, MapObj):
                for k_, x in o.entries:
                    for leaf in self.tree_leaves(x, st, None):
                        yield leaf
                return
        yield key, v

    def tree_spec(self, name, args, st):
        def mapobj(v):
            o = st.heap[v.rid] if isinstance(v, VRef) else None
            if not isinstance(o, MapObj):
                raise OutOfSubset("%s expects a symbolic-key map" % name)
            return o

        if name == "refs_closed":
            # refs_closed(paths, schemas_map, bodies_map): every "$ref" leaf written resolves to a component written here, or ServerError
            paths, schemas, bodies = mapobj(args[0]), mapobj(args[1]), mapobj(args[2])
            conj = []
            n = 0
            for root in (args[0], args[2]):
                for k, leaf in self.tree_leaves(root, st):
                    if k == "$ref":
                        n += 1
                        if not isinstance(leaf, VStr):
                            conj.append(z3.BoolVal(False))
                            continue
                        alts = [leaf.z == z3.StringVal("#/components/schemas/ServerError")]
                        alts += [leaf.z == z3.Concat(z3.StringVal("#/components/schemas/"), k_) for k_, _v in schemas.entries]
                        alts += [leaf.z == z3.Concat(z3.StringVal("#/components/requestBodies/"), k_) for k_, _v in bodies.entries]
                        conj.append(z3.Or(*alts))
            self.covers.append(("refs-inspected", n > 0))
            return VBool(z3.And(*conj) if conj else z3.BoolVal(True))
        if name == "writes_only":
            # writes_only(map, k1, k2, ...): every key written is one of the given strings
            m = mapobj(args[0])
            allowed = [a.z for a in args[1:]]
            return VBool(z3.And(*[z3.Or(*[k_ == a for a in allowed]) if allowed else z3.BoolVal(False) for k_, _v in m.entries]) if m.entries else z3.BoolVal(True))
        if name == "defines":
            m = mapobj(args[0])
            return VBool(z3.Or(*[k_ == args[1].z for k_, _v in m.entries]) if m.entries else z3.BoolVal(False))
        if name == "has_op":
            # has_op(paths, route, verb): the last write under `route` is a record that has key `verb`
            m = mapobj(args[0])
            verb = args[2].z.as_string()
            alts = []
            for i_, (k_, v_) in enumerate(m.entries):
                o = st.heap[v_.rid] if isinstance(v_, VRef) else None
                if isinstance(o, RecordObj) and verb in o.fields:
                    later = [kk != args[1].z for kk, _vv in m.entries[i_ + 1:]]  # last write under this key wins
                    alts.append(z3.And(k_ == args[1].z, o.fields[verb][0], *later))
            return VBool(z3.Or(*alts) if alts else z3.BoolVal(False))
        if name == "declares_param":
            # declares_param(paths, route, id): the item written under `route` lists a path parameter named `id`
            m = mapobj(args[0])
            alts = []
            for k_, v_ in m.entries:
                o = st.heap[v_.rid] if isinstance(v_, VRef) else None
                if isinstance(o, RecordObj) and "parameters" in o.fields:
                    lst = st.heap[o.fields["parameters"][1].rid] if isinstance(o.fields["parameters"][1], VRef) else None
                    for it in (lst.g.get("items", []) if isinstance(lst, ListObj) else []):
                        r = st.heap[it.rid] if isinstance(it, VRef) else None
                        if isinstance(r, RecordObj) and "name" in r.fields and isinstance(r.fields["name"][1], VStr) and "in" in r.fields:
                            alts.append(z3.And(k_ == args[1].z, r.fields["name"][1].z == args[2].z, r.fields["in"][1].z == z3.StringVal("path")))
            return VBool(z3.Or(*alts) if alts else z3.BoolVal(False))
        raise OutOfSubset(name)

    def call_contract(self, qual, args, kwargs, st, e):
        c = self.contracts[qual]
        fnode = c.fnode()
        if fnode is None:
            raise OutOfSubset("callee %s not found in source" % qual)
        bound = self.bind_params(fnode, args, kwargs)
        # requires
        senv = self.spec_env_state(st, bound)
        for i, r in enumerate(c.requires):
            self.oblige(st, "call[%s].requires[%d]" % (qual.split(":")[-1], i), self.eval_spec(r, senv, old=None), getattr(e, "lineno", 0))
        # snapshot, havoc modifies
        old = (dict(bound), dict(st.heap))
        for path in c.modifies:
            self.havoc_path(bound, path, st, c)
        # result (a deterministic, frame-free callee is a function of its arguments)
        if c.deterministic and not c.modifies and c.result in ("int", "str", "bool"):
            res = self.opaque_call("contract:" + qual, [bound[k] for k in sorted(bound)], st, c.result)
        else:
            res = self.result_value(c.result, bound, "ret:" + qual.split(":")[-1], st, c)
        post = self.spec_env_state(st, dict(bound, result=res))
        post.heap = st.heap  # share (spec evaluation may alloc helper views)
        for en in c.ensures:
            st.assume(self.eval_spec(en, post, old=old))
        self.assumptions_used_contract(qual)
        if not self.feasible(st):
            return []
        return [(st, res)]

    @staticmethod
    def arg_path(bound, text, c=None):
        """'name' or 'name[i]' (an element of a tuple argument) -> (value at the call site, declared kind)"""
        import re as _re

        m = _re.fullmatch(r"(\w+)((?:\[\d+\])*)", text)
        if not m:
            raise OutOfSubset("argument path %r not understood" % text)
        v = bound.get(m.group(1))
        pk = c.params.get(m.group(1)) if c is not None else None
        for i in map(int, _re.findall(r"\[(\d+)\]", m.group(2))):
            if not isinstance(v, VTuple) or i >= len(v.items):
                raise OutOfSubset("argument path %r: not a tuple of that length at the call site" % text)
            v = v.items[i]
            pk = pk[i] if isinstance(pk, (list, tuple)) and i < len(pk) else None
        return v, pk

    def result_value(self, kind, bound, name, st, c):
        """Result of a contract call: fresh values of the declared kinds; a leaf '@name[i]' is the very object that was passed in"""
        if isinstance(kind, str) and kind.startswith("@"):
            return self.arg_path(bound, kind[1:], c)[0]
        if isinstance(kind, (tuple, list)):
            return VTuple([self.result_value(k, bound, "%s[%d]" % (name, i), st, c) for i, k in enumerate(kind)])
        return self.fresh_value(kind, name, st)

    def assumptions_used_contract(self, qual):
        c = self.contracts[qual]
        if c.trusted:
            self.assumptions.add("ASSUMED contract (not verified here): %s — %s" % (qual, c.trusted))

    def havoc_path(self, bound, path, st, c=None):
        """path: 'name' or 'name.key'"""
        parts = path.split(".")
        v, pk = self.arg_path(bound, parts[0], c)
        if not isinstance(v, VRef):
            raise OutOfSubset("modifies %s: not a mutable object at the call site" % path)
        if len(parts) == 1:
            hint = pk[5:] if isinstance(pk, str) and pk.startswith("list:") else None
            o = st.heap[v.rid]
            if isinstance(o, RecordObj) and isinstance(pk, dict):
                # havoc a record according to the callee's declared field kinds
                n = RecordObj({})
                for k, (p, fv) in o.fields.items():
                    kk = pk.get(k)
                    if isinstance(fv, VRef):
                        self.havoc_obj(fv, st, parts[0] + "." + k, kind_hint=kk[5:] if isinstance(kk, str) and kk.startswith("list:") else None)
                        n.fields[k] = (p, fv)
                    elif kk in ("int", "str", "bool"):
                        n.fields[k] = (p, self.fresh_value(kk, parts[0] + "." + k, st))
                    else:
                        n.fields[k] = (p, self.fresh_like(fv, st, parts[0] + "." + k))
                st.heap[v.rid] = n
                return
            self.havoc_obj(v, st, parts[0], kind_hint=hint)
            return
        o = st.heap[v.rid]
        if not isinstance(o, RecordObj) or parts[1] not in o.fields:
            raise OutOfSubset("modifies %s: no such record field" % path)
        p, fv = o.fields[parts[1]]
        n = RecordObj(o.fields)
        if isinstance(fv, VRef):
            self.havoc_obj(fv, st, path, kind_hint="node" if parts[1] == "parsed" else None)
            n.fields[parts[1]] = (p, fv)
        else:
            n.fields[parts[1]] = (p, self.fresh_like(fv, st, path))
        st.heap[v.rid] = n

    # ------------------------------------------------------------------ statements

    def exec_block(self, stmts, st):
        """-> [(state, (kind, value))]"""
        work = [(st, 0)]
        outs = []
        while work:
            s, i = work.pop()
            if i == len(stmts):
                outs.append((s, (NORMAL, None)))
                continue
            for s2, (kind, val) in self.exec_stmt(stmts[i], s):
                if kind == NORMAL:
                    work.append((s2, i + 1))
                else:
                    outs.append((s2, (kind, val)))
        return outs

    def write_set(self, nodes, st):
        """Names (re)bound and mutable objects possibly mutated by a list of statements"""
        names, objs = set(), set()
        for root in nodes:
            for n in ast.walk(root):
                if isinstance(n, ast.Name) and isinstance(n.ctx, (ast.Store, ast.Del)):
                    names.add(n.id)
                elif isinstance(n, (ast.Subscript, ast.Attribute)) and isinstance(n.ctx, (ast.Store, ast.Del)):
                    b = n.value
                    while isinstance(b, (ast.Subscript, ast.Attribute)):
                        b = b.value
                    if isinstance(b, ast.Name):
                        objs.add(b.id)
                elif isinstance(n, (ast.FunctionDef, ast.Lambda)) and n is not root:
                    pass
                elif isinstance(n, (ast.Global, ast.Nonlocal)):
                    raise OutOfSubset("global/nonlocal: write set cannot be bounded")
            for n in ast.walk(root):
                if isinstance(n, ast.Name) and isinstance(n.ctx, ast.Load):
                    v = st.lookup(n.id)
                    if isinstance(v, VRef) and self.may_mutate(root, n.id):
                        objs.add(n.id)
                    # a record holding a mutable object that is passed along (state -> state["parsed"])
        return names, objs

    def havoc_stmt(self, node, st, why):
        names, objs = self.write_set([node], st)
        for n in sorted(names):
            v = st.lookup(n)
            if v is not None:
                st.bind(n, self.fresh_like(v, st, n))
            else:
                st.bind(n, VOpaque(note=n))
        for n in sorted(objs):
            v = st.lookup(n)
            if isinstance(v, VRef):
                self.havoc_obj(v, st, n)
        st.notes.append("imprecise: statement at line %d not in subset (%s); write set %s havocked" % (getattr(node, "lineno", 0), why, sorted(names | objs)))
        self.unsupported.append("line %d: %s" % (getattr(node, "lineno", 0), why))

    def exec_stmt(self, node, st):
        probes = getattr(self, "probe_stmts", None)
        if probes and id(node) in probes:
            # expression probes: the (pure) sub-expression is evaluated first, in the state the statement starts in, and its
            # value bound to the ghost name; then the statement runs as usual in each resulting state
            pend = probes.pop(id(node))
            try:
                states = [st]
                for pnode, gname in pend:
                    nxt = []
                    for s0 in states:
                        for s1, v1 in self.eval(pnode, s0):
                            s1.bind(gname, v1)
                            nxt.append(s1)
                    states = nxt
                outs = []
                for s1 in states:
                    outs.extend(self.exec_stmt(node, s1))
                return outs
            finally:
                probes[id(node)] = pend
        try:
            return self._exec_stmt(node, st)
        except Unsupported as ex:
            if isinstance(node, (ast.For, ast.While, ast.If, ast.Return, ast.Try, ast.With)):
                raise OutOfSubset("line %d: %s" % (node.lineno, ex))
            self.havoc_stmt(node, st, str(ex))
            return [(st, (NORMAL, None))]

    def assign(self, target, v, st):
        """-> list of states (IndexError / KeyError paths dropped)"""
        if isinstance(target, ast.Name):
            st.bind(target.id, v)
            return [st]
        if isinstance(target, (ast.Tuple, ast.List)):
            if isinstance(v, VTuple) and len(v.items) == len(target.elts):
                sts = [st]
                for t, x in zip(target.elts, v.items):
                    sts = [s2 for s in sts for s2 in self.assign(t, x, s)]
                return sts
            if isinstance(v, VRef) and isinstance(st.heap[v.rid], ListObj):
                raise Unsupported("unpacking a list view")
            if isinstance(v, VOpaque):
                # components of an uninterpreted value: uninterpreted values (a wrong arity would raise: path ends)
                sts = [st]
                for i_, t in enumerate(target.elts):
                    comp = VOpaque(z3.Function("component:%d" % i_, Opaque, Opaque)(v.z), note="component %d" % i_)
                    sts = [s2 for s in sts for s2 in self.assign(t, comp, s)]
                return sts
            raise Unsupported("unpacking %s" % type(v).__name__)
        if isinstance(target, ast.Subscript) and not isinstance(target.slice, ast.Slice):
            outs = []
            slot = self.slot_path(target)
            if slot is not None:
                memo = st.ghost.setdefault("__paths__", {})
                for k_ in [k_ for k_ in memo if k_.startswith(slot + ".")]:
                    del memo[k_]
                memo[slot] = v
                return [st]
            for s, (base, idx) in self.eval_seq([target.value, target.slice], st):
                if isinstance(base, VRef) and isinstance(s.heap[base.rid], MapObj) and isinstance(idx, (VStr, VOpaque)):
                    mo = s.heap[base.rid]
                    s.heap[base.rid] = MapObj(mo.entries + [(idx.z, v)], mo.value_kind, mo.fetched)
                    outs.append(s)
                    continue
                if isinstance(base, VRef):
                    o = s.heap[base.rid]
                    if isinstance(o, RecordObj) and isinstance(idx, VStr) and z3.is_string_value(idx.z):
                        n = RecordObj(o.fields)
                        n.fields[idx.z.as_string()] = (z3.BoolVal(True), v)
                        s.heap[base.rid] = n
                        outs.append(s)
                        continue
                    if isinstance(o, RecordObj) and isinstance(idx, VStr) and isinstance(v, VInt) and o.fields and all(isinstance(v_, VInt) for _p, v_ in o.fields.values()):
                        # counter record written at a symbolic key: exact when the key is known to be one of the record's
                        # keys on this path (a store that could add a new key is outside the record view)
                        probe = s.fork()
                        probe.assume(z3.Not(z3.Or(*[idx.z == z3.StringVal(k_) for k_ in o.fields])))
                        if not self.feasible(probe):
                            n = RecordObj(o.fields)
                            for k_, (p_, v_) in o.fields.items():
                                hit = idx.z == z3.StringVal(k_)
                                n.fields[k_] = (z3.simplify(z3.Or(p_, hit)), VInt(z3.If(hit, v.z, v_.z)))
                            s.heap[base.rid] = n
                            outs.append(s)
                            continue
                    if isinstance(o, ListObj) and o.kind == "seq" and isinstance(idx, VInt) and hasattr(v, "z") and v.z.sort() == o.elem:
                        n_ = o.len
                        i = z3.If(idx.z < 0, n_ + idx.z, idx.z)
                        s.assume(z3.And(i >= 0, i < n_))
                        if self.feasible(s):
                            sq = o.g["seq"]
                            new = z3.Concat(z3.SubString(sq, 0, i), z3.Unit(v.z), z3.SubString(sq, i + 1, n_ - i - 1))
                            s.heap[base.rid] = ListObj(n_, "seq", {"seq": new}, o.elem)
                            outs.append(s)
                        continue
                raise Unsupported("subscript store")
            return outs
        if isinstance(target, ast.Attribute) and self.is_safe(target.value):
            # obj.attr = v on an uninterpreted object named by an access path: the path now denotes v (what hangs below it is
            # forgotten) -- the same model as setattr(obj, 'attr', v)
            outs = []
            for s, base in self.eval(target.value, st):
                if isinstance(base, VOpaque) and getattr(base, "path", None):
                    memo = s.ghost.setdefault("__paths__", {})
                    slot = base.path + "." + target.attr
                    for k_ in [k_ for k_ in memo if k_.startswith(slot + ".")]:
                        del memo[k_]
                    memo[slot] = v
                    outs.append(s)
                else:
                    raise Unsupported("assignment target Attribute")
            return outs
        raise Unsupported("assignment target %s" % type(target).__name__)

    def _exec_stmt(self, node, st):
        if isinstance(node, ast.Expr):
            if isinstance(node.value, ast.Constant):
                return [(st, (NORMAL, None))]
            return [(s, (NORMAL, None)) for s, _ in self.eval(node.value, st)]
        if isinstance(node, ast.Pass):
            return [(st, (NORMAL, None))]
        if isinstance(node, (ast.Import, ast.ImportFrom)):
            self.abstracted.add("function-local import at line %d ignored" % node.lineno)
            return [(st, (NORMAL, None))]
        if isinstance(node, ast.Assign):
            outs = []
            for s, v in self.eval(node.value, st):
                sts = [s]
                for t in node.targets:
                    sts = [s3 for s2 in sts for s3 in self.assign(t, v, s2)]
                outs.extend((s2, (NORMAL, None)) for s2 in sts)
            return outs
        if isinstance(node, ast.AnnAssign):
            if node.value is None:
                return [(st, (NORMAL, None))]
            outs = []
            for s, v in self.eval(node.value, st):
                outs.extend((s2, (NORMAL, None)) for s2 in self.assign(node.target, v, s))
            return outs
        if isinstance(node, ast.AugAssign):
            load = ast.copy_location(ast.parse(ast.unparse(node.target), mode="eval").body, node)
            binop = ast.BinOp(left=load, op=node.op, right=node.value)
            outs = []
            for s, v in self._eval(binop, st):
                outs.extend((s2, (NORMAL, None)) for s2 in self.assign(node.target, v, s))
            return outs
        if isinstance(node, ast.FunctionDef):
            st.bind(node.name, VFunc(node, node.name))
            return [(st, (NORMAL, None))]
        if isinstance(node, ast.Return):
            if node.value is None:
                return [(st, (RETURN, VNone()))]
            return [(s, (RETURN, v)) for s, v in self.eval(node.value, st)]
        if isinstance(node, ast.Raise):
            return [(st, (RAISE, None))]
        if isinstance(node, ast.Break):
            return [(st, (BREAK, None))]
        if isinstance(node, ast.Continue):
            return [(st, (CONTINUE, None))]
        if isinstance(node, ast.Delete):
            for t in node.targets:
                if isinstance(t, ast.Name):
                    for f in reversed(st.frames):
                        if t.id in f:
                            del f[t.id]
                            break
                elif isinstance(t, ast.Subscript) and self.const_key(t.slice, st) is not None:
                    outs_d = []
                    key_ = self.const_key(t.slice, st)
                    for s_, base in self.eval(t.value, st):
                        if isinstance(base, VRef) and isinstance(s_.heap[base.rid], RecordObj):
                            o = s_.heap[base.rid]
                            k = key_
                            if k not in o.fields:
                                continue  # KeyError
                            p_, v_ = o.fields[k]
                            s_.assume(p_)  # KeyError otherwise
                            if not self.feasible(s_):
                                continue
                            n_ = RecordObj(o.fields)
                            n_.fields[k] = (z3.BoolVal(False), v_)
                            s_.heap[base.rid] = n_
                            outs_d.append(s_)
                        else:
                            raise Unsupported("del of a subscript of %s" % type(base).__name__)
                    if len(node.targets) != 1:
                        raise Unsupported("del with several targets")
                    return [(s_, (NORMAL, None)) for s_ in outs_d]
                else:
                    raise Unsupported("del of non-name")
            return [(st, (NORMAL, None))]
        if isinstance(node, ast.Assert):
            outs = []
            for s, v in self.eval(node.test, st):
                s.assume(self.truthy(v, s))
                if self.feasible(s):
                    outs.append((s, (NORMAL, None)))
            return outs
        if isinstance(node, ast.If):
            outs = []
            for s, c in self.eval(node.test, st):
                t = self.truthy(c, s)
                for cond, body, tag in ((t, node.body, "T"), (z3.Not(t), node.orelse, "F")):
                    s2 = s.fork()
                    s2.assume(cond)
                    s2.trace.append("L%d:%s" % (node.lineno, tag))
                    if self.feasible(s2):
                        outs.extend(self.exec_block(body, s2))
            return outs
        if isinstance(node, ast.For):
            return self.exec_for(node, st)
        if isinstance(node, ast.While):
            return self.exec_while(node, st)
        raise Unsupported("statement %s" % type(node).__name__)

    # ------------------------------------------------------------------ loops

    @staticmethod
    def loop_key(node):
        return ("while@" + ast.unparse(node.test)) if isinstance(node, ast.While) else ("for@" + ast.unparse(node.iter))

    def loop_spec(self, node):
        k = self.loop_ordinals.get(id(node))
        spec = self.contract.loops.get(k)
        if spec is None:
            spec = self.contract.loops.get(self.loop_key(node))
        return k, spec

    def loop_havoc(self, node, st):
        extra = [n for n in ast.walk(self.contract_fnode) if isinstance(n, ast.FunctionDef) and n is not self.contract_fnode]
        names, objs = self.write_set(list(node.body) + ([node.target] if isinstance(node, ast.For) else []), st)
        _n2, objs2 = self.write_set(extra, st) if extra else (set(), set())
        # objects reachable through nested functions called from the loop body
        called = {n.func.id for b in node.body for n in ast.walk(b) if isinstance(n, ast.Call) and isinstance(n.func, ast.Name)}
        if any(f.name in called for f in extra):
            for b in node.body:
                for n in ast.walk(b):
                    if isinstance(n, ast.Call) and isinstance(n.func, ast.Name) and n.func.id in {f.name for f in extra}:
                        for a in list(n.args) + [k.value for k in n.keywords]:
                            for m in ast.walk(a):
                                if isinstance(m, ast.Name) and isinstance(st.lookup(m.id), VRef):
                                    objs.add(m.id)
        for n in sorted(names):
            v = st.lookup(n)
            if v is not None:
                st.bind(n, self.fresh_like(v, st, n))
        for n in sorted(objs):
            v = st.lookup(n)
            if isinstance(v, VRef):
                self.havoc_obj(v, st, n)
                # records: objects held in fields are havocked too
                o = st.heap[v.rid]
                if isinstance(o, RecordObj):
                    for k, (p, fv) in o.fields.items():
                        if isinstance(fv, VRef):
                            self.havoc_obj(fv, st, n + "." + k, kind_hint=self.contract.local_kinds.get(n + "." + k))
        return names, objs

    def check_invs(self, st, k, spec, phase, lineno):
        for i, inv in enumerate(spec.get("invariant", [])):
            self.oblige(st, "loop%d.%s[%d]" % (k, phase, i), self.eval_spec(inv, st), lineno)

    def assume_invs(self, st, spec):
        for inv in spec.get("invariant", []):
            st.assume(self.eval_spec(inv, st))

    def exec_for(self, node, st):
        if node.orelse:
            raise OutOfSubset("for-else")
        k, spec = self.loop_spec(node)
        it = node.iter
        enum = isinstance(it, ast.Call) and isinstance(it.func, ast.Name) and it.func.id == "enumerate" and len(it.args) == 1 and not it.keywords
        rng = isinstance(it, ast.Call) and isinstance(it.func, ast.Name) and it.func.id == "range" and 1 <= len(it.args) <= 2 and not it.keywords
        outs = []
        srcs = self.eval_seq(it.args, st) if rng else [(s, [v]) for s, v in self.eval(it.args[0] if enum else it, st)]
        for s, vs in srcs:
            itv = vs[0]
            # small concrete iterables are unrolled (no invariant needed)
            if not rng and isinstance(itv, (VTuple,)) and len(itv.items) <= 8 and not enum:
                outs.extend(self.unroll_for(node, itv.items, s))
                continue
            if not rng and not enum and isinstance(itv, VPy) and isinstance(itv.obj, (tuple, list)) and len(itv.obj) <= 8:
                items = [VTuple([self.lift_global(y, "") for y in x]) if isinstance(x, tuple) else self.lift_global(x, "") for x in itv.obj]
                outs.extend(self.unroll_for(node, items, s))
                continue
            if spec is None:
                raise OutOfSubset("loop #%s at line %d has no invariant in the contract" % (k, node.lineno))
            saved_ghost = dict(s.ghost)
            mode = None
            if rng:
                lo = vs[0].z if len(vs) == 2 else z3.IntVal(0)
                hi = vs[-1].z
                mode = "range"
            elif isinstance(itv, VStr):
                mode, whole = "str", itv.z
            elif isinstance(itv, VRef) and isinstance(s.heap[itv.rid], ListObj) and s.heap[itv.rid].kind in ("str", "empty"):
                o = s.heap[itv.rid]
                mode, whole, total = "liststr", (o.g["joined"] if o.kind == "str" else EMPTY), o.len
            elif isinstance(itv, VRef) and isinstance(s.heap[itv.rid], ListObj) and s.heap[itv.rid].kind == "seq":
                mode = "seq"
                o = s.heap[itv.rid]
                seq, total = o.g["seq"], o.len
            elif isinstance(itv, VOpaque) and not enum:
                mode = "opaque"
                self.assumptions.add("iterable received from a caller is finite (loop over an uninterpreted iterable runs an arbitrary finite number of times)")
            else:
                raise OutOfSubset("loop #%s iterates a %s" % (k, type(itv).__name__))
            # ---- establish
            if mode in ("str", "liststr"):
                s.ghost["done"], s.ghost["k"] = VStr(EMPTY), VInt(0)
            elif mode == "range":
                s.ghost["k"] = VInt(lo)
            else:
                s.ghost["k"] = VInt(0)
            if mode == "opaque":
                total = fresh("n_iter", I)
                s.assume(total >= 0)
            self.check_invs(s, k, spec, "establish", node.lineno)
            # ---- havoc + assume invariant at an arbitrary iteration head
            self.loop_havoc(node, s)
            if mode in ("str", "liststr"):
                done, rest, kk = fresh("done", S), fresh("rest", S), fresh("k", I)
                s.assume(whole == z3.Concat(done, rest), kk >= 0)
                if mode == "str":
                    s.assume(kk == z3.Length(done))
                else:
                    s.assume(kk <= total, z3.Implies(kk == total, rest == EMPTY))
                s.ghost["done"], s.ghost["k"] = VStr(done), VInt(kk)
            elif mode == "range":
                kk = fresh("k", I)
                s.assume(kk >= lo, z3.Or(kk <= hi, kk == lo))
                s.ghost["k"] = VInt(kk)
            else:
                kk = fresh("k", I)
                s.assume(kk >= 0, kk <= total)
                s.ghost["k"] = VInt(kk)
            self.assume_invs(s, spec)
            # ---- exit path
            se = s.fork()
            if mode == "str":
                se.assume(rest == EMPTY)
            elif mode == "liststr":
                se.assume(kk == total)
            elif mode == "range":
                se.assume(kk >= hi)
            else:
                se.assume(kk == total)
            if self.feasible(se):
                se.ghost = saved_ghost
                se.trace.append("L%d:exit" % node.lineno)
                outs.append((se, (NORMAL, None)))
            # ---- one arbitrary iteration
            sb = s.fork()
            sb.trace.append("L%d:iter" % node.lineno)
            if mode == "str":
                ch, rest2 = fresh("ch", S), fresh("rest", S)
                sb.assume(rest == z3.Concat(ch, rest2), z3.Length(ch) == 1)
                elem = VStr(ch)
                nxt = {"done": VStr(z3.Concat(done, ch)), "k": VInt(kk + 1)}
                idxv = VInt(kk)
            elif mode == "liststr":
                x, rest2 = fresh("elem", S), fresh("rest", S)
                sb.assume(kk < total, rest == z3.Concat(x, rest2))
                elem = VStr(x)
                nxt = {"done": VStr(z3.Concat(done, x)), "k": VInt(kk + 1)}
                idxv = VInt(kk)
            elif mode == "range":
                sb.assume(kk < hi)
                elem = VInt(kk)
                nxt = {"k": VInt(kk + 1)}
                idxv = None
            elif mode == "opaque":
                sb.assume(kk < total)
                elem = VOpaque(note="elem")
                nxt = {"k": VInt(kk + 1)}
                idxv = VInt(kk)
            else:
                sb.assume(kk < total)
                elem = self.wrap_sort(seq[kk], o.elem)
                nxt = {"k": VInt(kk + 1)}
                idxv = VInt(kk)
            if not self.feasible(sb):
                continue
            tv = VTuple([idxv, elem]) if enum else elem
            iterated = sb.heap.get(itv.rid) if mode in ("liststr", "seq") else None
            for sb2 in self.assign(node.target, tv, sb):
                for s3, (kind, val) in self.exec_block(node.body, sb2):
                    if iterated is not None and s3.heap.get(itv.rid) is not iterated:
                        # CPython iterates a list by index against its CURRENT length: a body that appends to / clears the
                        # list it iterates changes how often the loop runs.  The ghost-prefix model (elements fixed at loop
                        # entry) does not describe that, so nothing may be concluded from it.
                        raise OutOfSubset("loop #%s at line %d changes the list it iterates (iteration over a list that is mutated by the loop body is outside the model)" % (k, node.lineno))
                    if kind in (NORMAL, CONTINUE):
                        s3.ghost.update(nxt)
                        self.check_invs(s3, k, spec, "preserve", node.lineno)
                        self.paths_ended += 1
                    elif kind == BREAK:
                        s3.ghost = saved_ghost
                        outs.append((s3, (NORMAL, None)))
                    else:
                        s3.ghost = saved_ghost
                        outs.append((s3, (kind, val)))
        return outs

    def unroll_for(self, node, items, st):
        outs = []
        work = [(st, 0)]
        while work:
            s, i = work.pop()
            if i == len(items):
                outs.append((s, (NORMAL, None)))
                continue
            for s2 in self.assign(node.target, items[i], s):
                for s3, (kind, val) in self.exec_block(node.body, s2):
                    if kind in (NORMAL, CONTINUE):
                        work.append((s3, i + 1))
                    elif kind == BREAK:
                        outs.append((s3, (NORMAL, None)))
                    else:
                        outs.append((s3, (kind, val)))
        return outs

    def exec_while(self, node, st):
        if node.orelse:
            raise OutOfSubset("while-else")
        k, spec = self.loop_spec(node)
        if spec is None:
            raise OutOfSubset("while loop #%s at line %d has no invariant/variant in the contract" % (k, node.lineno))
        outs = []
        s = st
        self.check_invs(s, k, spec, "establish", node.lineno)
        self.loop_havoc(node, s)
        self.assume_invs(s, spec)
        for s1, c in self.eval(node.test, s):
            t = self.truthy(c, s1)
            se = s1.fork()
            se.assume(z3.Not(t))
            if self.feasible(se):
                se.trace.append("L%d:exit" % node.lineno)
                outs.append((se, (NORMAL, None)))
            sb = s1.fork()
            sb.assume(t)
            if not self.feasible(sb):
                continue
            sb.trace.append("L%d:iter" % node.lineno)
            v0 = None
            if "variant" in spec:
                tree = ast.parse(spec["variant"], mode="eval").body
                self.spec_mode, self._spec_old = True, sb.old
                try:
                    v0 = self._eval_spec_node(tree, sb)
                finally:
                    self.spec_mode = False
                self.oblige(sb, "loop%d.variant.bounded" % k, v0.z >= 0, node.lineno)
            for s3, (kind, val) in self.exec_block(node.body, sb):
                if kind in (NORMAL, CONTINUE):
                    self.check_invs(s3, k, spec, "preserve", node.lineno)
                    if v0 is not None:
                        self.spec_mode, self._spec_old = True, s3.old
                        try:
                            v1 = self._eval_spec_node(ast.parse(spec["variant"], mode="eval").body, s3)
                        finally:
                            self.spec_mode = False
                        self.oblige(s3, "loop%d.variant.decreases" % k, v1.z < v0.z, node.lineno)
                    self.paths_ended += 1
                elif kind == BREAK:
                    outs.append((s3, (NORMAL, None)))
                else:
                    outs.append((s3, (kind, val)))
        return outs

    # ------------------------------------------------------------------ driver

    def number_loops(self, fnode):
        k = 0
        for n in ast.walk(fnode):  # breadth-first; stable ordinal by (lineno, col)
            pass
        loops = sorted(
            (n for n in ast.walk(fnode) if isinstance(n, (ast.For, ast.While))),
            key=lambda n: (n.lineno, n.col_offset),
        )
        self.loop_ordinals = {id(n): i for i, n in enumerate(loops)}
        return len(loops)

    def rewrite_idioms(self, fnode):
        """deque(map(F, XS), maxlen=0)  ==>  for __it in XS: F(__it)   (stdlib idiom spec)"""

        engine = self

        class T(ast.NodeTransformer):
            def visit_Expr(self, n):
                c = n.value
                if (
                    isinstance(c, ast.Call) and isinstance(c.func, ast.Name) and c.func.id == "deque"
                    and len(c.args) == 1 and len(c.keywords) == 1 and c.keywords[0].arg == "maxlen"
                    and isinstance(c.keywords[0].value, ast.Constant) and c.keywords[0].value.value == 0
                    and isinstance(c.args[0], ast.Call) and isinstance(c.args[0].func, ast.Name)
                    and c.args[0].func.id == "map" and len(c.args[0].args) == 2
                ):
                    f, xs = c.args[0].args
                    engine.assumptions.add("stdlib idiom spec: deque(map(f, xs), maxlen=0) == for x in xs: f(x)")
                    loop = ast.For(
                        target=ast.Name(id="__it", ctx=ast.Store()),
                        iter=xs,
                        body=[ast.Expr(value=ast.Call(func=f, args=[ast.Name(id="__it", ctx=ast.Load())], keywords=[]))],
                        orelse=[],
                    )
                    ast.copy_location(loop, n)
                    ast.fix_missing_locations(loop)
                    return loop
                return n

        return T().visit(fnode)

    def check_attachment(self, contract, fnode):
        """
        A contract talks about the function's parameters and locals BY NAME.  If the code no longer has a name the
        contract mentions (a local was renamed, a parameter dropped), the contract does not attach: that is `undecided`
        (OutOfSubset), never a refutation.
        """
        import builtins

        a = fnode.args
        bound = {x.arg for x in a.posonlyargs + a.args + a.kwonlyargs} | ({a.vararg.arg} if a.vararg else set()) | ({a.kwarg.arg} if a.kwarg else set())
        for n in ast.walk(fnode):
            if isinstance(n, ast.Name) and isinstance(n.ctx, (ast.Store, ast.Del)):
                bound.add(n.id)
            elif isinstance(n, (ast.FunctionDef, ast.AsyncFunctionDef, ast.ClassDef)) and n is not fnode:
                bound.add(n.name)
            elif isinstance(n, ast.arg):
                bound.add(n.arg)
            elif isinstance(n, ast.ExceptHandler) and n.name:
                bound.add(n.name)
        ghosts = {"result", "done", "k", "v0", "True", "False", "None"} | set(SPEC_FUNCS) | set(contract.closure) | set(contract.bind) | set(getattr(contract, "ghost_params", ())) | set(getattr(contract, "probes", None) or {})
        is_block = getattr(contract, "block", None) is not None
        if is_block:
            ghosts |= set(contract.params)  # block contracts declare their state (incl. ghost variables) themselves
        texts = list(contract.requires) + list(contract.ensures)
        for spec in (contract.loops or {}).values():
            if isinstance(spec, dict):
                texts += list(spec.get("invariant", [])) + ([spec["variant"]] if spec.get("variant") else [])
                ghosts |= set(spec.get("vars", {}))
        used = set()
        for t in texts:
            try:
                used |= {n.id for n in ast.walk(ast.parse(t, mode="eval")) if isinstance(n, ast.Name)}
            except SyntaxError:
                continue
        declared = set() if is_block else set(contract.params)
        # local_kinds are hints ("if this local exists it has that kind"); only names the specification text USES must exist
        declared |= set()
        missing = sorted(x for x in (used | declared) if x not in bound and x not in ghosts and not hasattr(self.module, x) and not hasattr(builtins, x))
        if missing:
            raise OutOfSubset("the contract of %s mentions %s, which the current source no longer binds (renamed?): the contract does not attach" % (contract.qual, missing))

    def verify(self, contract):
        """Verify one function against its contract; fills self.obligations"""
        import copy

        self.contract = contract
        self.modname = contract.qual.split(":")[0]
        self.module = importlib.import_module(self.modname)
        fnode = contract.fnode()
        if fnode is None:
            raise OutOfSubset("function %s not found in current source" % contract.qual)
        if contract.decorators is not None:
            got = [ast.unparse(d) for d in fnode.decorator_list]
            if got != list(contract.decorators):
                raise OutOfSubset("decorator list of %s is %r, contract expects %r" % (contract.qual, got, contract.decorators))
        self.check_attachment(contract, fnode)
        fnode = self.rewrite_idioms(copy.deepcopy(fnode))
        self.contract_fnode = fnode
        self.number_loops(fnode)
        st = State()
        a = fnode.args
        pnames = [x.arg for x in a.posonlyargs + a.args + a.kwonlyargs]
        for p in pnames:
            kind = contract.params.get(p)
            if kind is None:
                st.bind(p, VOpaque(note=p))
            else:
                st.bind(p, self.fresh_value(kind, p, st))
            v_ = st.lookup(p) if hasattr(st, "lookup") else None
            if isinstance(v_, VOpaque) and any(re.split(r"[.\[]", q_)[0] == p for q_ in contract.paths):
                v_.path = p  # declared access paths (`p.a.b`, `p.xs[0]`) of an uninterpreted parameter
        # closure bindings of a nested function under contract
        for n_, kind in contract.closure.items():
            st.bind(n_, self.fresh_value(kind, n_, st))
        # specification-only (ghost) variables
        for n_ in getattr(contract, "ghost_params", ()):
            st.bind(n_, self.fresh_value(contract.params.get(n_, "str"), n_, st))
        st.old = (dict(st.frames[0]), dict(st.heap))
        for r in contract.requires:
            st.assume(self.eval_spec(r, st))
        if not self.feasible(st):
            raise OutOfSubset("requires of %s is unsatisfiable (vacuous contract)" % contract.qual)
        self.covers.append(("requires-satisfiable", True))
        returns = 0
        for s, (kind, val) in self.exec_block(extract.strip_docstring(fnode.body), st):
            if kind == RAISE:
                continue
            if kind in (BREAK, CONTINUE):
                raise OutOfSubset("break/continue outside loop")
            res = val if kind == RETURN else VNone()
            returns += 1
            for i, en in enumerate(contract.ensures):
                try:
                    claim = self.eval_spec(en, s, extra={"result": res})
                except (Unsupported, KeyError, AttributeError) as ex:
                    raise OutOfSubset("ensures[%d] of %s cannot be evaluated on a return path at %s: %r" % (i, contract.qual, s.trace[-3:], ex))
                self.oblige(s, "ensures[%d]" % i, claim, 0)
        self.covers.append(("some-path-returns", returns > 0))
        if returns == 0:
            raise OutOfSubset("no feasible path of %s reaches a return (vacuous)" % contract.qual)
        return self.obligations


class Contract(object):
    """Sidecar contract of one real function (DESIGN §2.1 'Contract file format')"""

    def __init__(self, qual, params=None, requires=(), ensures=(), modifies=(), result="opaque", loops=None,
                 bind=None, closure=None, local_kinds=None, decorators=None, pure_results=None, trusted=None, src=None, deterministic=False, paths=None, block=None,
                 block_exit=None, ghost_params=(), total=False, probes=None):
        self.qual = qual
        self.ghost_params = tuple(ghost_params)  # specification-only variables (declared in `params`, bound fresh, not in the code)
        self.probes = probes or {}  # block contracts: ghost name -> text prefix of a sub-expression whose value it names
        self.total = total  # total correctness: IndexError sites become obligations (explicit `raise` / assert paths are still only dropped)
        self.params = params or {}
        self.requires, self.ensures, self.modifies = list(requires), list(ensures), list(modifies)
        self.result = result
        self.loops = loops or {}
        self.bind = bind or {}
        self.closure = closure or {}
        self.local_kinds = local_kinds or {}
        self.decorators = decorators
        self.pure_results = pure_results or {}
        self.trusted = trusted
        self.deterministic = deterministic
        self.paths = paths or {}
        self.block = block
        self.block_exit = block_exit
        self.src = src or qual.split("#")[0]

    def fnode(self):
        mod, path = self.src.split(":")
        node, _seg, _p = extract.find_def(mod, path)
        return node


def _engine_verify_loop(self, contract, k):
    """
    Loop-local termination proof (C11): from an *arbitrary* state at the head of while-loop #k
    (variables of the declared sorts, nothing else assumed) the variant is >= 0 whenever the guard
    holds and strictly decreases on every back edge.  No invariant is assumed unless the contract
    lists one, in which case it is also checked to be preserved (its establishment is then a
    separate obligation of a whole-function run).
    """
    import copy

    self.contract = contract
    self.modname = contract.qual.split(":")[0]
    self.module = importlib.import_module(self.modname)
    fnode = contract.fnode()
    if fnode is None:
        raise OutOfSubset("function %s not found in current source" % contract.qual)
    self.check_attachment(contract, fnode)
    fnode = self.rewrite_idioms(copy.deepcopy(fnode))
    self.contract_fnode = fnode
    self.number_loops(fnode)
    cands = [n for n in ast.walk(fnode) if isinstance(n, ast.While) and (self.loop_key(n) == k or self.loop_ordinals[id(n)] == k)]
    if len(cands) != 1:
        raise OutOfSubset("while-loop %r of %s: %d matches in current source" % (k, contract.qual, len(cands)))
    node = cands[0]
    spec = contract.loops.get(k)
    if spec is None or "variant" not in spec:
        raise OutOfSubset("while-loop %r of %s (line %d) has no variant in the sidecar" % (k, contract.qual, node.lineno))
    k = self.loop_ordinals[id(node)]
    st = State()
    for n_, kind in spec.get("vars", {}).items():
        st.bind(n_, self.fresh_value(kind, n_, st))
    st.old = (dict(st.frames[0]), dict(st.heap))
    self.assume_invs(st, spec)
    vtree = ast.parse(spec["variant"], mode="eval").body

    def variant(s):
        self.spec_mode, self._spec_old = True, s.old
        try:
            return self._eval_spec_node(vtree, s)
        finally:
            self.spec_mode = False

    iters = 0
    for s1, c in self.eval(node.test, st):
        sb = s1.fork()
        sb.assume(self.truthy(c, s1))
        if not self.feasible(sb):
            continue
        v0 = variant(sb)
        sb.ghost["v0"] = v0
        self.oblige(sb, "loop%d.variant.bounded" % k, v0.z >= 0, node.lineno)
        for s3, (kind, val) in self.exec_block(node.body, sb):
            if kind in (NORMAL, CONTINUE):
                iters += 1
                self.check_invs(s3, k, spec, "preserve", node.lineno)
                self.oblige(s3, "loop%d.variant.decreases" % k, variant(s3).z < v0.z, node.lineno)
    self.covers.append(("some-back-edge-reachable", iters > 0))
    if iters == 0:
        raise OutOfSubset("no feasible back edge in while-loop #%d of %s (vacuous, or every path leaves the loop)" % (k, contract.qual))
    return self.obligations


Engine.verify_loop = _engine_verify_loop


def _engine_verify_block(self, contract):
    """
    Block contract: the statements of the function selected by `contract.block` (a predicate on the
    unparsed statement text, applied to the statements of the *innermost* body that contains a match),
    run from an arbitrary state of the declared sorts (`params` = variables, `paths` = access paths on
    uninterpreted objects) under `requires`; `ensures` must hold at every normal end of the block.
    """
    import copy

    self.contract = contract
    self.modname = contract.qual.split(":")[0]
    self.module = importlib.import_module(self.modname)
    fnode = contract.fnode()
    if fnode is None:
        raise OutOfSubset("function %s not found in current source" % contract.src)
    self.check_attachment(contract, fnode)
    fnode = self.rewrite_idioms(copy.deepcopy(fnode))
    self.contract_fnode = fnode
    self.number_loops(fnode)
    chosen = None
    for n in ast.walk(fnode):
        for fld in ("body", "orelse"):
            stmts = getattr(n, fld, None)
            if isinstance(stmts, list) and stmts and isinstance(stmts[0], ast.stmt):
                if isinstance(contract.block, tuple):
                    # (first, last[, "before"]): the contiguous run of statements of one body from the statement whose text
                    # starts with `first` to the next one whose text starts with `last` (excluded with "before")
                    txts = [ast.unparse(s_) for s_ in stmts]
                    a_ = next((i_ for i_, t_ in enumerate(txts) if t_.startswith(contract.block[0])), None)
                    b_ = None if a_ is None else next((i_ for i_ in range(a_, len(txts)) if txts[i_].startswith(contract.block[1])), None)
                    if len(contract.block) > 2 and contract.block[2] in ("before", "between") and b_ is not None:
                        b_ -= 1  # up to, excluding, the statement that starts with `last`
                    if len(contract.block) > 2 and contract.block[2] == "between" and a_ is not None:
                        a_ += 1  # strictly after the statement that starts with `first`
                    sel = stmts[a_:b_ + 1] if b_ is not None and b_ >= a_ else []
                else:
                    sel = [s_ for s_ in stmts if contract.block(ast.unparse(s_))]
                if sel:
                    if chosen is not None:
                        raise OutOfSubset("block of %s matches in more than one place" % contract.qual)
                    chosen = sel
    if not chosen:
        raise OutOfSubset("block of %s not found in current source" % contract.qual)
    # slot paths `xs[i]...`: sound only if the block touches xs and i in no other way (no aliasing slot, no re-binding)
    slots = {}
    for pth in contract.paths:
        t_ = ast.parse(pth, mode="eval").body
        while isinstance(t_, ast.Attribute):
            t_ = t_.value
        if isinstance(t_, ast.Subscript) and isinstance(t_.value, ast.Name) and isinstance(t_.slice, ast.Name):
            slots.setdefault(t_.value.id, set()).add(t_.slice.id)
    for base_, idxs in slots.items():
        if len(idxs) != 1:
            raise OutOfSubset("block of %s: more than one slot of %s declared" % (contract.qual, base_))
        idx_ = next(iter(idxs))
        par_ = {}
        for stmt_ in chosen:
            for n in ast.walk(stmt_):
                for ch in ast.iter_child_nodes(n):
                    par_[id(ch)] = n
        for stmt_ in chosen:
            for n in ast.walk(stmt_):
                if isinstance(n, ast.Name) and n.id == base_:
                    up = par_.get(id(n))
                    if not (isinstance(up, ast.Subscript) and up.value is n and isinstance(up.slice, ast.Name) and up.slice.id == idx_):
                        raise OutOfSubset("block of %s uses %s other than as %s[%s] (line %d)" % (contract.qual, base_, base_, idx_, n.lineno))
                if isinstance(n, ast.Name) and n.id == idx_ and isinstance(n.ctx, ast.Store):
                    raise OutOfSubset("block of %s re-binds the slot index %s (line %d)" % (contract.qual, idx_, n.lineno))
    # expression probes: {ghost name: text the unparsed sub-expression starts with}; exactly one match each
    self.probe_nodes = {}
    self.probe_stmts = {}
    for gname, text in (getattr(contract, "probes", None) or {}).items():
        hits = [n for stmt_ in chosen for n in ast.walk(stmt_) if isinstance(n, ast.expr) and not isinstance(n, (ast.Slice, ast.Starred)) and ast.unparse(n).startswith(text)]
        # keep the outermost match only (a match's own children that also match are dropped)
        outer = [n for n in hits if not any(n is not m and any(c is n for c in ast.walk(m)) for m in hits)]
        if len(outer) != 1:
            raise OutOfSubset("probe %r of %s matches %d expressions in the block" % (gname, contract.qual, len(outer)))
        self.probe_nodes[id(outer[0])] = gname
        holder = next(stmt_ for stmt_ in chosen if any(c is outer[0] for c in ast.walk(stmt_)))
        # the innermost simple statement that contains the probe
        inner = [n for n in ast.walk(holder) if isinstance(n, ast.stmt) and not isinstance(n, (ast.If, ast.For, ast.While, ast.With, ast.Try, ast.FunctionDef)) and any(c is outer[0] for c in ast.walk(n))]
        self.probe_stmts.setdefault(id(inner[-1] if inner else holder), []).append((outer[0], gname))
    # attachment: every variable the block READS from outside must be declared by the contract (a renamed local would
    # otherwise leave the declared one untouched and the claims about it trivially refutable)
    import builtins as _bi

    stored_, loaded_ = set(), []
    for stmt_ in chosen:
        for n in ast.walk(stmt_):
            if isinstance(n, ast.Name):
                (stored_.add(n.id) if isinstance(n.ctx, (ast.Store, ast.Del)) else loaded_.append(n))
            elif isinstance(n, (ast.FunctionDef, ast.ClassDef)):
                stored_.add(n.name)
            elif isinstance(n, ast.arg):
                stored_.add(n.arg)
    declared_ = set(contract.params) | {re.split(r"[.\[]", p_)[0] for p_ in contract.paths}
    undeclared = sorted({n.id for n in loaded_ if n.id not in declared_ and n.id not in stored_ and not hasattr(self.module, n.id) and not hasattr(_bi, n.id)})
    if undeclared:
        raise OutOfSubset("block of %s reads %s, which the contract does not declare (renamed local?): the contract does not attach" % (contract.qual, undeclared))
    st = State()
    for n_, kind in contract.params.items():
        v = self.fresh_value(kind, n_, st)
        if isinstance(v, VOpaque):
            v.path = n_
        st.bind(n_, v)
    # materialise declared access paths so that `old(...)` can see them
    for pth in contract.paths:
        tree = ast.parse(pth, mode="eval").body
        self._eval(tree, st)
    st.old = (dict(st.frames[0]), dict(st.heap))
    st.ghost["__old_paths__"] = dict(st.ghost.get("__paths__", {}))
    for r in contract.requires:
        st.assume(self.eval_spec(r, st))
    if not self.feasible(st):
        raise OutOfSubset("requires of block %s is unsatisfiable" % contract.qual)
    ends = 0
    must_return = getattr(contract, "block_exit", None) == "return"
    for s, (kind, val) in self.exec_block(chosen, st):
        if must_return:
            # the block has to leave the function by `return` on every path; `result` is the returned value
            if kind == NORMAL:
                ends += 1
                self.oblige(s, "block.returns", z3.BoolVal(False), 0)
            elif kind == RETURN:
                ends += 1
                s.bind("result", val)
                for i, en in enumerate(contract.ensures):
                    self.oblige(s, "block.ensures[%d]" % i, self.eval_spec(en, s), 0)
            continue
        if getattr(contract, "block_exit", None) == "normal" and kind == RETURN:
            # the block must NOT leave the function: a `return` on a feasible path is a failed obligation
            ends += 1
            self.oblige(s, "block.does-not-return", z3.BoolVal(False), 0)
            continue
        if kind != NORMAL:
            continue
        ends += 1
        for i, en in enumerate(contract.ensures):
            self.oblige(s, "block.ensures[%d]" % i, self.eval_spec(en, s), 0)
    self.covers.append(("block-end-reachable", ends > 0))
    if ends == 0:
        raise OutOfSubset("no path reaches the end of the block of %s (vacuous)" % contract.qual)
    return self.obligations


Engine.verify_block = _engine_verify_block
_orig_verify = Engine.verify


def _verify_dispatch(self, contract):
    if contract.block is not None:
        return self.verify_block(contract)
    return _orig_verify(self, contract)


Engine.verify = _verify_dispatch

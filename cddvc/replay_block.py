"""
Replay of a verifier counter-model of a *block contract* on the real code (CPython executes the very statements the
obligations were generated from, taken from /repo's current source and compiled unchanged).

Scope (anything else -> None, and the violation is reported with `no-failing-input-found`):
  * contract variables of kind str / int / bool, and declared access paths `xs[i].attr` of those kinds;
  * specification vocabulary: startswith endswith contains length ite implies old, comparisons, + and boolean operators.

-> dict(env=..., requires_hold=True, failed_ensures=[...], observed={...}) when the model satisfies every `requires`
   under Python's own semantics and at least one `ensures` is false after running the block;  None otherwise.
"""

import ast
import copy
import importlib
import re
import types

from . import extract


def z3_string(text):
    """Value printed by z3 for a String constant -> Python str"""
    if len(text) >= 2 and text[0] == '"' and text[-1] == '"':
        text = text[1:-1]
    text = text.replace('""', '"')
    text = re.sub(r"\\u\{([0-9a-fA-F]+)\}", lambda m: chr(int(m.group(1), 16)), text)
    text = re.sub(r"\\x([0-9a-fA-F]{2})", lambda m: chr(int(m.group(1), 16)), text)
    return text


def model_value(model, name, kind):
    """Value of the entry-state constant `name!k` (smallest k) in the model; a default when the model leaves it open"""
    cands = []
    for k, v in (model or {}).items():
        base, _, ctr = k.rpartition("!")
        if base == name and ctr.isdigit():
            cands.append((int(ctr), v))
    default = {"str": "", "int": 0, "bool": False}[kind]
    if not cands:
        return default
    v = sorted(cands)[0][1]
    try:
        if kind == "str":
            return z3_string(v)
        if kind == "int":
            return int(v.replace("(- ", "-").replace(")", "").replace(" ", ""))
        return v == "True"
    except (ValueError, AttributeError):
        return default


class Slot(dict):
    """`xs` of a declared slot path xs[i]: a mapping index -> element (any integer index is a valid slot)"""


SPEC = {
    "startswith": lambda a, b: a.startswith(b),
    "endswith": lambda a, b: a.endswith(b),
    "contains": lambda a, b: b in a,
    "length": len,
    "ite": lambda c, a, b: a if c else b,
    "implies": lambda a, b: (not a) or b,
    "is_none": lambda a: a is None,
    "strip": lambda a: a.strip(),
    "rstrip": lambda a: a.rstrip(),
    "lstrip": lambda a: a.lstrip(),
    "substr": lambda a, lo, hi=None: a[lo:hi],
    "only_chars": lambda a, chars: all(ch in chars for ch in a),
    "isdigit": lambda a: a.isdigit(),
    "isalpha": lambda a: a.isalpha(),
    "isidentifier": lambda a: a.isidentifier(),
    "isspace": lambda a: a.isspace(),
    "n_count": len,
    "replace": lambda a, b, c: a.replace(b, c),
}


class _Old(ast.NodeTransformer):
    def __init__(self, old_env):
        self.old_env, self.vals = old_env, {}

    def visit_Call(self, node):
        if isinstance(node.func, ast.Name) and node.func.id == "old" and len(node.args) == 1:
            name = "__old_%d" % len(self.vals)
            self.vals[name] = eval(compile(ast.Expression(node.args[0]), "<old>", "eval"), dict(self.old_env, **SPEC))
            return ast.copy_location(ast.Name(name, ast.Load()), node)
        return self.generic_visit(node)


def spec_eval(text, env, old_env):
    tree = ast.parse(text, mode="eval")
    tr = _Old(old_env)
    tree = ast.fix_missing_locations(tr.visit(tree))
    return eval(compile(tree, "<spec>", "eval"), dict(env, **SPEC, **tr.vals))


def select_block(fnode, block):
    """Same selection rule as Engine.verify_block (kept textually in step with it)"""
    chosen = None
    for n in ast.walk(fnode):
        for fld in ("body", "orelse"):
            stmts = getattr(n, fld, None)
            if isinstance(stmts, list) and stmts and isinstance(stmts[0], ast.stmt):
                if isinstance(block, tuple):
                    txts = [ast.unparse(s_) for s_ in stmts]
                    a_ = next((i_ for i_, t_ in enumerate(txts) if t_.startswith(block[0])), None)
                    b_ = None if a_ is None else next((i_ for i_ in range(a_, len(txts)) if txts[i_].startswith(block[1])), None)
                    if len(block) > 2 and block[2] in ("before", "between") and b_ is not None:
                        b_ -= 1
                    if len(block) > 2 and block[2] == "between" and a_ is not None:
                        a_ += 1
                    sel = stmts[a_:b_ + 1] if b_ is not None and b_ >= a_ else []
                else:
                    sel = [s_ for s_ in stmts if block(ast.unparse(s_))]
                if sel:
                    if chosen is not None:
                        return None
                    chosen = sel
    return chosen


def replay(contract, model):
    try:
        return _replay(contract, model)
    except Exception as ex:  # a replay that cannot be carried out is not evidence of anything
        return {"replay_error": "%s: %s" % (type(ex).__name__, ex)}


class Something(object):
    """A value of an uninterpreted path that is not None"""

    def __repr__(self):
        return "<some object>"


def _replay(contract, model):
    # uninterpreted paths (kind 'opaque') are only ever tested against None by the supported vocabulary:
    # try None / some object for each and keep the first assignment under which every `requires` holds
    import itertools

    opq = [p_ for p_, k_ in contract.paths.items() if k_ == "opaque"]
    last = None
    for choice in itertools.product((None, Something()), repeat=len(opq)):
        last = _replay1(contract, model, dict(zip(opq, choice)))
        if last is None or last.get("requires_hold"):
            return last
    return last


def _replay1(contract, model, opaque_vals):
    simple = {"str", "int", "bool"}
    env = {}
    for n, kind in contract.params.items():
        if kind in simple:
            env[n] = model_value(model, n, kind)
        elif kind == "none":
            env[n] = None
    for pth, kind in contract.paths.items():
        if kind not in simple and pth not in opaque_vals:
            return None
        t = ast.parse(pth, mode="eval").body
        attrs = []
        while isinstance(t, ast.Attribute):
            attrs.append(t.attr)
            t = t.value
        attrs.reverse()
        if isinstance(t, ast.Subscript) and isinstance(t.value, ast.Name) and isinstance(t.slice, ast.Name):
            idx = env.get(t.slice.id, 0)
            holder = env.get(t.value.id)
            if not isinstance(holder, Slot):
                holder = env[t.value.id] = Slot()
            obj = holder.setdefault(idx, types.SimpleNamespace())
        elif isinstance(t, ast.Name):
            obj = env.get(t.id)
            if not isinstance(obj, types.SimpleNamespace):
                obj = env[t.id] = types.SimpleNamespace()
        else:
            return None
        for a in attrs[:-1]:
            if not hasattr(obj, a):
                setattr(obj, a, types.SimpleNamespace())
            obj = getattr(obj, a)
        if not attrs:
            return None
        setattr(obj, attrs[-1], opaque_vals[pth] if pth in opaque_vals else model_value(model, pth, kind))
    # requires under Python's own semantics
    for r in contract.requires:
        if not spec_eval(r, env, env):
            return {"requires_hold": False, "env": _show(env), "failed_requires": r}
    mod = importlib.import_module(contract.src.split(":")[0])
    fnode = contract.fnode()
    chosen = select_block(fnode, contract.block) if fnode is not None else None
    if not chosen:
        return None
    # every name the block reads must be supplied by the contract state or the real module
    import builtins

    stored = {n.id for s_ in chosen for n in ast.walk(s_) if isinstance(n, ast.Name) and isinstance(n.ctx, ast.Store)}
    stored |= {a.arg for s_ in chosen for n in ast.walk(s_) if isinstance(n, (ast.Lambda, ast.FunctionDef)) for a in n.args.args}
    for s_ in chosen:
        for n in ast.walk(s_):
            if isinstance(n, ast.Name) and isinstance(n.ctx, ast.Load) and n.id not in env and n.id not in stored and not hasattr(mod, n.id) and not hasattr(builtins, n.id):
                return None
    code = compile(ast.fix_missing_locations(ast.Module(body=copy.deepcopy(chosen), type_ignores=[])), extract.module_path(contract.src.split(":")[0]), "exec")
    old_env = copy.deepcopy(env)
    g = dict(vars(mod))
    g.update(env)
    raised = None
    try:
        exec(code, g)
    except Exception as ex:  # the block raised: no normal end, the ensures do not apply
        raised = "%s: %s" % (type(ex).__name__, ex)
    if raised is not None:
        return {"requires_hold": True, "env": _show(old_env), "block_raised": raised, "failed_ensures": []}
    post = {k: g[k] for k in g if k in env or k not in vars(mod)}
    failed = [e for e in contract.ensures if not spec_eval(e, post, old_env)]
    return {
        "requires_hold": True,
        "env": _show(old_env),
        "failed_ensures": failed,
        "observed": _show({k: v for k, v in post.items() if not k.startswith("__")}),
    }


def _show(env):
    def one(v):
        if isinstance(v, Slot):
            return {str(k): one(x) for k, x in v.items()}
        if isinstance(v, types.SimpleNamespace):
            return {k: one(x) for k, x in vars(v).items()}
        if isinstance(v, tuple) and hasattr(v, "_asdict"):
            return {"<%s>" % type(v).__name__: {k: one(x) for k, x in v._asdict().items()}}
        if isinstance(v, (str, int, bool, type(None))):
            return v
        if isinstance(v, Something):
            return "<some object>"
        return repr(v)[:80]
    return {k: one(v) for k, v in env.items()}


OPAQUE_CANDIDATES = (None, 0, 5, -3, 2.5, True, False, "x", "", "```(None)```", "```5```")


def _model_bool(model, name, default=False):
    c = [(int(k.rpartition("!")[2]), v) for k, v in (model or {}).items() if k.rpartition("!")[0] == name and k.rpartition("!")[2].isdigit()]
    return (sorted(c)[0][1] == "True") if c else default


def _build(name, kind, model, opaque_choice):
    """Concrete Python value for a declared kind from the model; `opaque_choice(name)` supplies uninterpreted values"""
    if kind in ("str", "int", "bool"):
        return model_value(model, name, kind)
    if isinstance(kind, (list, tuple)) and not (len(kind) == 2 and kind[0] == "map"):
        return tuple(_build("%s[%d]" % (name, i), k, model, opaque_choice) for i, k in enumerate(kind))
    if isinstance(kind, dict):
        d = {}
        for key, k in kind.items():
            optional = key.endswith("?")
            key_ = key[:-1] if optional else key
            if optional and not _model_bool(model, "%s.%s.present" % (name, key_), False):
                continue
            d[key_] = _build("%s.%s" % (name, key_), k, model, opaque_choice)
        return d
    return opaque_choice(name)


def replay_function_records(contract, model, budget=400):
    """
    Like replay_function, for parameters that are tuples / records (dicts with optional keys): strings, numbers and the
    presence of keys come from the counter-model, uninterpreted values are SEARCHED over a small candidate set (the model
    only fixes what the solver needed).  -> dict as replay_function, or None
    """
    import itertools

    try:
        fnode = contract.fnode()
        if fnode is None:
            return None
        mod = importlib.import_module(contract.src.split(":")[0])
        # which leaves are uninterpreted?
        leaves = []

        def probe(name):
            leaves.append(name)
            return None

        for n, k in contract.params.items():
            _build(n, k, model, probe)
        leaves = sorted(set(leaves))
        fcopy = copy.deepcopy(fnode)
        fcopy.decorator_list = []
        code = compile(ast.fix_missing_locations(ast.Module(body=[fcopy], type_ignores=[])), extract.module_path(contract.src.split(":")[0]), "exec")
        a = fnode.args
        pnames = [x.arg for x in a.posonlyargs + a.args + a.kwonlyargs]
        spec = dict(SPEC, present=lambda d, k: isinstance(d, dict) and k in d, field=lambda d, k: d.get(k) if isinstance(d, dict) else None, same=lambda x, y: x == y and type(x) is type(y))
        tried = 0
        for combo in itertools.product(OPAQUE_CANDIDATES, repeat=len(leaves)):
            tried += 1
            if tried > budget:
                break
            choice = dict(zip(leaves, combo))
            env = {n: _build(n, k, model, lambda nm: choice[nm]) for n, k in contract.params.items()}
            old_env = copy.deepcopy(env)
            try:
                if not all(_spec_eval2(r, env, env, spec) for r in contract.requires):
                    continue
                g = dict(vars(mod))
                for n in contract.closure:
                    g[n] = Something()
                exec(code, g)
                result = g[fnode.name](**{n: env[n] for n in pnames if n in env})
            except Exception:
                continue
            post = dict(env, result=result)
            try:
                failed = [e for e in contract.ensures if not _spec_eval2(e, post, old_env, spec)]
            except Exception:
                continue
            if failed:
                return {"requires_hold": True, "env": _show2(old_env), "result": _show2({"r": result})["r"], "failed_ensures": failed, "searched_uninterpreted_values": choice and {k: repr(v) for k, v in choice.items()}}
        return None
    except Exception as ex:
        return {"replay_error": "%s: %s" % (type(ex).__name__, ex)}


def _spec_eval2(text, env, old_env, spec):
    tree = ast.parse(text, mode="eval")

    class T(ast.NodeTransformer):
        def __init__(self):
            self.vals = {}

        def visit_Call(self, node):
            if isinstance(node.func, ast.Name) and node.func.id == "old" and len(node.args) == 1:
                nm = "__old_%d" % len(self.vals)
                self.vals[nm] = eval(compile(ast.Expression(node.args[0]), "<old>", "eval"), dict(old_env, **spec))
                return ast.copy_location(ast.Name(nm, ast.Load()), node)
            return self.generic_visit(node)

    tr = T()
    tree = ast.fix_missing_locations(tr.visit(tree))
    return eval(compile(tree, "<spec>", "eval"), dict(env, **spec, **tr.vals))


def _show2(env):
    def one(v):
        if isinstance(v, dict):
            return {str(k): one(x) for k, x in v.items()}
        if isinstance(v, (tuple, list)):
            return [one(x) for x in v]
        if isinstance(v, (str, int, float, bool, type(None))):
            return v
        return repr(v)[:80]
    return {k: one(v) for k, v in env.items()}


def replay_function(contract, model):
    """
    Counter-model of a WHOLE-FUNCTION contract whose parameters (and ghosts) are str / int / bool: the real def -- also a
    nested one, compiled stand-alone from the current source with the real module's globals -- is called by CPython on
    the model's arguments and the `ensures` are evaluated on the result.  Anything else -> None.
    """
    try:
        simple = {"str", "int", "bool"}
        if any(k not in simple for k in contract.params.values()):
            return None
        fnode = contract.fnode()
        if fnode is None:
            return None
        mod = importlib.import_module(contract.src.split(":")[0])
        env = {n: model_value(model, n, k) for n, k in contract.params.items()}
        for r in contract.requires:
            if not spec_eval(r, env, env):
                return {"requires_hold": False, "env": _show(env), "failed_requires": r}
        fcopy = copy.deepcopy(fnode)
        fcopy.decorator_list = []
        code = compile(ast.fix_missing_locations(ast.Module(body=[fcopy], type_ignores=[])), extract.module_path(contract.src.split(":")[0]), "exec")
        g = dict(vars(mod))
        for n in contract.closure:
            g[n] = Something()
        exec(code, g)
        a = fnode.args
        pnames = [x.arg for x in a.posonlyargs + a.args + a.kwonlyargs]
        try:
            result = g[fnode.name](**{n: env[n] for n in pnames if n in env})
        except Exception as ex:
            return {"requires_hold": True, "env": _show(env), "raised": "%s: %s" % (type(ex).__name__, ex), "failed_ensures": []}
        post = dict(env, result=result)
        failed = [e for e in contract.ensures if not spec_eval(e, post, env)]
        return {"requires_hold": True, "env": _show(env), "result": result if isinstance(result, (str, int, bool, type(None))) else repr(result)[:200], "failed_ensures": failed}
    except Exception as ex:
        return {"replay_error": "%s: %s" % (type(ex).__name__, ex)}


def replay_any(contracts_module, o):
    """
    Replay of a refuted E1 obligation's counter-model on the real code (CPython), where the contract's shape allows it:
    block contracts over strings / access paths, whole-function contracts over strings, tuples and records.
    -> failing-input dict (contract, what was run, observed result, failed ensures) or None
    """
    if not o.get("model"):
        return None
    C = importlib.import_module(contracts_module)
    c = next((c_ for c_ in C.CONTRACTS if "/%s/" % c_.qual in o["name"]), None)
    if c is None or c.trusted:
        return None
    if c.block is not None:
        r = replay(c, o["model"])
        ok = r and r.get("requires_hold") and (r.get("failed_ensures") or r.get("block_raised"))
        return {"contract": c.qual, "counterexample replayed on the real statements (CPython)": r} if ok else None
    r = replay_function(c, o["model"])
    if r and r.get("requires_hold") and r.get("failed_ensures"):
        return {"contract": c.qual, "counterexample replayed on the real function (CPython)": r}
    r = replay_function_records(c, o["model"])
    if r and r.get("requires_hold") and r.get("failed_ensures"):
        return {"contract": c.qual, "counterexample replayed on the real function (CPython; uninterpreted values searched)": r}
    return None

"""
E4 — orderedness checker and cross-call-state rules (DESIGN.md §2.4, C10).

Ghost type `unordered` for expressions that are syntactically set-valued; one obligation per
consumption site: the consumer is order-insensitive.  Second rule family: no reachable function keeps
state across calls (global writes, globals() updates, module attribute stores, mutation of module-level
objects or of mutable defaults).
"""

import ast

from . import termination

INSENSITIVE_CALLS = frozenset("len bool sorted min max any all sum set frozenset isinstance hash id type".split())
UNORDERED_PRESERVING = frozenset("map filter filterfalse reversed iter chain from_iterable".split())
SENSITIVE_CALLS = frozenset("list tuple enumerate zip next iter join OrderedDict dict fromkeys repr str print deque islice accumulate reduce format".split())
SET_METHODS_OK = frozenset(
    "issubset issuperset isdisjoint union intersection difference symmetric_difference __contains__ copy add update discard remove "
    "intersection_update difference_update symmetric_difference_update clear __and__ __or__ __sub__ __xor__ __len__".split()
)
MUTATORS = frozenset("append extend insert pop remove clear sort reverse update setdefault popitem add discard appendleft".split())


def _parents(root):
    par = {}
    for n in ast.walk(root):
        for ch in ast.iter_child_nodes(n):
            par[id(ch)] = n
    return par


class FuncOrder(object):
    """Analysis of one function (or module-level code)"""

    def __init__(self, graph, f, returns_unordered, module_sets, param_unordered=None, class_attrs=None):
        self.param_unordered = param_unordered if param_unordered is not None else {}
        self.class_attrs = class_attrs if class_attrs is not None else set()  # {(mod, class qualname, attr)} set-valued instance attributes
        self.propagate = []  # (callee id, parameter name) discovered at call sites of this function
        self.g, self.f = graph, f
        self.returns_unordered = returns_unordered  # set of func ids whose result is unordered
        self.module_sets = module_sets  # {(mod, name)} module-level names bound to sets
        self.own = termination._own_nodes(f) if f.qual != "<module>" else _module_level_only(f.node)
        self.par = _parents(f.node)
        self.unordered_names = set(self.param_unordered.get(f.id, ()))
        self._infer_names()

    # -------------------------------------------------------------- which expressions are unordered

    def is_unordered(self, e):
        if isinstance(e, (ast.Set, ast.SetComp)):
            return True
        if isinstance(e, ast.Call):
            fn = e.func
            name = fn.id if isinstance(fn, ast.Name) else (fn.attr if isinstance(fn, ast.Attribute) else None)
            if name in ("set", "frozenset") and isinstance(fn, ast.Name) and name not in self.f.locals:
                return bool(e.args)  # the empty set has no order to leak
            if isinstance(fn, ast.Attribute) and fn.attr in ("union", "intersection", "difference", "symmetric_difference") and self.is_unordered(fn.value):
                return True
            if name in UNORDERED_PRESERVING and e.args and self.is_unordered(e.args[-1]):
                return True
            if isinstance(fn, (ast.Name, ast.Attribute)):
                d = self.g.dotted_of(self.f.mod, fn, self.f.locals)
                if d is not None and self.g.resolve_dotted(d) in self.returns_unordered:
                    return True
            return False
        if isinstance(e, ast.BinOp) and isinstance(e.op, (ast.BitAnd, ast.BitOr, ast.Sub, ast.BitXor)):
            def keysish(x):
                return isinstance(x, ast.Call) and isinstance(x.func, ast.Attribute) and x.func.attr in ("keys", "items") and not x.args
            if self.is_unordered(e.left) or self.is_unordered(e.right):
                return True
            if keysish(e.left) or keysish(e.right):
                return True
            return False
        if isinstance(e, ast.GeneratorExp):
            return any(self.is_unordered(c.iter) for c in e.generators)
        if isinstance(e, ast.IfExp):
            return self.is_unordered(e.body) or self.is_unordered(e.orelse)
        if isinstance(e, ast.Name) and isinstance(e.ctx, ast.Load):
            if e.id in self.unordered_names:
                return True
            if e.id not in self.f.locals and (self.f.mod, e.id) in self.module_sets:
                return True
            d = self.g.imports.get(self.f.mod, {}).get(e.id)
            if d and e.id not in self.f.locals:
                m, _, n = d.rpartition(".")
                if (m, n) in self.module_sets:
                    return True
        if isinstance(e, ast.Attribute) and isinstance(e.value, ast.Name) and e.value.id == "self" and self.f.cls is not None \
                and (self.f.mod, self.f.cls, e.attr) in self.class_attrs and isinstance(e.ctx, ast.Load):
            return True
        if isinstance(e, ast.Attribute):
            d = self.g.dotted_of(self.f.mod, e, self.f.locals)
            if d:
                m, _, n = d.rpartition(".")
                if (m, n) in self.module_sets:
                    return True
        return False

    def _infer_names(self):
        changed = True
        while changed:
            changed = False
            for n in self.own:
                tgt, val = None, None
                if isinstance(n, ast.Assign) and len(n.targets) == 1 and isinstance(n.targets[0], ast.Name):
                    tgt, val = n.targets[0].id, n.value
                elif isinstance(n, ast.AnnAssign) and isinstance(n.target, ast.Name) and n.value is not None:
                    tgt, val = n.target.id, n.value
                elif isinstance(n, ast.NamedExpr) and isinstance(n.target, ast.Name):
                    tgt, val = n.target.id, n.value
                if tgt is not None and tgt not in self.unordered_names and self.f.qual != "<module>" and self.is_unordered(val):
                    self.unordered_names.add(tgt)
                    changed = True

    # -------------------------------------------------------------- consumption sites

    def sites(self):
        """-> list of (node, ok, reason) for every maximal unordered expression occurrence"""
        out = []
        seen = set()
        for n in self.own:
            if not isinstance(n, ast.expr) or id(n) in seen:
                continue
            if isinstance(n, ast.Name) and isinstance(n.ctx, ast.Store):
                continue
            if not self.is_unordered(n):
                continue
            p = self.par.get(id(n))
            # only maximal occurrences: a parent that is itself unordered consumes this one harmlessly
            if isinstance(p, ast.expr) and self.is_unordered(p):
                continue
            if isinstance(p, ast.comprehension) and isinstance(self.par.get(id(p)), (ast.GeneratorExp, ast.SetComp)) and p.iter is n:
                gp = self.par.get(id(p))
                if self.is_unordered(gp):
                    continue
            ok, why = self.consumer_ok(n, p)
            out.append((n, ok, why))
        return out

    def consumer_ok(self, n, p):
        if p is None:
            return True, "unused"
        if isinstance(p, ast.Compare):
            return True, "comparison / membership test"
        if isinstance(p, (ast.BoolOp, ast.UnaryOp)) or (isinstance(p, (ast.If, ast.While, ast.IfExp, ast.Assert)) and getattr(p, "test", None) is n):
            return True, "truthiness"
        if isinstance(p, ast.BinOp) and isinstance(p.op, (ast.BitAnd, ast.BitOr, ast.Sub, ast.BitXor)):
            return True, "set algebra"
        if isinstance(p, (ast.Assign, ast.AnnAssign, ast.NamedExpr)):
            return True, "bound to a name (the name carries the unordered type)"
        if isinstance(p, ast.AugAssign):
            return (isinstance(p.op, (ast.BitAnd, ast.BitOr, ast.Sub, ast.BitXor)), "augmented set algebra" )
        if isinstance(p, ast.Expr):
            return True, "value discarded"
        if isinstance(p, ast.keyword):
            return self.call_ok(n, self.par.get(id(p)), kw=p.arg)
        if isinstance(p, ast.Call):
            if p.func is n:
                return True, "called"
            return self.call_ok(n, p)
        if isinstance(p, ast.Attribute):
            gp = self.par.get(id(p))
            if isinstance(gp, ast.Call) and gp.func is p:
                if p.attr in SET_METHODS_OK:
                    return True, "set method .%s" % p.attr
                if p.attr == "pop":
                    return False, ".pop() of a set returns an arbitrary element"
                if p.attr == "join":
                    return True, "separator of join"
                return True, "method .%s of the set" % p.attr
            return True, "attribute"
        if isinstance(p, ast.Starred):
            return False, "unpacked (*set) in hash order"
        if isinstance(p, ast.comprehension) and p.iter is n:
            comp = self.par.get(id(p))
            if isinstance(comp, (ast.ListComp, ast.DictComp)):
                gp = self.par.get(id(comp))
                if isinstance(gp, ast.Call) and comp in gp.args and isinstance(gp.func, ast.Name) and gp.func.id in INSENSITIVE_CALLS and not any(k.arg == "key" for k in gp.keywords):
                    return True, "list/dict built in hash order but consumed by order-insensitive %s()" % gp.func.id
                return False, "%s built by iterating a set: element order follows the hash seed" % type(comp).__name__
            return True, "generator over a set (stays unordered)"
        if isinstance(p, (ast.For, ast.AsyncFor)) and p.iter is n:
            return self.loop_ok(p, n)
        if isinstance(p, ast.Return):
            return None, "returned"  # decided by the caller-side contract (returns_unordered)
        if isinstance(p, (ast.Tuple, ast.List, ast.Dict)):
            return True, "stored in a container (element keeps the unordered type)"
        if isinstance(p, ast.Subscript) and p.value is n:
            return False, "indexed"
        if isinstance(p, ast.Subscript):
            return True, "used as key/index"
        if isinstance(p, (ast.Yield, ast.YieldFrom)):
            return (not isinstance(p, ast.YieldFrom)), "yielded"
        if isinstance(p, (ast.Lambda,)):
            return None, "returned"
        if isinstance(p, (ast.FormattedValue, ast.JoinedStr)):
            return False, "formatted into a string in hash order"
        return True, "context %s" % type(p).__name__

    def call_ok(self, n, call, kw=None):
        fn = call.func
        name = fn.id if isinstance(fn, ast.Name) else (fn.attr if isinstance(fn, ast.Attribute) else "")
        if name in ("sorted", "min", "max") and any(k.arg == "key" for k in call.keywords) and not self.injective_key(call):
            return False, "%s(S, key=...) over a set: elements that tie under the key keep hash order" % name
        if name in INSENSITIVE_CALLS:
            return True, "%s() is order-insensitive" % name
        if name in UNORDERED_PRESERVING:
            return True, "%s() result stays unordered" % name
        if isinstance(fn, ast.Attribute) and fn.attr in SET_METHODS_OK:
            return True, "argument of set method .%s" % fn.attr
        if isinstance(fn, ast.Attribute) and fn.attr in ("__contains__", "get", "startswith", "endswith"):
            return True, "argument of .%s" % fn.attr
        if name in ("partial", "rpartial", "contains", "getattr", "hasattr"):
            return True, "bound as an argument of %s (membership helpers)" % name
        if name in ("list", "tuple") and self._sorted_right_after(call):
            return True, "%s(S) bound to a name that is sorted (no key) by the very next statement" % name
        if name in SENSITIVE_CALLS or (isinstance(fn, ast.Attribute) and fn.attr in ("join", "extend", "fromkeys")):
            return False, "%s() consumes the set in hash order" % name
        # a repo function / class: its parameter becomes unordered THERE and is analysed under that typing
        d = self.g.dotted_of(self.f.mod, fn, self.f.locals) if isinstance(fn, (ast.Name, ast.Attribute)) else None
        tid = self.g.resolve_dotted(d) if d else None
        if tid is not None:
            target = tid if tid in self.g.funcs else (tid + ".__init__" if tid + ".__init__" in self.g.funcs else None)
            if target is not None:
                tnode = self.g.funcs[target].node
                names = [a.arg for a in tnode.args.posonlyargs + tnode.args.args]
                if target.endswith(".__init__") and names and names[0] == "self":
                    names = names[1:]
                pname = kw
                if pname is None:
                    idx = next((i for i, a in enumerate(call.args) if a is n), None)
                    pname = names[idx] if idx is not None and idx < len(names) else None
                if pname is not None:
                    self.propagate.append((target, pname))
                    return True, "callee %s is analysed with parameter `%s` typed unordered" % (target.split(":")[-1], pname)
        return True, "ASSUMED: callee %s treats this argument order-insensitively" % (name or "<expr>")

    def _sorted_right_after(self, call):
        """`xs = list(S)` immediately followed by `xs.sort()` (no key): the hash order never escapes"""
        asg = self.par.get(id(call))
        if not (isinstance(asg, (ast.Assign, ast.AnnAssign)) and asg.value is call):
            return False
        tgt = asg.target if isinstance(asg, ast.AnnAssign) else (asg.targets[0] if len(asg.targets) == 1 else None)
        if not isinstance(tgt, ast.Name):
            return False
        holder = self.par.get(id(asg))
        for fld in ("body", "orelse", "finalbody"):
            stmts = getattr(holder, fld, None)
            if isinstance(stmts, list) and asg in stmts:
                i = stmts.index(asg)
                if i + 1 < len(stmts):
                    nx = stmts[i + 1]
                    return (isinstance(nx, ast.Expr) and isinstance(nx.value, ast.Call) and isinstance(nx.value.func, ast.Attribute) and nx.value.func.attr == "sort"
                            and isinstance(nx.value.func.value, ast.Name) and nx.value.func.value.id == tgt.id and not any(k.arg == "key" for k in nx.value.keywords))
        return False

    @staticmethod
    def injective_key(call):
        """key={const: distinct const, ...}.__getitem__ is injective on its domain (ties impossible)"""
        k = next(kw.value for kw in call.keywords if kw.arg == "key")
        if isinstance(k, ast.Attribute) and k.attr == "__getitem__" and isinstance(k.value, ast.Dict):
            vals = [v.value if isinstance(v, ast.Constant) else None for v in k.value.values]
            return None not in vals and len(set(vals)) == len(vals)
        return False

    def loop_ok(self, loop, it):
        """`for x in S:` is fine when the body only updates pre-existing entries keyed by x"""
        var = loop.target.id if isinstance(loop.target, ast.Name) else None
        if var is None:
            return False, "for-loop over a set with a structured target"
        def keysish_of(x):
            if isinstance(x, ast.Call) and isinstance(x.func, ast.Attribute) and x.func.attr == "keys" and isinstance(x.func.value, ast.Name):
                return x.func.value.id
            return None
        inter = set()
        if isinstance(it, ast.BinOp) and isinstance(it.op, ast.BitAnd):
            for side in (it.left, it.right):
                k = keysish_of(side)
                if k:
                    inter.add(k)
        for s in loop.body:
            for m in ast.walk(s):
                if isinstance(m, ast.Call) and isinstance(m.func, ast.Attribute) and m.func.attr in ("append", "extend", "insert", "appendleft", "write", "writelines"):
                    return False, "loop over a set appends to an ordered container (line %d)" % m.lineno
                if isinstance(m, ast.Call) and isinstance(m.func, ast.Name) and m.func.id == "print":
                    return False, "loop over a set prints in hash order"
                if isinstance(m, (ast.Yield, ast.YieldFrom)):
                    return False, "loop over a set yields in hash order"
                if isinstance(m, (ast.Assign, ast.AugAssign, ast.AnnAssign)):
                    tgts = m.targets if isinstance(m, ast.Assign) else [m.target]
                    for t in tgts:
                        if isinstance(t, ast.Subscript) and isinstance(t.value, ast.Name):
                            if t.value.id not in inter:
                                return False, "loop over a set inserts keys into `%s` in hash order (line %d)" % (t.value.id, m.lineno)
                        elif isinstance(t, ast.Name):
                            pass  # loop-local temporaries
                if isinstance(m, (ast.Break, ast.Return)):
                    return False, "loop over a set stops at an arbitrary element (line %d)" % m.lineno
        return True, "loop body only updates pre-existing entries keyed by the loop variable"


def module_level_sets(graph):
    """{(mod, name)} for module-level names assigned a syntactically set-valued expression"""
    out = set()
    for mod, (tree, _src, _p) in graph.mods.items():
        for n in tree.body:
            tgt, val = None, None
            if isinstance(n, ast.Assign) and len(n.targets) == 1 and isinstance(n.targets[0], ast.Name):
                tgt, val = n.targets[0].id, n.value
            elif isinstance(n, ast.AnnAssign) and isinstance(n.target, ast.Name) and n.value is not None:
                tgt, val = n.target.id, n.value
            if tgt and (isinstance(val, (ast.Set, ast.SetComp)) or (isinstance(val, ast.Call) and isinstance(val.func, ast.Name) and val.func.id in ("set", "frozenset"))):
                out.add((mod, tgt))
    return out


def order_obligations(graph):
    """-> (obligations [(name, ok, detail)], assumptions [text], stats)"""
    msets = module_level_sets(graph)
    returns_unordered = set()
    # fixpoint: functions all of whose value-returns are unordered
    for _ in range(4):
        changed = False
        for fid, f in graph.funcs.items():
            if f.qual == "<module>" or fid in returns_unordered:
                continue
            fo = FuncOrder(graph, f, returns_unordered, msets)
            rets = [n for n in fo.own if isinstance(n, ast.Return) and n.value is not None]
            if isinstance(f.node, ast.Lambda):
                continue
            if rets and all(fo.is_unordered(r.value) for r in rets):
                returns_unordered.add(fid)
                changed = True
        if not changed:
            break
    # interprocedural typing: parameters that receive a set, instance attributes assigned from such a parameter
    param_unordered, class_attrs = {}, set()
    for _ in range(6):
        changed = False
        for fid, f in graph.funcs.items():
            fo = FuncOrder(graph, f, returns_unordered, msets, param_unordered, class_attrs)
            fo.sites()
            for target, pname in fo.propagate:
                if pname not in param_unordered.setdefault(target, set()):
                    param_unordered[target].add(pname)
                    changed = True
            if f.cls is not None and f.qual != "<module>":
                for n in fo.own:
                    if isinstance(n, ast.Assign) and len(n.targets) == 1 and isinstance(n.targets[0], ast.Attribute) and isinstance(n.targets[0].value, ast.Name) \
                            and n.targets[0].value.id == "self" and fo.is_unordered(n.value):
                        key = (f.mod, f.cls, n.targets[0].attr)
                        if key not in class_attrs:
                            class_attrs.add(key)
                            changed = True
        if not changed:
            break
    obs, assumed = [], []
    n_sites = 0
    for fid, f in sorted(graph.funcs.items()):
        fo = FuncOrder(graph, f, returns_unordered, msets, param_unordered, class_attrs)
        counts = {}
        for node, ok, why in fo.sites():
            n_sites += 1
            if ok is None:
                # returned: fine when every return of the function is unordered (callers see the type)
                ok = fid in returns_unordered or isinstance(fo.par.get(id(node)), ast.Lambda)
                why = "returned; the function's contract says it returns an unordered value" if ok else "returned from a function that also returns ordered values: callers cannot know the result is unordered"
            key = ast.unparse(node)[:50]
            counts[key] = counts.get(key, -1) + 1
            name = "order@%s:%s#%d" % (fid, key, counts[key])
            if ok and why.startswith("ASSUMED"):
                assumed.append("%s line %d: %s" % (fid, node.lineno, why))
            obs.append((name, bool(ok), "line %d: %s" % (node.lineno, why)))
    return obs, assumed, {"set_valued_sites": n_sites, "functions_returning_sets": sorted(returns_unordered),
                          "parameters_typed_unordered": {k: sorted(v) for k, v in sorted(param_unordered.items())},
                          "instance_attributes_typed_unordered": sorted(".".join(k) for k in class_attrs)}


# ---------------------------------------------------------------------------------- cross-call state

def state_obligations(graph):
    """-> [(name, ok, detail)] one per potential cross-call-state site"""
    obs = []
    module_names = {}
    for mod, (tree, _s, _p) in graph.mods.items():
        names = set()
        for n in tree.body:
            if isinstance(n, ast.Assign):
                for t in n.targets:
                    if isinstance(t, ast.Name):
                        names.add(t.id)
            elif isinstance(n, ast.AnnAssign) and isinstance(n.target, ast.Name):
                names.add(n.target.id)
        module_names[mod] = names
    # module-level names bound to a mutable container: name -> has nested mutable elements
    module_mutables = {}
    for mod, (tree, _s, _p) in graph.mods.items():
        mm = {}
        for n in tree.body:
            v, tg = None, []
            if isinstance(n, ast.Assign):
                v, tg = n.value, [t.id for t in n.targets if isinstance(t, ast.Name)]
            elif isinstance(n, ast.AnnAssign) and n.value is not None and isinstance(n.target, ast.Name):
                v, tg = n.value, [n.target.id]
            if v is not None and _mutable_expr(v):
                for t in tg:
                    if t != "__all__":
                        mm[t] = any(_mutable_expr(x) for x in ast.walk(v) if x is not v)
        module_mutables[mod] = mm
    for fid, f in sorted(graph.funcs.items()):
        is_mod = f.qual == "<module>"
        own = termination._own_nodes(f) if not is_mod else list(ast.walk(f.node))
        if is_mod:
            # module-level code: only mutation of ANOTHER module's global matters (import-order dependence)
            own = [n for n in _module_level_only(f.node)]
        counts = {}

        def add(kind, node, ok, detail):
            counts[kind] = counts.get(kind, -1) + 1
            obs.append(("state.%s@%s#%d" % (kind, fid, counts[kind]), ok, "line %d: %s" % (getattr(node, "lineno", 0), detail)))

        for n in own:
            if isinstance(n, ast.Global) and not is_mod:
                add("global", n, False, "`global %s` in a function" % ", ".join(n.names))
            if isinstance(n, ast.Call) and isinstance(n.func, ast.Attribute):
                recv = n.func.value
                # globals().update(...) / globals().__setitem__
                if isinstance(recv, ast.Call) and isinstance(recv.func, ast.Name) and recv.func.id == "globals" and n.func.attr in MUTATORS | {"__setitem__"}:
                    add("globals-write", n, False, "globals().%s(...) leaks names into the module namespace across calls" % n.func.attr)
                elif n.func.attr in MUTATORS:
                    base = recv
                    while isinstance(base, (ast.Subscript,)):
                        base = base.value
                    if isinstance(base, ast.Name) and not is_mod and base.id not in f.locals and base.id in module_names.get(f.mod, ()):
                        add("module-object-mutation", n, False, "mutates module-level `%s` via .%s()" % (base.id, n.func.attr))
                    elif isinstance(base, ast.Attribute):
                        d = graph.dotted_of(f.mod, base, f.locals)
                        if d:
                            m, _, nm = d.rpartition(".")
                            if m in graph.mods and nm in module_names.get(m, ()) and (m != f.mod or not is_mod):
                                add("foreign-global-mutation", n, None if is_mod else False,
                                    "mutates %s.%s via .%s()%s" % (m, nm, n.func.attr, " at import time" if is_mod else ""))
            if isinstance(n, (ast.Assign, ast.AugAssign)) :
                tgts = n.targets if isinstance(n, ast.Assign) else [n.target]
                for t in tgts:
                    if isinstance(t, ast.Subscript) and isinstance(t.value, ast.Call) and isinstance(t.value.func, ast.Name) and t.value.func.id == "globals":
                        add("globals-write", n, False, "globals()[...] = ... in a function")
                    if isinstance(t, ast.Attribute) and not is_mod:
                        d = graph.dotted_of(f.mod, t.value, f.locals)
                        if d and d in graph.mods:
                            add("module-attribute-store", n, False, "stores attribute %s on module %s" % (t.attr, d))
                    if isinstance(t, ast.Subscript) and isinstance(t.value, ast.Name) and not is_mod and t.value.id not in f.locals and t.value.id in module_names.get(f.mod, ()):
                        add("module-object-mutation", n, False, "item assignment into module-level `%s`" % t.value.id)
        # module-level mutable templates: handing out (a shallow copy of) a container whose elements are themselves
        # mutable shares those elements between calls; handing the container itself to a callee that mutates its
        # parameter changes the module-level object
        if not is_mod:
            par = termination._parents(f.node)
            for n in own:
                if not (isinstance(n, ast.Name) and isinstance(n.ctx, ast.Load) and n.id not in f.locals and n.id in module_mutables.get(f.mod, {})):
                    continue
                nested = module_mutables[f.mod][n.id]
                up = par.get(id(n))
                # deepcopy(M) / len(M) / `k in M` never alias an element
                if isinstance(up, ast.Call) and n in up.args and ast.unparse(up.func).split(".")[-1] in ("deepcopy", "len", "frozenset", "sorted", "dumps"):
                    continue
                if isinstance(up, ast.Compare) and n in up.comparators:
                    continue
                if nested:
                    add("shared-mutable-template", n, False,
                        "module-level `%s` holds nested mutable containers; this use (%s) hands them out without a deep copy, so every call shares -- and may mutate -- the same inner objects"
                        % (n.id, ast.unparse(up)[:60] if up is not None else n.id))
                    continue
                # flat container: passed whole to a repo callee that mutates the corresponding parameter
                if isinstance(up, ast.Call) and n in up.args:
                    callee = graph.resolve_dotted(graph.dotted_of(f.mod, up.func, f.locals) or "") if isinstance(up.func, (ast.Name, ast.Attribute)) else None
                    cf = graph.funcs.get(callee) if callee else None
                    if cf is not None and not isinstance(cf.node, ast.Lambda):
                        ca = cf.node.args
                        pos = [x.arg for x in ca.posonlyargs + ca.args]
                        i_ = up.args.index(n)
                        pname = pos[i_] if i_ < len(pos) else None
                        if pname and _mutates_param(cf.node, pname):
                            add("shared-mutable-template", n, False,
                                "module-level `%s` is passed to %s, which mutates its parameter `%s` in place: the module-level object changes between calls" % (n.id, callee, pname))
        # caches: results shared between calls
        if not is_mod and not isinstance(f.node, ast.Lambda):
            for d in f.node.decorator_list:
                txt = ast.unparse(d)
                if any(c in txt for c in ("lru_cache", "functools.cache", "cache(", "memoize")) or txt in ("cache",):
                    rets = [n.value for n in termination._own_nodes(f) if isinstance(n, ast.Return) and n.value is not None]
                    imm = bool(rets) and all(_immutable_expr(r) for r in rets)
                    add("cache", f.node, True if imm else False,
                        ("@%s: every return value is immutable (str / number / tuple / frozenset), sharing it between calls is harmless" % txt[:40]) if imm
                        else ("@%s keeps results across calls and the function returns an object that is not provably immutable (%s): every caller that receives it shares -- and may mutate -- one object, "
                              "so a later call can see what an earlier one did" % (txt[:40], "; ".join(ast.unparse(r)[:50] for r in rets[:2]) or "no return")))
        # mutable defaults
        if not is_mod and not isinstance(f.node, ast.Lambda):
            a = f.node.args
            pos = a.posonlyargs + a.args
            dflts = list(zip(pos[len(pos) - len(a.defaults):], a.defaults)) + [(x, d) for x, d in zip(a.kwonlyargs, a.kw_defaults) if d is not None]
            for arg, d in dflts:
                mutable = isinstance(d, (ast.Dict, ast.List, ast.Set)) or (isinstance(d, ast.Call) and isinstance(d.func, ast.Name) and d.func.id in ("dict", "list", "set", "OrderedDict", "defaultdict", "deque"))
                if not mutable:
                    continue
                mutated = []
                returned = False
                for n in own:
                    if isinstance(n, ast.Call) and isinstance(n.func, ast.Attribute) and isinstance(n.func.value, ast.Name) and n.func.value.id == arg.arg and n.func.attr in MUTATORS:
                        mutated.append(n.lineno)
                    if isinstance(n, (ast.Assign, ast.AugAssign)):
                        for t in (n.targets if isinstance(n, ast.Assign) else [n.target]):
                            if isinstance(t, ast.Subscript) and isinstance(t.value, ast.Name) and t.value.id == arg.arg:
                                mutated.append(n.lineno)
                    if isinstance(n, ast.Return) and isinstance(n.value, ast.Name) and n.value.id == arg.arg:
                        returned = True
                if mutated:
                    add("mutable-default", f.node, False, "parameter `%s` has a mutable default that the body mutates (lines %s): state survives between calls" % (arg.arg, mutated))
                else:
                    add("mutable-default", f.node, True, "parameter `%s` has a mutable default; the body never mutates it%s" % (arg.arg, " (it is returned: callers are ASSUMED not to mutate the result)" if returned else ""))
    return obs


def _immutable_expr(e):
    """Syntactically a str / number / bool / None / tuple or frozenset of such"""
    if isinstance(e, ast.Constant):
        return not isinstance(e.value, (bytes,)) or True
    if isinstance(e, ast.JoinedStr):
        return True
    if isinstance(e, ast.Tuple):
        return all(_immutable_expr(x) for x in e.elts)
    if isinstance(e, (ast.Compare, ast.BoolOp, ast.UnaryOp)) and not isinstance(e, ast.BoolOp):
        return True
    if isinstance(e, ast.BoolOp):
        return all(_immutable_expr(v) for v in e.values)
    if isinstance(e, ast.IfExp):
        return _immutable_expr(e.body) and _immutable_expr(e.orelse)
    if isinstance(e, ast.Call):
        fn = e.func
        nm = fn.id if isinstance(fn, ast.Name) else (fn.attr if isinstance(fn, ast.Attribute) else "")
        if nm in ("str", "int", "float", "bool", "len", "frozenset", "tuple", "repr", "format", "join", "strip", "lstrip", "rstrip", "lower", "upper", "replace", "title",
                  "startswith", "endswith", "find", "rfind", "count", "isinstance", "hasattr", "min", "max", "sum", "abs", "hash", "ord", "chr", "casefold", "capitalize", "partition", "rpartition"):
            return True
    if isinstance(e, ast.BinOp) and isinstance(e.op, (ast.Add, ast.Mod, ast.Mult, ast.Sub, ast.FloorDiv, ast.Div)):
        return _immutable_expr(e.left) or _immutable_expr(e.right)
    return False


def _mutable_expr(e):
    if isinstance(e, (ast.Dict, ast.List, ast.Set, ast.ListComp, ast.DictComp, ast.SetComp)):
        return True
    if isinstance(e, ast.Call):
        nm = e.func.id if isinstance(e.func, ast.Name) else (e.func.attr if isinstance(e.func, ast.Attribute) else None)
        return nm in ("dict", "list", "set", "OrderedDict", "defaultdict", "deque", "bytearray")
    return False


def _mutates_param(fnode, pname):
    for n in ast.walk(fnode):
        if isinstance(n, ast.Call) and isinstance(n.func, ast.Attribute) and isinstance(n.func.value, ast.Name) and n.func.value.id == pname and n.func.attr in MUTATORS:
            return True
        if isinstance(n, (ast.Assign, ast.AugAssign)):
            for t in (n.targets if isinstance(n, ast.Assign) else [n.target]):
                if isinstance(t, ast.Subscript) and isinstance(t.value, ast.Name) and t.value.id == pname:
                    return True
        if isinstance(n, ast.Delete):
            for t in n.targets:
                if isinstance(t, ast.Subscript) and isinstance(t.value, ast.Name) and t.value.id == pname:
                    return True
    return False


def _module_level_only(tree):
    out = []
    work = list(reversed(tree.body))
    while work:
        n = work.pop()
        if isinstance(n, (ast.FunctionDef, ast.AsyncFunctionDef, ast.ClassDef, ast.Lambda)):
            continue
        out.append(n)
        work.extend(reversed(list(ast.iter_child_nodes(n))))
    return out

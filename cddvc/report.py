"""
Obligation bookkeeping, baseline comparison, known findings, evidence and replay files, exit codes
(DESIGN.md §2.7, §2.9, §6).

Exit codes: 0 held · 1 violation (VIOLATION line) · 2 undecided · 3 machinery disagrees with itself.
"""

import json
import os
import re
import sys
import time

VERIF = os.path.dirname(os.path.dirname(os.path.abspath(__file__)))
REPO = os.environ.get("CDD_REPO", "/repo")
PROVED, REFUTED, UNDECIDED = "proved", "refuted", "undecided"


def load_known_findings():
    out = []
    p = os.path.join(VERIF, "known_findings.jsonl")
    if os.path.exists(p):
        for line in open(p):
            line = line.strip()
            if line:
                out.append(json.loads(line))
    return out


class Run(object):
    """One run of one property's check"""

    def __init__(self, prop, tier, level, checker_cmd=""):
        self.prop, self.tier, self.level = prop, tier, level
        self.t0 = time.time()
        self.seed = int(os.environ.get("VERIF_SEED", "0") or 0)
        self.obligations = {}  # name -> dict(status, instances, backend, time, detail, model, smt2)
        self.functions = []
        self.assumptions = set()
        self.trusted_base = set()
        self.bounded = []  # stand-ins: dict(name, bound, evaluations, distinct_nontrivial, failures)
        self.violations = []  # dict(obligation, what, replay, input)
        self.known_hits = []
        self.undecided = []
        self.errors = []
        self.samples = []
        self.extra = {}
        self.by_backend = {}
        self.solver_time = 0.0
        self.checker_cmd = checker_cmd
        self.negative_controls = None
        self.findings = [f for f in load_known_findings() if f.get("property") == prop and f.get("kind") == "finding"]

    # ---------------------------------------------------------------- obligations

    def add(self, name, status, backend="", t=0.0, detail="", model=None, smt2=None, instances=1, notes=None):
        """Aggregate instance results under one stable obligation name"""
        o = self.obligations.setdefault(
            name, {"status": PROVED, "instances": 0, "backend": {}, "time": 0.0, "detail": "", "model": None, "smt2": None, "notes": []}
        )
        o["instances"] += instances
        o["time"] += t
        if backend:
            o["backend"][backend] = o["backend"].get(backend, 0) + instances
            self.by_backend[backend] = self.by_backend.get(backend, 0) + instances
        rank = {PROVED: 0, UNDECIDED: 1, REFUTED: 2}
        if rank[status] > rank[o["status"]]:
            o["status"], o["detail"], o["model"], o["smt2"] = status, detail, model, smt2
            o["notes"] = list(notes or [])
        self.solver_time += t

    def add_engine_obligations(self, obs):
        for ob in obs:
            self.add(
                ob.name, ob.status, ob.backend, ob.time,
                detail="path %s (line %s)" % (" ".join(ob.trace[-10:]), ob.lineno),
                model=ob.model, smt2=ob.smt2 if ob.status != PROVED else None, notes=ob.notes,
            )

    def undecide(self, name, reason):
        self.undecided.append({"obligation": name, "reason": reason})

    def confirm_or_undecide(self, refuted, replay, is_rule=lambda name: "/structural/" in name):
        """
        Policy for SHAPE rules (rule engine over the ast): a rule that no longer matches is not by itself a violation --
        the code may have been rewritten in an equivalent way.  `replay(name)` runs the real code on targeted inputs for
        the clause the rule carries and returns a failing-input dict or None.  Confirmed -> stays refuted, the input is
        attached; not confirmed -> the obligation becomes undecided (exit 2, never a VIOLATION line).
        -> (still refuted list, {name: failing input})
        """
        keep, inputs = [], {}
        for o in refuted:
            name = o["name"] if isinstance(o, dict) else o[0]
            if not is_rule(name):
                keep.append(o)
                continue
            try:
                fi = replay(name)
            except Exception as ex:  # a replay that cannot run confirms nothing
                fi = None
                self.assumptions.add("targeted replay for %s could not run: %s: %s" % (name, type(ex).__name__, str(ex)[:80]))
            if fi is not None:
                inputs[name] = fi
                keep.append(o)
            elif name in self.obligations:
                ob = self.obligations[name]
                ob["status"] = UNDECIDED
                ob["detail"] = "rule no longer matches (%s) and the targeted replay on the real code found no failing input: undecided, not a violation" % (ob.get("detail") or "")[:300]
        return keep, inputs

    # ---------------------------------------------------------------- findings

    def match_finding(self, key):
        """key: dict describing the failure; a finding matches when all its `match` items agree"""
        for f in self.findings:
            m = f.get("match", {})
            if m and all(re.fullmatch(str(v), str(key.get(k, ""))) for k, v in m.items()):
                return f
        return None

    def violation(self, obligation, what, key=None, failing_input=None, solver_output=None, extra=None):
        """Report a failed obligation / failing input unless a known finding covers exactly it"""
        key = dict(key or {}, obligation=obligation)
        smt2 = (solver_output or {}).get("smt2") if isinstance(solver_output, dict) else None
        if failing_input is None and smt2 and obligation in self.obligations and any(t in obligation for t in getattr(self, "confirm_abstracted", ())) \
                and re.search(r"\(declare-fun \|?(uf:|py_|attr:|attr_str:|in:|component:|opaque_truthy|opaque_is_none)[^()]*\(\s*[A-Za-z(]", smt2):
            # (opt-in per contract, `run.confirm_abstracted`: exact functional contracts whose abstractions -- str.replace, an opaque
            # callee -- are NOT part of what the contract quantifies over, and for which the check has targeted replay inputs;
            # contracts that hold for EVERY interpretation of their classifier predicates, like C09's, are refuted by any model.)
            # The counter-model interprets functions the engine leaves uninterpreted (str.replace, casefold, isdigit, an opaque
            # callee ...) and no replay -- neither the model itself nor the targeted inputs of the check -- fails on the real code.
            # Such a model may describe no execution at all (an equivalent rewrite that spells the abstracted call differently
            # gets one too): undecided, not a VIOLATION.
            ob = self.obligations[obligation]
            ob["status"] = UNDECIDED
            ob["detail"] = ("refuted only under an interpretation of uninterpreted functions, and no replay of the counter-model or of the check's targeted "
                            "inputs fails on the real code: undecided, not a violation (%s)" % (ob.get("detail") or what or ""))[:600]
            return False
        f = self.match_finding(key)
        if f is not None:
            if f not in [h[0] for h in self.known_hits]:
                self.known_hits.append((f, what))
            return False
        self.violations.append(
            {"obligation": obligation, "what": what, "key": key, "input": failing_input, "solver": solver_output, "extra": extra}
        )
        return True

    # ---------------------------------------------------------------- finish

    def write_replay(self, v, idx):
        d = os.environ.get("VERIF_REPLAY_DIR") or os.path.join(VERIF, "replays")
        os.makedirs(d, exist_ok=True)
        slug = re.sub(r"[^A-Za-z0-9_.-]+", "_", v["obligation"])[:100]
        p = os.path.join(d, "%s-%d-%s.json" % (self.prop, idx, slug))
        with open(p, "wt") as f:
            json.dump(
                {
                    "property": self.prop,
                    "failed_obligation": v["obligation"],
                    "what": v["what"],
                    "failing_input": v["input"],
                    "no_failing_input_found": v["input"] is None,
                    "verifier_output": v["solver"],
                    "key": v["key"],
                    "extra": v["extra"],
                    "repo": REPO,
                    "replay_cmd": "./check %s --replay %s" % (self.prop, p),
                },
                f, indent=1, default=str,
            )
        return p

    def finish(self, explanation=""):
        """Print verdict lines, write the evidence file, return the exit code"""
        refuted = [n for n, o in self.obligations.items() if o["status"] == REFUTED]
        undec = [n for n, o in self.obligations.items() if o["status"] == UNDECIDED]
        for n in undec:
            self.undecide(n, self.obligations[n]["detail"] or "solver returned unknown / timeout")
        n_ob = len(self.obligations)
        n_dis = sum(1 for o in self.obligations.values() if o["status"] == PROVED)
        # known findings can also cover refuted *deductive* obligations
        exit_code = 0
        for f, what in self.known_hits:
            print("KNOWN-FINDING: property=%s %s" % (self.prop, f.get("what", what)))
        for i, v in enumerate(self.violations):
            p = self.write_replay(v, i)
            tail = "" if v["input"] is not None else " no-failing-input-found"
            print("VIOLATION property=%s replay=%s obligation=%s%s" % (self.prop, p, v["obligation"], tail))
            print("  what: %s" % v["what"])
            if v["input"] is not None:
                print("  failing input: %s" % (json.dumps(v["input"], default=str)[:600]))
            exit_code = 1
        if exit_code == 0 and self.errors:
            for e in self.errors:
                print("ENGINE-ERROR property=%s %s" % (self.prop, e))
            exit_code = 3
        if exit_code == 0 and self.undecided:
            for u in self.undecided:
                print("UNDECIDED property=%s obligation=%s reason=%s" % (self.prop, u["obligation"], u["reason"]))
            exit_code = 2
        if exit_code == 0 and self.level == "proof" and n_ob == 0:
            print("UNDECIDED property=%s obligation=* reason=zero obligations generated (vacuous run)" % self.prop)
            exit_code = 2
        cov = {
            "obligations": n_ob,
            "discharged": n_dis,
            "refuted": len(refuted),
            "undecided": len(self.undecided),
            "obligation_instances": sum(o["instances"] for o in self.obligations.values()),
            "checker_cmd": self.checker_cmd,
            "trusted_base": sorted(self.trusted_base),
            "functions_under_contract": self.functions,
            "by_backend": self.by_backend,
            "solver_time_s": round(self.solver_time, 3),
            "bounded_standins": self.bounded,
            "negative_controls": self.negative_controls,
            "known_findings_hit": [f.get("what", "") for f, _ in self.known_hits],
            "explanation": explanation,
            "samples": self.samples[:12] or [{"obligation": n, **{k: o[k] for k in ("status", "instances", "backend")}} for n, o in list(self.obligations.items())[:8]],
            "obligation_table": {n: {"status": o["status"], "instances": o["instances"], "backend": o["backend"], "time_s": round(o["time"], 4)} for n, o in sorted(self.obligations.items())},
        }
        ev_total = sum(b.get("evaluations", 0) for b in self.bounded)
        dn_total = sum(b.get("distinct_nontrivial", 0) for b in self.bounded)
        if self.bounded:
            cov["evaluations"] = ev_total
            cov["distinct_nontrivial"] = dn_total
            cov["rule"] = " | ".join("%s: %s" % (b["name"], b.get("rule", b.get("bound", ""))) for b in self.bounded)
        cov.update(self.extra)
        ev = {
            "property_id": self.prop,
            "tier": self.tier,
            "seed": self.seed,
            "level": self.level,
            "coverage": cov,
            "assumptions": sorted(self.assumptions),
            "wall_s": round(time.time() - self.t0, 2),
            "violations": len(self.violations),
            "exit_code": exit_code,
        }
        evdir = os.environ.get("VERIF_EVIDENCE_DIR") or os.path.join(VERIF, "evidence")
        os.makedirs(evdir, exist_ok=True)
        with open(os.path.join(evdir, "%s.json" % self.prop), "wt") as f:
            json.dump(ev, f, indent=1, default=str)
        print(
            "%s %s: %d/%d obligations discharged (%d instances), %d bounded stand-in(s), %d violation(s), %d undecided, %.1fs -> exit %d"
            % (self.prop, self.tier, n_dis, n_ob, cov["obligation_instances"], len(self.bounded), len(self.violations), len(self.undecided), ev["wall_s"], exit_code)
        )
        return exit_code


def compare_baseline(run, names):
    """A baseline obligation that can no longer be generated is undecided (never silently dropped)"""
    p = os.path.join(VERIF, "baseline", "obligations.json")
    if not os.path.exists(p):
        return
    base = json.load(open(p)).get(run.prop, [])
    for n in base:
        if n not in names:
            run.undecide(n, "obligation of the committed baseline was not generated on this tree (function renamed / loop removed / construct out of subset)")

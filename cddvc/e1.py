"""
Driver of the E1 deductive engine: verifies every contract of a sidecar module, one process per function.
"""

import importlib
import multiprocessing
import os
import traceback

from . import extract
from .report import PROVED, REFUTED, UNDECIDED
from .solve import Solver
from .symexec import Engine
from .values import OutOfSubset


def _verify_one(args):
    modname, qual, prop, timeout_ms = args
    C = importlib.import_module(modname)
    reg = {c.qual: c for c in C.CONTRACTS}
    c = reg[qual]
    sv = Solver(timeout_ms=timeout_ms, defer=True)
    e = Engine(reg, sv, prop)
    out = {"qual": qual, "error": None, "out_of_subset": None}
    try:
        e.verify(c)
    except OutOfSubset as ex:
        out["out_of_subset"] = str(ex)
    except Exception:  # engine crash: never a violation
        out["error"] = traceback.format_exc()[-1500:]
    out["obligations"] = [
        dict(name=o.name, status=o.status, backend=o.backend, time=o.time, trace=o.trace[-12:], lineno=o.lineno,
             model=o.model, smt2=o.smt2, notes=o.notes)
        for o in e.obligations
    ]
    out["assumptions"] = sorted(e.assumptions)
    out["abstracted"] = sorted(e.abstracted)
    out["unsupported"] = list(e.unsupported)
    out["covers"] = e.covers
    out["solver_time"] = sv.time
    out["queries"] = sv.queries + sv.feas_queries
    return out


def run_contracts(run, contracts_module, timeout_ms=10000, only=None, procs=None):
    """
    Verify all (non-trusted) contracts of `contracts_module`; results go into `run`.
    Returns list of refuted obligation dicts (for replay by the caller).
    """
    C = importlib.import_module(contracts_module)
    todo = [c for c in C.CONTRACTS if not c.trusted and (only is None or c.qual in only)]
    for c in C.CONTRACTS:
        mod, path = c.src.split(":")
        d = extract.describe(mod, path)
        d["contract"] = c.qual
        d["requires"], d["ensures"], d["modifies"] = c.requires, c.ensures, c.modifies
        d["loops"] = {str(k): v for k, v in c.loops.items()}
        d["status"] = "assumed (trusted): %s" % c.trusted if c.trusted else "verified by E1"
        run.functions.append(d)
        if c.trusted:
            run.assumptions.add("ASSUMED contract, not verified: %s (%s)" % (c.qual, c.trusted))
    jobs = [(contracts_module, c.qual, run.prop, timeout_ms) for c in todo]
    procs = procs or min(len(jobs), os.cpu_count() or 4)
    if procs > 1:
        with multiprocessing.get_context("fork").Pool(procs) as pool:
            results = pool.map(_verify_one, jobs, chunksize=1)
    else:
        results = [_verify_one(j) for j in jobs]
    # phase 2: discharge every obligation in parallel from its SMT-LIB text
    from .solve import solve_smt2

    allobs = [o for r in results for o in r["obligations"]]
    todo_obs = [o for o in allobs if o["status"] is None]
    if todo_obs:
        nproc = procs if procs and procs > 1 else (os.cpu_count() or 4)
        jobs2 = [(o["smt2"], timeout_ms) for o in todo_obs]
        if int(os.environ.get("VERIF_PROCS", nproc)) > 1 and len(jobs2) > 1:
            with multiprocessing.get_context("fork").Pool(min(int(os.environ.get("VERIF_PROCS", nproc)), len(jobs2))) as pool:
                solved = pool.map(solve_smt2, jobs2, chunksize=max(1, len(jobs2) // 64))
        else:
            solved = [solve_smt2(j) for j in jobs2]
        for o, (st_, be, dt, model) in zip(todo_obs, solved):
            o["status"], o["backend"], o["time"], o["model"] = st_, be, dt, model
            if st_ == PROVED:
                o["smt2"] = None
    refuted = []
    for r in results:
        for o in r["obligations"]:
            if o["status"] == REFUTED and any("imprecise" in str(n_) for n_ in (o.get("notes") or [])):
                # the path went through a statement the engine does not model (its write set was havocked): a counter-model
                # there may be an artefact of the over-approximation.  It counts only if it replays on the real code.
                from . import replay_block

                try:
                    o["replayed"] = replay_block.replay_any(contracts_module, o)
                except Exception:
                    o["replayed"] = None
                if o["replayed"] is None:
                    o["status"] = UNDECIDED
                    o["backend"] = "%s (counter-model only under an over-approximated statement, not reproducible on the real code: undecided)" % o["backend"]
            run.add(o["name"], o["status"], o["backend"], o["time"],
                    detail="path %s (line %s)" % (" ".join(o["trace"]), o["lineno"]),
                    model=o["model"], smt2=o["smt2"], notes=o["notes"])
            if o["status"] == REFUTED:
                refuted.append(o)
        for a in r["assumptions"]:
            run.assumptions.add(a)
        for a in r["abstracted"]:
            run.assumptions.add("%s: %s" % (r["qual"].split(":")[-1], a))
        for u in r["unsupported"]:
            run.assumptions.add("%s: statement outside the subset, write set havocked — %s" % (r["qual"].split(":")[-1], u))
        if r["out_of_subset"]:
            run.undecide("%s/%s/*" % (run.prop, r["qual"]), "out of subset: " + r["out_of_subset"])
        if r["error"]:
            run.undecide("%s/%s/*" % (run.prop, r["qual"]), "engine error (traceback): " + r["error"].replace("\n", " | ")[-400:])
        if not r["obligations"] and not r["out_of_subset"] and not r["error"]:
            run.undecide("%s/%s/*" % (run.prop, r["qual"]), "zero obligations generated")
    # structural (rule-engine) side conditions
    if hasattr(C, "structural"):
        def fd(mod, path):
            return extract.find_def(mod, path)[0]
        for name, ok, detail in C.structural(fd):
            run.add("%s/structural/%s" % (run.prop, name), PROVED if ok else REFUTED, "rule-engine", 0.0, detail=detail)
            if not ok:
                refuted.append({"name": "%s/structural/%s" % (run.prop, name), "status": REFUTED, "model": None, "smt2": None, "trace": [], "lineno": 0, "notes": [detail], "backend": "rule-engine"})
    return refuted

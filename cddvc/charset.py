"""
C17(b) — refinement-type ("clean string") check on the one `eval` argument (DESIGN.md §5 C17 b).

clean(s)  :=  every character of s is in SAFE (ASCII letters, digits, ` ' " / | . , ; [ ] { } and white space)
so a clean string contains no `(`, `_`, `=`, `:`, `@`, `\\`: no call, no dunder chain, no lambda / walrus.

R1 (filter function): a value derived from the untrusted parameter may be *stored* only under a branch
    condition that implies clean(value); elsewhere it may only be tested.
R2 (closure): the other functions of the chain build strings only from clean values, clean constants and
    constant tables with clean entries, and use no character-introducing primitive.
R3 (site): the evaluated expression is exactly the result of the checked chain.
"""

import ast
import importlib
import string

SAFE = frozenset(string.ascii_letters + string.digits + "`'\"/|.,;[]{} ")
FORBIDDEN = frozenset(
    "chr repr ascii hex oct bin bytes bytearray eval exec compile getattr setattr vars globals locals format_map "
    "__import__ input open memoryview unichr".split()
)


def is_safe_char(c):
    return c in SAFE or c.isspace()


def unsafe_chars(s):
    return sorted({c for c in s if not is_safe_char(c)})


class ConstFolder(object):
    """Evaluates constant expressions of the real module without running repo functions"""

    def __init__(self, module, local_consts=None):
        self.module, self.local = module, dict(local_consts or {})

    def fold(self, e):
        """-> python value, or raises ValueError"""
        if isinstance(e, ast.Constant):
            return e.value
        if isinstance(e, ast.Name):
            if e.id in self.local:
                return self.local[e.id]
            if hasattr(self.module, e.id):
                v = getattr(self.module, e.id)
                if isinstance(v, (str, frozenset, tuple, dict, int)) or getattr(v, "__name__", "") == "string":
                    return v
            if e.id == "frozenset":
                return frozenset
            raise ValueError("name %s is not a constant" % e.id)
        if isinstance(e, ast.Attribute):
            b = self.fold(e.value)
            if getattr(b, "__name__", "") == "string" and e.attr in ("digits", "ascii_letters", "ascii_lowercase", "ascii_uppercase", "whitespace", "punctuation", "printable", "hexdigits", "octdigits"):
                return getattr(string, e.attr)
            raise ValueError("attribute %s" % e.attr)
        if isinstance(e, (ast.Tuple, ast.List)):
            return tuple(self.fold(x) for x in e.elts)
        if isinstance(e, ast.BinOp) and isinstance(e.op, ast.Add):
            return self.fold(e.left) + self.fold(e.right)
        if isinstance(e, ast.Call):
            if isinstance(e.func, ast.Name) and e.func.id == "frozenset" and len(e.args) == 1 and not e.keywords:
                return frozenset(self.fold(e.args[0]))
            if isinstance(e.func, ast.Attribute) and e.func.attr == "format" and not e.keywords:
                tpl = self.fold(e.func.value)
                if isinstance(tpl, str):
                    return tpl.format(*[self.fold(a) for a in e.args])
        raise ValueError("not a constant expression: %s" % ast.unparse(e)[:60])


def strings_of(v):
    if isinstance(v, str):
        yield v
    elif isinstance(v, dict):
        for k, x in v.items():
            for s in strings_of(k):
                yield s
            for s in strings_of(x):
                yield s
    elif isinstance(v, (tuple, list, frozenset, set)):
        for x in v:
            for s in strings_of(x):
                yield s


def body_no_doc(fnode):
    b = fnode.body
    if b and isinstance(b[0], ast.Expr) and isinstance(getattr(b[0], "value", None), ast.Constant) and isinstance(b[0].value.value, str):
        return b[1:]
    return b


def check_closure(modname, fnode, obs, prefix):
    """R2 on one function: constants, tables, forbidden primitives"""
    module = importlib.import_module(modname)
    consts, tables, forb = [], [], []
    params = {a.arg for a in fnode.args.posonlyargs + fnode.args.args + fnode.args.kwonlyargs}
    local_store = {n.id for b in body_no_doc(fnode) for n in ast.walk(b) if isinstance(n, ast.Name) and isinstance(n.ctx, ast.Store)} | {
        a.arg for b in body_no_doc(fnode) for n in ast.walk(b) if isinstance(n, ast.Lambda) for a in n.args.args
    }
    # constants that are only *compared against* never flow into a value
    tested = set()
    for b in body_no_doc(fnode):
        for n in ast.walk(b):
            if isinstance(n, ast.Compare):
                for c in ast.walk(n):
                    if isinstance(c, ast.Constant):
                        tested.add(id(c))
    for b in body_no_doc(fnode):
        for n in ast.walk(b):
            if isinstance(n, ast.Constant) and isinstance(n.value, str) and id(n) not in tested:
                u = unsafe_chars(n.value)
                if u:
                    consts.append((n.lineno, n.value[:40], u))
            elif isinstance(n, ast.Name) and isinstance(n.ctx, ast.Load):
                if n.id in FORBIDDEN and n.id not in params and n.id not in local_store:
                    forb.append((n.lineno, n.id))
                elif n.id not in params and n.id not in local_store and hasattr(module, n.id):
                    v = getattr(module, n.id)
                    if isinstance(v, (str, dict, tuple, frozenset, list)):
                        for s in strings_of(v):
                            u = unsafe_chars(s)
                            if u:
                                tables.append((n.lineno, n.id, s[:40], u))
            elif isinstance(n, ast.BinOp) and isinstance(n.op, ast.Mod):
                forb.append((n.lineno, "% formatting"))
            elif isinstance(n, ast.JoinedStr):
                forb.append((n.lineno, "f-string"))
            elif isinstance(n, ast.Attribute) and n.attr in ("format_map", "decode", "encode", "translate", "maketrans", "__getattribute__"):
                forb.append((n.lineno, "." + n.attr))
    obs.append((prefix + "/constants-clean", not consts, "string constants with characters outside SAFE: %r" % consts if consts else "every string constant is clean"))
    obs.append((prefix + "/tables-clean", not tables, "constant tables with unsafe entries: %r" % tables[:4] if tables else "every constant table read has clean keys and values"))
    obs.append((prefix + "/no-char-introducing-primitive", not forb, "character-introducing / reflective primitives used: %r" % forb if forb else "none used"))


def implies_clean(cond, var, folder):
    """Does `cond` being true imply clean(var)?  -> (bool, offending chars)"""
    if isinstance(cond, ast.BoolOp) and isinstance(cond.op, ast.Or):
        bad = []
        ok = True
        for v in cond.values:
            o, u = implies_clean(v, var, folder)
            ok = ok and o
            bad += u
        return ok, bad
    if isinstance(cond, ast.BoolOp) and isinstance(cond.op, ast.And):
        allbad = []
        for v in cond.values:
            o, u = implies_clean(v, var, folder)
            if o:
                return True, []
            allbad += u
        return False, allbad
    if isinstance(cond, ast.Compare) and len(cond.ops) == 1 and isinstance(cond.left, ast.Name) and cond.left.id == var:
        rhs = cond.comparators[0]
        if isinstance(cond.ops[0], (ast.In, ast.Eq)):
            try:
                k = folder.fold(rhs)
            except ValueError:
                return False, []
            chars = "".join(strings_of(k))
            u = unsafe_chars(chars)
            return (not u), u
    if isinstance(cond, ast.Call) and isinstance(cond.func, ast.Attribute) and cond.func.attr == "isspace" and isinstance(cond.func.value, ast.Name) and cond.func.value.id == var:
        return True, []
    return False, []


def check_filter(modname, fnode, dirty_param, obs, prefix):
    """R1 on the filter function: dirty values are only tested, or stored under a cleaning condition"""
    module = importlib.import_module(modname)
    # local constants: single-assignment names with a constant-foldable value
    folder = ConstFolder(module)
    stores = {}
    for b in body_no_doc(fnode):
        for n in ast.walk(b):
            if isinstance(n, (ast.Assign, ast.AnnAssign)):
                tgt = n.targets[0] if isinstance(n, ast.Assign) and len(n.targets) == 1 else getattr(n, "target", None)
                if isinstance(tgt, ast.Name) and n.value is not None:
                    stores.setdefault(tgt.id, []).append(n.value)
    for name, vals in stores.items():
        if len(vals) == 1:
            try:
                folder.local[name] = folder.fold(vals[0])
            except ValueError:
                pass
    dirty = {dirty_param}
    # loop variables over dirty iterables
    changed = True
    while changed:
        changed = False
        for b in body_no_doc(fnode):
            for n in ast.walk(b):
                if isinstance(n, ast.For):
                    it = n.iter
                    tgt = n.target
                    if isinstance(it, ast.Call) and isinstance(it.func, ast.Name) and it.func.id == "enumerate" and it.args:
                        it = it.args[0]
                        tgt = tgt.elts[1] if isinstance(tgt, ast.Tuple) and len(tgt.elts) == 2 else tgt
                    if any(isinstance(m, ast.Name) and m.id in dirty for m in ast.walk(it)):
                        for t in ast.walk(tgt):
                            if isinstance(t, ast.Name) and t.id not in dirty:
                                dirty.add(t.id)
                                changed = True
                elif isinstance(n, (ast.Assign, ast.AnnAssign)) and n.value is not None:
                    tgt = n.targets[0] if isinstance(n, ast.Assign) else n.target
                    if isinstance(tgt, ast.Name) and tgt.id not in dirty and _dirty_value(n.value, dirty):
                        dirty.add(tgt.id)
                        changed = True
    problems = []

    def visit_block(stmts, conds):
        for s in stmts:
            if isinstance(s, ast.If):
                check_expr(s.test, conds, testing=True)
                visit_block(s.body, conds + [s.test])
                visit_block(s.orelse, conds)  # else / elif: no fact from the negated test
            elif isinstance(s, (ast.For, ast.While)):
                check_expr(s.iter if isinstance(s, ast.For) else s.test, conds, testing=True)
                visit_block(s.body, conds)
                visit_block(s.orelse, conds)
            elif isinstance(s, (ast.FunctionDef, ast.AsyncFunctionDef)):
                visit_block(s.body, conds)
            else:
                for ch in ast.iter_child_nodes(s):
                    if isinstance(ch, ast.expr):
                        check_expr(ch, conds, testing=False)

    def check_expr(e, conds, testing):
        """Flag every dirty Name that is used as a *value* without a cleaning condition"""
        if isinstance(e, ast.Name):
            if e.id in dirty and isinstance(e.ctx, ast.Load) and not testing:
                ok, bad = False, []
                for c in conds:
                    o, u = implies_clean(c, e.id, folder)
                    if o:
                        ok = True
                        break
                    bad += u
                if not ok:
                    problems.append((e.lineno, e.id, sorted(set(bad))))
            return
        if isinstance(e, ast.Compare):
            for x in [e.left] + e.comparators:
                check_expr(x, conds, True)
            return
        if isinstance(e, ast.BoolOp):
            for x in e.values:
                check_expr(x, conds, testing)
            return
        if isinstance(e, ast.UnaryOp) and isinstance(e.op, ast.Not):
            check_expr(e.operand, conds, True)
            return
        if isinstance(e, ast.IfExp):
            check_expr(e.test, conds, True)
            check_expr(e.body, conds + [e.test], testing)
            check_expr(e.orelse, conds, testing)
            return
        if isinstance(e, ast.Call):
            f = e.func
            if isinstance(f, ast.Name) and f.id in ("len", "enumerate", "isinstance", "range"):
                for a in e.args:
                    check_expr(a, conds, True)
                return
            if isinstance(f, ast.Attribute) and f.attr in ("isspace", "isidentifier", "isdigit", "isalpha", "isalnum", "startswith", "endswith", "count", "find", "rfind", "index"):
                check_expr(f.value, conds, True)
                for a in e.args:
                    check_expr(a, conds, True)
                return
            if isinstance(f, ast.Attribute):
                check_expr(f.value, conds, testing)
            else:
                check_expr(f, conds, testing)
            for a in list(e.args) + [k.value for k in e.keywords]:
                check_expr(a, conds, False)
            return
        if isinstance(e, ast.Subscript):
            # doc[i + 1] used as a value is as dirty as doc itself
            check_expr(e.value, conds, testing)
            check_expr(e.slice, conds, True)
            return
        for ch in ast.iter_child_nodes(e):
            if isinstance(ch, ast.expr):
                check_expr(ch, conds, testing)

    visit_block(body_no_doc(fnode), [])
    detail = "every use of a value derived from `%s` is a test, or a store under a condition implying clean()" % dirty_param
    if problems:
        detail = "; ".join(
            "line %d: `%s` flows into a value without a cleaning condition%s" % (ln, nm, (" (condition admits %r)" % bad) if bad else "")
            for ln, nm, bad in problems[:4]
        )
    obs.append((prefix + "/dirty-only-tested-or-filtered", not problems, detail))
    return folder


def _dirty_value(e, dirty):
    """Is the *value* of e derived from a dirty name (not merely a test on it)?"""
    if isinstance(e, ast.Name):
        return e.id in dirty
    if isinstance(e, ast.Subscript):
        return _dirty_value(e.value, dirty)
    if isinstance(e, ast.Call) and isinstance(e.func, ast.Attribute) and e.func.attr in ("strip", "lstrip", "rstrip", "lower", "upper", "split", "join", "replace", "format", "title", "casefold"):
        return _dirty_value(e.func.value, dirty) or any(_dirty_value(a, dirty) for a in e.args)
    if isinstance(e, (ast.BinOp,)):
        return _dirty_value(e.left, dirty) or _dirty_value(e.right, dirty)
    if isinstance(e, ast.IfExp):
        return _dirty_value(e.body, dirty) or _dirty_value(e.orelse, dirty)
    return False


def check_entry(modname, fnode, dirty_params, filter_name, obs, prefix):
    """
    The public function of the chain: its dirty parameters are only tested, or handed to the filter
    function at its dirty position.
    """
    problems = []
    for b in body_no_doc(fnode):
        par = {}
        for n in ast.walk(b):
            for ch in ast.iter_child_nodes(n):
                par[id(ch)] = n
        for n in ast.walk(b):
            if isinstance(n, ast.Name) and n.id in dirty_params and isinstance(n.ctx, ast.Load):
                p = par.get(id(n))
                ok = False
                if isinstance(p, ast.Call) and isinstance(p.func, ast.Name) and p.func.id == filter_name and p.args and p.args[0] is n:
                    ok = True
                elif isinstance(p, (ast.If, ast.IfExp, ast.While)) and p.test is n:
                    ok = True
                elif isinstance(p, ast.UnaryOp) and isinstance(p.op, ast.Not):
                    ok = True
                elif isinstance(p, ast.Compare):
                    ok = True
                elif isinstance(p, ast.Call) and isinstance(p.func, ast.Name) and p.func.id in ("len", "isinstance"):
                    ok = True
                if not ok:
                    problems.append((n.lineno, n.id))
    obs.append((prefix + "/dirty-params-only-to-filter", not problems,
                "untrusted parameters reach only tests and %s(...)" % filter_name if not problems else "untrusted parameter used as a value: %r" % problems[:4]))

"""
E5 — termination rules (DESIGN.md §2.5): while-loop inventory, finite-iterable and no-growth rules
for every `for` / comprehension, and a declared measure per recursive component of the call graph.
"""

import ast

from . import extract

INFINITE = {"itertools.count", "itertools.cycle", "itertools.repeat"}
BOUNDERS = {"itertools.islice", "zip", "itertools.takewhile", "next", "itertools.zip_longest_NOT"}
GROWERS = frozenset("append extend insert add update setdefault appendleft".split())


def _parents(tree):
    par = {}
    for n in ast.walk(tree):
        for ch in ast.iter_child_nodes(n):
            par[id(ch)] = n
    return par


def while_loops(graph):
    """[(func id, loop key, lineno)] for every while loop of the package"""
    out = []
    for fid, f in sorted(graph.funcs.items()):
        if f.qual == "<module>":
            body = [n for n in ast.iter_child_nodes(f.node) if not isinstance(n, (ast.FunctionDef, ast.AsyncFunctionDef, ast.ClassDef))]
        else:
            body = list(ast.iter_child_nodes(f.node))
        work = list(body)
        while work:
            n = work.pop()
            if isinstance(n, (ast.FunctionDef, ast.AsyncFunctionDef)) and n is not f.node:
                continue  # own Func
            if isinstance(n, ast.While):
                out.append((fid, "while@" + ast.unparse(n.test), n.lineno))
            work.extend(ast.iter_child_nodes(n))
    return sorted(out)


def _callee_name(graph, f, call):
    d = graph.dotted_of(f.mod, call.func, f.locals) if isinstance(call.func, (ast.Name, ast.Attribute)) else None
    return d


def iterable_obligations(graph):
    """
    -> list of (name, ok, detail).  One obligation per infinite-source site (must be bounded by
    islice / zip-with-finite / takewhile / next) and one per loop whose body could grow the collection
    it iterates.
    """
    obs = []
    for fid, f in sorted(graph.funcs.items()):
        par = _parents(f.node)
        own = _own_nodes(f)
        # --- infinite sources
        for n in own:
            if not isinstance(n, ast.Call):
                continue
            d = _callee_name(graph, f, n)
            inf = d in INFINITE and not (d == "itertools.repeat" and (len(n.args) > 1 or any(k.arg == "times" for k in n.keywords)))
            if d == "iter" and len(n.args) == 2:
                inf = True
            if not inf:
                continue
            name = "iterable.bounded@%s:%s#%s" % (fid, d, _ordinal(own, n))
            p = par.get(id(n))
            ok, why = False, "infinite iterator %s at line %d is consumed unboundedly" % (d, n.lineno)
            if isinstance(p, ast.Call) and _callee_name(graph, f, p) in BOUNDERS and (
                _callee_name(graph, f, p) != "zip" or len(p.args) >= 2
            ):
                ok, why = True, "directly under %s" % _callee_name(graph, f, p)
            elif (isinstance(p, ast.Assign) and len(p.targets) == 1 and isinstance(p.targets[0], ast.Name)) or (
                isinstance(p, ast.AnnAssign) and isinstance(p.target, ast.Name)
            ):
                var = p.targets[0].id if isinstance(p, ast.Assign) else p.target.id
                uses = [m for m in own if isinstance(m, ast.Name) and m.id == var and isinstance(m.ctx, ast.Load)]
                bad = []
                for u in uses:
                    pu = par.get(id(u))
                    if not (isinstance(pu, ast.Call) and u in pu.args and _callee_name(graph, f, pu) in BOUNDERS and (_callee_name(graph, f, pu) != "zip" or len(pu.args) >= 2)):
                        bad.append(u.lineno)
                ok = not bad
                why = "bound to `%s`, every use is an argument of next/zip/islice/takewhile" % var if ok else "`%s` used unboundedly at lines %s" % (var, bad)
            obs.append((name, ok, why))
        # --- growth of the iterated collection
        for n in own:
            if isinstance(n, (ast.For, ast.AsyncFor)):
                base = n.iter
                if isinstance(base, ast.Call) and isinstance(base.func, ast.Attribute) and base.func.attr in ("items", "keys", "values") and not base.args:
                    base = base.func.value
                if isinstance(base, ast.Call) and isinstance(base.func, ast.Name) and base.func.id in ("enumerate", "reversed", "iter") and base.args:
                    base = base.args[0]
                if not isinstance(base, ast.Name):
                    continue
                var = base.id
                grow = []
                for b in n.body:
                    for m in ast.walk(b):
                        if isinstance(m, ast.Call) and isinstance(m.func, ast.Attribute) and isinstance(m.func.value, ast.Name) and m.func.value.id == var and m.func.attr in GROWERS:
                            grow.append(m.lineno)
                        elif isinstance(m, ast.AugAssign) and isinstance(m.target, ast.Name) and m.target.id == var:
                            grow.append(m.lineno)
                if grow:
                    obs.append(("iterable.no-growth@%s:for %s#%s" % (fid, var, _ordinal(own, n)), False,
                                "loop at line %d iterates `%s` and its body grows it at lines %s" % (n.lineno, var, grow)))
    return obs


def _own_nodes(f):
    """AST nodes belonging to this Func (nested defs excluded; they are their own Func)"""
    out = []
    work = [f.node]
    first = True
    while work:
        n = work.pop()
        if not first and isinstance(n, (ast.FunctionDef, ast.AsyncFunctionDef)):
            continue
        first = False
        out.append(n)
        work.extend(reversed(list(ast.iter_child_nodes(n))))
    return out


def _ordinal(own, node):
    same = [m for m in own if type(m) is type(node) and ast.dump(m) == ast.dump(node)]
    same.sort(key=lambda m: (getattr(m, "lineno", 0), getattr(m, "col_offset", 0)))
    return same.index(node) if node in same else 0


def _derived_from_param(expr, params, derived):
    """
    Is `expr` a *proper* sub-structure of a parameter?  (attribute / subscript / element of it, or
    a local that was bound by iterating over / getattr of a parameter)
    """
    if isinstance(expr, (ast.Attribute, ast.Subscript)):
        b = expr.value
        while isinstance(b, (ast.Attribute, ast.Subscript)):
            b = b.value
        return isinstance(b, ast.Name) and (b.id in params or b.id in derived)
    if isinstance(expr, ast.Name):
        return expr.id in derived
    return False


def _map_partial_site(m, par, f, callee):
    """
    `map(partial(F, **kw), P or <empty>)` where F is the recursive callee, P is an (unre-bound so far) parameter of the
    enclosing function and also the name of F's first positional parameter, which no keyword of the partial binds:
    each call F(x) gets an element x of P in the place of P  ->  (ok, why-not)
    """
    up = par.get(id(m))
    if not (isinstance(up, ast.Call) and ast.unparse(up.func) in ("partial", "functools.partial") and len(up.args) == 1 and up.args[0] is m):
        return False, "line %d: the reference is not the sole positional argument of partial(...)" % m.lineno
    ca = callee.node.args
    pos = [x.arg for x in ca.posonlyargs + ca.args]
    if not pos:
        return False, "callee has no positional parameter"
    first = pos[0]
    if any(k.arg is None or k.arg == first for k in up.keywords):
        return False, "line %d: partial(...) binds `%s` (or passes **kwargs), so the mapped element is not the measured argument" % (m.lineno, first)
    up2 = par.get(id(up))
    if not (isinstance(up2, ast.Call) and isinstance(up2.func, ast.Name) and up2.func.id == "map" and len(up2.args) == 2 and up2.args[0] is up and not up2.keywords):
        return False, "line %d: partial(...) is not the function argument of a two-argument map(...)" % m.lineno
    it = up2.args[1]
    if isinstance(it, ast.BoolOp) and isinstance(it.op, ast.Or) and all(ast.unparse(v) in ("iter(())", "()", "[]", "tuple()") for v in it.values[1:]):
        it = it.values[0]
    a = f.node.args
    fparams = {x.arg for x in a.posonlyargs + a.args + a.kwonlyargs}
    if not (isinstance(it, ast.Name) and it.id == first and it.id in fparams):
        return False, "line %d: the mapped iterable `%s` is not the parameter `%s`" % (m.lineno, ast.unparse(it)[:40], first)
    rebound = [n.lineno for n in _own_nodes(f) if isinstance(n, ast.Name) and n.id == first and isinstance(n.ctx, ast.Store) and n.lineno <= m.lineno]
    if rebound:
        return False, "`%s` is re-bound (line %s) before the mapped call at line %d" % (first, rebound, m.lineno)
    return True, ""


def recursion_obligations(graph, measures):
    """
    measures: {frozenset(component ids) or single id: {"measure": text, "sites": {"callee@ordinal": "structural"|"assumed: why"}}}
    -> (obligations [(name, ok, detail)], assumed [text])
    """
    obs, assumed = [], []
    for comp in graph.sccs():
        key = "+".join(c.split(":")[-1] for c in comp)
        decl = measures.get(key)
        if decl is None:
            obs.append(("recursion.measure@%s" % key, None, "recursive component %s has no declared measure in the sidecar" % comp))
            continue
        for fid in comp:
            f = graph.funcs[fid]
            own = _own_nodes(f)
            a = f.node.args
            params = {x.arg for x in a.posonlyargs + a.args + a.kwonlyargs} | ({a.vararg.arg} if a.vararg else set())
            # aliases of a parameter: x = args[0] if args else kwargs.get("a", kwargs.get("b"))
            va, kw = (a.vararg.arg if a.vararg else None), (a.kwarg.arg if a.kwarg else None)

            def is_alias_expr(x):
                if isinstance(x, ast.IfExp):
                    return is_alias_expr(x.body) and is_alias_expr(x.orelse)
                if isinstance(x, ast.Subscript) and isinstance(x.value, ast.Name) and x.value.id in (va, kw):
                    return True
                if isinstance(x, ast.Call) and isinstance(x.func, ast.Attribute) and x.func.attr == "get" and isinstance(x.func.value, ast.Name) and x.func.value.id == kw:
                    return all(isinstance(d, ast.Constant) or is_alias_expr(d) for d in x.args)
                return isinstance(x, ast.Name) and x.id in params and x.id not in (va, kw)

            for n in own:
                if isinstance(n, ast.Assign) and len(n.targets) == 1 and isinstance(n.targets[0], ast.Name) and is_alias_expr(n.value):
                    if sum(1 for m in own if isinstance(m, ast.Name) and m.id == n.targets[0].id and isinstance(m.ctx, ast.Store)) == 1:
                        params = params | {n.targets[0].id}
            # locals derived structurally from a parameter
            derived = set()
            changed = True
            while changed:
                changed = False
                for n in own:
                    tgt, src = None, None
                    if isinstance(n, ast.For):
                        tgt, src = n.target, n.iter
                    elif isinstance(n, ast.Assign) and len(n.targets) == 1:
                        tgt, src = n.targets[0], n.value
                    if tgt is None:
                        continue
                    srcs = [src]
                    if isinstance(src, ast.Call) and isinstance(src.func, ast.Name) and src.func.id in ("zip", "enumerate", "getattr", "reversed", "iter"):
                        srcs = list(src.args)
                    good = any((isinstance(s, ast.Name) and (s.id in params or s.id in derived)) or _derived_from_param(s, params, derived) for s in srcs)
                    if good:
                        for t in ast.walk(tgt):
                            if isinstance(t, ast.Name) and t.id not in derived and t.id not in params:
                                derived.add(t.id)
                                changed = True
            calls = [n for n in own if isinstance(n, ast.Call) and graph.resolve_dotted(graph.dotted_of(f.mod, n.func, f.locals) or "") in comp]
            calls.sort(key=lambda n: (n.lineno, n.col_offset))
            for i, c in enumerate(calls):
                callee = graph.resolve_dotted(graph.dotted_of(f.mod, c.func, f.locals)).split(":")[-1]
                site = "%s->%s#%d" % (f.qual, callee, i)
                name = "recursion.decreases@%s" % site
                how = decl.get("sites", {}).get(site)
                if how is None:
                    obs.append((name, None, "recursive call site %s (line %d) is not covered by the declared measure" % (site, c.lineno)))
                elif how == "structural":
                    args = list(c.args) + [k.value for k in c.keywords]
                    ok = bool(args) and any(_derived_from_param(x, params, derived) for x in args)
                    obs.append((name, ok, "argument is a proper sub-structure of a parameter (measure: %s)" % decl["measure"] if ok
                                else "call at line %d no longer passes a proper sub-structure of a parameter: %s" % (c.lineno, ast.unparse(c)[:120])))
                else:
                    assumed.append("recursion %s: measure '%s' NOT discharged (%s) — backed only by the bounded watchdog" % (site, decl["measure"], how))
            # references that are not direct calls (map(f, ...), partial(f)) keep the component recursive too
            mentions = [n for n in own if isinstance(n, (ast.Name, ast.Attribute)) and not any(n is c.func for c in calls)
                        and graph.resolve_dotted(graph.dotted_of(f.mod, n, f.locals) or "") in comp]
            mentions = [m for m in mentions if not isinstance(m.ctx, ast.Store)]
            for i, m in enumerate(sorted(mentions, key=lambda n: (n.lineno, n.col_offset))):
                callee = graph.resolve_dotted(graph.dotted_of(f.mod, m, f.locals)).split(":")[-1]
                site = "%s~>%s#%d" % (f.qual, callee, i)
                how = decl.get("sites", {}).get(site)
                if how is None:
                    obs.append(("recursion.decreases@%s" % site, None, "indirect recursive reference %s (line %d) is not covered by the declared measure" % (site, m.lineno)))
                elif how == "structural-map":
                    ok, why = _map_partial_site(m, _parents(f.node), f, graph.funcs[graph.resolve_dotted(graph.dotted_of(f.mod, m, f.locals))])
                    obs.append(("recursion.decreases@%s" % site, ok, ("map(partial(f, **kw), P): every recursive call receives one ELEMENT of the parameter P as P (measure: %s)" % decl["measure"]) if ok else why))
                else:
                    assumed.append("recursion %s: measure '%s' NOT discharged (%s) — backed only by the bounded watchdog" % (site, decl["measure"], how))
    return obs, assumed

"""
E5 — termination rules (DESIGN.md §2.5): while-loop inventory, finite-iterable and no-growth rules
for every `for` / comprehension, and a declared measure per recursive component of the call graph.
"""

import ast

from . import extract

INFINITE = {"itertools.count", "itertools.cycle", "itertools.repeat"}
BOUNDERS = {"itertools.islice", "zip", "itertools.takewhile", "next", "itertools.zip_longest_NOT"}
GROWERS = frozenset("append extend insert add update setdefault appendleft".split())


def _parents(tree):
    par = {}
    for n in ast.walk(tree):
        for ch in ast.iter_child_nodes(n):
            par[id(ch)] = n
    return par


def while_loops(graph):
    """[(func id, loop key, lineno)] for every while loop of the package"""
    out = []
    for fid, f in sorted(graph.funcs.items()):
        if f.qual == "<module>":
            body = [n for n in ast.iter_child_nodes(f.node) if not isinstance(n, (ast.FunctionDef, ast.AsyncFunctionDef, ast.ClassDef))]
        else:
            body = list(ast.iter_child_nodes(f.node))
        work = list(body)
        while work:
            n = work.pop()
            if isinstance(n, (ast.FunctionDef, ast.AsyncFunctionDef)) and n is not f.node:
                continue  # own Func
            if isinstance(n, ast.While):
                out.append((fid, "while@" + ast.unparse(n.test), n.lineno))
            work.extend(ast.iter_child_nodes(n))
    return sorted(out)


def _callee_name(graph, f, call):
    d = graph.dotted_of(f.mod, call.func, f.locals) if isinstance(call.func, (ast.Name, ast.Attribute)) else None
    return d


def iterable_obligations(graph):
    """
    -> list of (name, ok, detail).  One obligation per infinite-source site (must be bounded by
    islice / zip-with-finite / takewhile / next) and one per loop whose body could grow the collection
    it iterates.
    """
    obs = []
    for fid, f in sorted(graph.funcs.items()):
        par = _parents(f.node)
        own = _own_nodes(f)
        # --- infinite sources
        for n in own:
            if not isinstance(n, ast.Call):
                continue
            d = _callee_name(graph, f, n)
            inf = d in INFINITE and not (d == "itertools.repeat" and (len(n.args) > 1 or any(k.arg == "times" for k in n.keywords)))
            if d == "iter" and len(n.args) == 2:
                inf = True
            if not inf:
                continue
            name = "iterable.bounded@%s:%s#%s" % (fid, d, _ordinal(own, n))
            p = par.get(id(n))
            ok, why = False, "infinite iterator %s at line %d is consumed unboundedly" % (d, n.lineno)
            if isinstance(p, ast.Call) and _callee_name(graph, f, p) in BOUNDERS and (
                _callee_name(graph, f, p) != "zip" or len(p.args) >= 2
            ):
                ok, why = True, "directly under %s" % _callee_name(graph, f, p)
            elif (isinstance(p, ast.Assign) and len(p.targets) == 1 and isinstance(p.targets[0], ast.Name)) or (
                isinstance(p, ast.AnnAssign) and isinstance(p.target, ast.Name)
            ):
                var = p.targets[0].id if isinstance(p, ast.Assign) else p.target.id
                uses = [m for m in own if isinstance(m, ast.Name) and m.id == var and isinstance(m.ctx, ast.Load)]
                bad = []
                for u in uses:
                    pu = par.get(id(u))
                    if not (isinstance(pu, ast.Call) and u in pu.args and _callee_name(graph, f, pu) in BOUNDERS and (_callee_name(graph, f, pu) != "zip" or len(pu.args) >= 2)):
                        bad.append(u.lineno)
                ok = not bad
                why = "bound to `%s`, every use is an argument of next/zip/islice/takewhile" % var if ok else "`%s` used unboundedly at lines %s" % (var, bad)
            obs.append((name, ok, why))
        # --- growth of the iterated collection
        for n in own:
            if isinstance(n, (ast.For, ast.AsyncFor)):
                base = n.iter
                if isinstance(base, ast.Call) and isinstance(base.func, ast.Attribute) and base.func.attr in ("items", "keys", "values") and not base.args:
                    base = base.func.value
                if isinstance(base, ast.Call) and isinstance(base.func, ast.Name) and base.func.id in ("enumerate", "reversed", "iter") and base.args:
                    base = base.args[0]
                if not isinstance(base, ast.Name):
                    continue
                var = base.id
                grow = []
                for b in n.body:
                    for m in ast.walk(b):
                        if isinstance(m, ast.Call) and isinstance(m.func, ast.Attribute) and isinstance(m.func.value, ast.Name) and m.func.value.id == var and m.func.attr in GROWERS:
                            grow.append(m.lineno)
                        elif isinstance(m, ast.AugAssign) and isinstance(m.target, ast.Name) and m.target.id == var:
                            grow.append(m.lineno)
                if grow:
                    obs.append(("iterable.no-growth@%s:for %s#%s" % (fid, var, _ordinal(own, n)), False,
                                "loop at line %d iterates `%s` and its body grows it at lines %s" % (n.lineno, var, grow)))
    return obs


def _own_nodes(f):
    """AST nodes belonging to this Func (nested defs excluded; they are their own Func)"""
    out = []
    work = [f.node]
    first = True
    while work:
        n = work.pop()
        if not first and isinstance(n, (ast.FunctionDef, ast.AsyncFunctionDef)):
            continue
        first = False
        out.append(n)
        work.extend(reversed(list(ast.iter_child_nodes(n))))
    return out


def _ordinal(own, node):
    same = [m for m in own if type(m) is type(node) and ast.dump(m) == ast.dump(node)]
    same.sort(key=lambda m: (getattr(m, "lineno", 0), getattr(m, "col_offset", 0)))
    return same.index(node) if node in same else 0


def _derived_from_param(expr, params, derived):
    """
    Is `expr` a *proper* sub-structure of a parameter?  (attribute / subscript / element of it, or
    a local that was bound by iterating over / getattr of a parameter)
    """
    if isinstance(expr, (ast.Attribute, ast.Subscript)):
        b = expr.value
        while isinstance(b, (ast.Attribute, ast.Subscript)):
            b = b.value
        return isinstance(b, ast.Name) and (b.id in params or b.id in derived)
    if isinstance(expr, ast.Name):
        return expr.id in derived
    return False


def _base_name(expr):
    b = expr
    while isinstance(b, (ast.Attribute, ast.Subscript)):
        b = b.value
    return b.id if isinstance(b, ast.Name) else None


def _stores_of(own, name):
    return [n for n in own if isinstance(n, ast.Name) and n.id == name and isinstance(n.ctx, (ast.Store, ast.Del))]


def _isinstance_types(test, name):
    """`isinstance(name, T)` / `isinstance(name, (T1, T2))` -> set of type texts, else None"""
    if isinstance(test, ast.Call) and isinstance(test.func, ast.Name) and test.func.id == "isinstance" and len(test.args) == 2 \
            and isinstance(test.args[0], ast.Name) and test.args[0].id == name:
        t = test.args[1]
        return {ast.unparse(e) for e in t.elts} if isinstance(t, ast.Tuple) else {ast.unparse(t)}
    return None


def _rebinding_excluded_at(f, own, param, call, skip=None):
    """-> (ok, text).  See the `structural-guarded` site kind.  `skip`: the aliasing first binding of a local that stands for a parameter"""
    par = _parents(f.node)
    stores = [s_ for s_ in _stores_of(own, param) if skip is None or s_ is not skip.targets[0]]
    if not stores:
        return True, "never re-bound"
    # G = isinstance(param, T), bound exactly once, before any re-binding of param
    flags = {}
    for n in own:
        if isinstance(n, (ast.Assign, ast.AnnAssign)):
            tgt = n.targets[0] if isinstance(n, ast.Assign) and len(n.targets) == 1 else getattr(n, "target", None)
            if isinstance(tgt, ast.Name) and n.value is not None:
                ts = _isinstance_types(n.value, param)
                if ts is not None and len(_stores_of(own, tgt.id)) == 1 and all(n.lineno < s_.lineno for s_ in stores):
                    flags[tgt.id] = ts
    if not flags:
        return False, "`%s` is re-bound (line %s) and no flag `G = isinstance(%s, ...)` is bound once before that" % (param, [s_.lineno for s_ in stores], param)
    covered = None
    for s_ in stores:
        up, ok_here = par.get(id(s_)), None
        while up is not None and up is not f.node:
            if isinstance(up, ast.If) and isinstance(up.test, ast.UnaryOp) and isinstance(up.test.op, ast.Not) and isinstance(up.test.operand, ast.Name) \
                    and up.test.operand.id in flags and any(s_ in list(ast.walk(b)) for b in up.body):
                ok_here = flags[up.test.operand.id]
                break
            up = par.get(id(up))
        if ok_here is None:
            return False, "the re-binding of `%s` at line %d is not under `if not <isinstance flag>:`" % (param, s_.lineno)
        covered = ok_here if covered is None else (covered & ok_here)
    # the call's branch: an enclosing if / elif whose test is isinstance(param, U), U within every flag's T, with the call in its body
    up = par.get(id(call))
    while up is not None and up is not f.node:
        if isinstance(up, ast.If) and any(call in list(ast.walk(b)) for b in up.body):
            us = _isinstance_types(up.test, param)
            if us is not None and us <= covered:
                return True, "re-bound only under `not isinstance(%s, %s)`, called under isinstance(%s, %s)" % (param, sorted(covered), param, sorted(us))
        up = par.get(id(up))
    return False, "the call is not under `isinstance(%s, U)` with U among %s" % (param, sorted(covered or ()))


def _map_partial_site(m, par, f, callee):
    """
    `map(partial(F, **kw), P or <empty>)` where F is the recursive callee, P is an (unre-bound so far) parameter of the
    enclosing function and also the name of F's first positional parameter, which no keyword of the partial binds:
    each call F(x) gets an element x of P in the place of P  ->  (ok, why-not)
    """
    up = par.get(id(m))
    if not (isinstance(up, ast.Call) and ast.unparse(up.func) in ("partial", "functools.partial") and len(up.args) == 1 and up.args[0] is m):
        return False, "line %d: the reference is not the sole positional argument of partial(...)" % m.lineno
    ca = callee.node.args
    pos = [x.arg for x in ca.posonlyargs + ca.args]
    if not pos:
        return False, "callee has no positional parameter"
    first = pos[0]
    if any(k.arg is None or k.arg == first for k in up.keywords):
        return False, "line %d: partial(...) binds `%s` (or passes **kwargs), so the mapped element is not the measured argument" % (m.lineno, first)
    up2 = par.get(id(up))
    if not (isinstance(up2, ast.Call) and isinstance(up2.func, ast.Name) and up2.func.id == "map" and len(up2.args) == 2 and up2.args[0] is up and not up2.keywords):
        return False, "line %d: partial(...) is not the function argument of a two-argument map(...)" % m.lineno
    it = up2.args[1]
    if isinstance(it, ast.BoolOp) and isinstance(it.op, ast.Or) and all(ast.unparse(v) in ("iter(())", "()", "[]", "tuple()") for v in it.values[1:]):
        it = it.values[0]
    a = f.node.args
    fparams = {x.arg for x in a.posonlyargs + a.args + a.kwonlyargs}
    if not (isinstance(it, ast.Name) and it.id == first and it.id in fparams):
        return False, "line %d: the mapped iterable `%s` is not the parameter `%s`" % (m.lineno, ast.unparse(it)[:40], first)
    rebound = [n.lineno for n in _own_nodes(f) if isinstance(n, ast.Name) and n.id == first and isinstance(n.ctx, ast.Store) and n.lineno <= m.lineno]
    if rebound:
        return False, "`%s` is re-bound (line %s) before the mapped call at line %d" % (first, rebound, m.lineno)
    return True, ""


def recursion_obligations(graph, measures):
    """
    measures: {frozenset(component ids) or single id: {"measure": text, "sites": {"callee@ordinal": "structural"|"assumed: why"}}}
    -> (obligations [(name, ok, detail)], assumed [text])
    """
    obs, assumed = [], []
    for comp in graph.sccs():
        key = "+".join(c.split(":")[-1] for c in comp)
        decl = measures.get(key)
        if decl is None:
            obs.append(("recursion.measure@%s" % key, None, "recursive component %s has no declared measure in the sidecar" % comp))
            continue
        for fid in comp:
            f = graph.funcs[fid]
            own = _own_nodes(f)
            a = f.node.args
            params = {x.arg for x in a.posonlyargs + a.args + a.kwonlyargs} | ({a.vararg.arg} if a.vararg else set())
            # aliases of a parameter: x = args[0] if args else kwargs.get("a", kwargs.get("b"))
            va, kw = (a.vararg.arg if a.vararg else None), (a.kwarg.arg if a.kwarg else None)

            def is_alias_expr(x):
                if isinstance(x, ast.IfExp):
                    return is_alias_expr(x.body) and is_alias_expr(x.orelse)
                if isinstance(x, ast.Subscript) and isinstance(x.value, ast.Name) and x.value.id in (va, kw):
                    return True
                if isinstance(x, ast.Call) and isinstance(x.func, ast.Attribute) and x.func.attr == "get" and isinstance(x.func.value, ast.Name) and x.func.value.id == kw:
                    return all(isinstance(d, ast.Constant) or is_alias_expr(d) for d in x.args)
                return isinstance(x, ast.Name) and x.id in params and x.id not in (va, kw)

            for n in own:
                if isinstance(n, ast.Assign) and len(n.targets) == 1 and isinstance(n.targets[0], ast.Name) and is_alias_expr(n.value):
                    if sum(1 for m in own if isinstance(m, ast.Name) and m.id == n.targets[0].id and isinstance(m.ctx, ast.Store)) == 1:
                        params = params | {n.targets[0].id}
            # locals derived structurally from a parameter
            derived = set()
            changed = True
            while changed:
                changed = False
                for n in own:
                    tgt, src = None, None
                    if isinstance(n, ast.For):
                        tgt, src = n.target, n.iter
                    elif isinstance(n, ast.Assign) and len(n.targets) == 1:
                        tgt, src = n.targets[0], n.value
                    if tgt is None:
                        continue
                    srcs = [src]
                    if isinstance(src, ast.Call) and isinstance(src.func, ast.Name) and src.func.id in ("zip", "enumerate", "getattr", "reversed", "iter"):
                        srcs = list(src.args)
                    good = any((isinstance(s, ast.Name) and (s.id in params or s.id in derived)) or _derived_from_param(s, params, derived) for s in srcs)
                    if good:
                        for t in ast.walk(tgt):
                            if isinstance(t, ast.Name) and t.id not in derived and t.id not in params:
                                derived.add(t.id)
                                changed = True
            calls = [n for n in own if isinstance(n, ast.Call) and graph.resolve_dotted(graph.dotted_of(f.mod, n.func, f.locals) or "") in comp]
            calls.sort(key=lambda n: (n.lineno, n.col_offset))
            for i, c in enumerate(calls):
                callee = graph.resolve_dotted(graph.dotted_of(f.mod, c.func, f.locals)).split(":")[-1]
                site = "%s->%s#%d" % (f.qual, callee, i)
                name = "recursion.decreases@%s" % site
                how = decl.get("sites", {}).get(site)
                if how is None:
                    obs.append((name, None, "recursive call site %s (line %d) is not covered by the declared measure" % (site, c.lineno)))
                elif how == "structural":
                    args = list(c.args) + [k.value for k in c.keywords]
                    good = [x for x in args if _derived_from_param(x, params, derived)]
                    # the parameter the argument descends from still holds the caller's argument: it is never re-bound
                    rebound = sorted({_base_name(x) for x in good if _base_name(x) in params and _stores_of(own, _base_name(x))})
                    good = [x for x in good if _base_name(x) not in rebound]
                    ok = bool(good)
                    obs.append((name, ok, "argument is a proper sub-structure of a parameter that is never re-bound (measure: %s)" % decl["measure"] if ok
                                else ("call at line %d passes a sub-structure of %s, which is re-bound in the function: %s" % (c.lineno, rebound, ast.unparse(c)[:120]) if rebound
                                      else "call at line %d no longer passes a proper sub-structure of a parameter: %s" % (c.lineno, ast.unparse(c)[:120]))))
                elif how == "structural-guarded":
                    # the parameter IS re-bound somewhere, but only under `if not G:` with G = isinstance(param, (T...)) bound once, while
                    # the call sits under `isinstance(param, (U...))` with U a subset of T: at the call the parameter is the argument
                    args = list(c.args) + [k.value for k in c.keywords]
                    # a local whose FIRST binding aliases a parameter (node = args[0] if args else kwargs.get(...)) stands for it
                    alias_first = {}
                    for n in sorted((n for n in own if isinstance(n, ast.Assign) and len(n.targets) == 1 and isinstance(n.targets[0], ast.Name)), key=lambda n: n.lineno):
                        if n.targets[0].id not in alias_first:
                            alias_first[n.targets[0].id] = n if is_alias_expr(n.value) else None
                    params_g = params | {k_ for k_, v_ in alias_first.items() if v_ is not None and all(s_.lineno >= v_.lineno for s_ in _stores_of(own, k_))}
                    good = [x for x in args if _derived_from_param(x, params_g, derived) and _base_name(x) in params_g]
                    ok, why = False, "no argument is a sub-structure of a parameter"
                    for x in good:
                        ok, why = _rebinding_excluded_at(f, own, _base_name(x), c, skip=alias_first.get(_base_name(x)))
                        if ok:
                            break
                    # (a guard shape that is no longer recognised is not evidence of non-termination: undecided, not refuted)
                    obs.append((name, True if ok else None, ("argument is a proper sub-structure of the parameter; its only re-binding is under a guard that excludes this call's branch (%s; measure: %s)" % (why, decl["measure"])) if ok
                                else "call at line %d: %s" % (c.lineno, why)))
                else:
                    assumed.append("recursion %s: measure '%s' NOT discharged (%s) — backed only by the bounded watchdog" % (site, decl["measure"], how))
            # references that are not direct calls (map(f, ...), partial(f)) keep the component recursive too
            mentions = [n for n in own if isinstance(n, (ast.Name, ast.Attribute)) and not any(n is c.func for c in calls)
                        and graph.resolve_dotted(graph.dotted_of(f.mod, n, f.locals) or "") in comp]
            mentions = [m for m in mentions if not isinstance(m.ctx, ast.Store)]
            for i, m in enumerate(sorted(mentions, key=lambda n: (n.lineno, n.col_offset))):
                callee = graph.resolve_dotted(graph.dotted_of(f.mod, m, f.locals)).split(":")[-1]
                site = "%s~>%s#%d" % (f.qual, callee, i)
                how = decl.get("sites", {}).get(site)
                if how is None:
                    obs.append(("recursion.decreases@%s" % site, None, "indirect recursive reference %s (line %d) is not covered by the declared measure" % (site, m.lineno)))
                elif how == "structural-map":
                    ok, why = _map_partial_site(m, _parents(f.node), f, graph.funcs[graph.resolve_dotted(graph.dotted_of(f.mod, m, f.locals))])
                    obs.append(("recursion.decreases@%s" % site, ok, ("map(partial(f, **kw), P): every recursive call receives one ELEMENT of the parameter P as P (measure: %s)" % decl["measure"]) if ok else why))
                else:
                    assumed.append("recursion %s: measure '%s' NOT discharged (%s) — backed only by the bounded watchdog" % (site, decl["measure"], how))
    return obs, assumed

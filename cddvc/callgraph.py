"""
Import-aware static call graph of the `cdd` package (shared by E2 effects, E5 termination, E4).

Over-approximating: any *reference* (call or mention, so `map(f, …)` and `partial(f)` count) to a
name that resolves to a repo function is an edge; a method call `x.m(...)` that cannot be resolved
goes to every repo method named `m`.  Built from /repo's current source on every run.
"""

import ast
import os

from . import extract


class Func(object):
    def __init__(self, mod, qual, node, cls=None):
        self.mod, self.qual, self.node, self.cls = mod, qual, node, cls
        self.id = "%s:%s" % (mod, qual)
        self.edges = set()  # ids of repo functions referenced
        self.ext = []  # (dotted external name, ast.Call node or None, lineno)
        self.locals = set()

    def __repr__(self):
        return self.id


class Graph(object):
    def __init__(self, include_tests=False):
        self.mods = {}  # modname -> (tree, src, path)
        self.funcs = {}  # id -> Func
        self.by_mod_name = {}  # (mod, top-level name) -> id
        self.methods = {}  # method name -> [ids]
        self.imports = {}  # modname -> {local name: dotted target}
        self.module_level = {}  # modname -> Func for module-level code ("<module>")
        for m in extract.package_modules(include_tests):
            self.mods[m] = extract.module_ast(m)
        for m in self.mods:
            self._collect(m)
        for m in self.mods:
            self._imports(m)
        for f in list(self.funcs.values()):
            self._edges(f)

    # ------------------------------------------------------------ collection

    def _collect(self, mod):
        tree = self.mods[mod][0]
        top = Func(mod, "<module>", tree)
        self.funcs[top.id] = top
        self.module_level[mod] = top

        def walk(node, prefix, cls):
            for ch in ast.iter_child_nodes(node):
                if isinstance(ch, (ast.FunctionDef, ast.AsyncFunctionDef)):
                    q = prefix + ch.name
                    f = Func(mod, q, ch, cls)
                    self.funcs[f.id] = f
                    if not prefix:
                        self.by_mod_name[(mod, ch.name)] = f.id
                    if cls is not None:
                        self.methods.setdefault(ch.name, []).append(f.id)
                    walk(ch, q + ".", None)
                elif isinstance(ch, ast.ClassDef):
                    if not prefix:
                        self.by_mod_name[(mod, ch.name)] = "%s:%s" % (mod, ch.name)
                    walk(ch, prefix + ch.name + ".", prefix + ch.name)
                else:
                    walk(ch, prefix, cls)

        walk(tree, "", None)

    def _imports(self, mod):
        tab = {}
        tree = self.mods[mod][0]
        pkg = mod if self.mods[mod][2].endswith("__init__.py") else mod.rpartition(".")[0]
        for n in ast.walk(tree):
            if isinstance(n, ast.Import):
                for a in n.names:
                    if a.asname:
                        tab[a.asname] = a.name
                    else:
                        tab[a.name.split(".")[0]] = a.name.split(".")[0]
            elif isinstance(n, ast.ImportFrom):
                base = n.module or ""
                if n.level:
                    parts = pkg.split(".")
                    parts = parts[: len(parts) - (n.level - 1)]
                    base = ".".join(parts + ([n.module] if n.module else []))
                for a in n.names:
                    tab[a.asname or a.name] = base + "." + a.name
        self.imports[mod] = tab

    # ------------------------------------------------------------ resolution

    def resolve_dotted(self, dotted):
        """dotted name -> repo function id / class id, or None"""
        parts = dotted.split(".")
        for i in range(len(parts), 0, -1):
            m = ".".join(parts[:i])
            if m in self.mods:
                rest = parts[i:]
                if not rest:
                    return None
                if (m, rest[0]) in self.by_mod_name:
                    tid = self.by_mod_name[(m, rest[0])]
                    if len(rest) > 1:
                        cand = "%s:%s" % (m, ".".join(rest))
                        return cand if cand in self.funcs else tid
                    return tid
                # re-exported name: follow the import table of m
                t = self.imports.get(m, {}).get(rest[0])
                if t and t != dotted:
                    return self.resolve_dotted(".".join([t] + rest[1:]))
                return None
        return None

    def dotted_of(self, mod, expr, locals_):
        """Name / Attribute chain -> fully dotted external or repo name (or None)"""
        parts = []
        n = expr
        while isinstance(n, ast.Attribute):
            parts.append(n.attr)
            n = n.value
        if not isinstance(n, ast.Name):
            return None
        if n.id in locals_:
            return None
        base = self.imports[mod].get(n.id)
        if base is None:
            if (mod, n.id) in self.by_mod_name:
                base = mod + "." + n.id
            else:
                base = n.id if not parts else None
                if base is None:
                    return None
        return ".".join([base] + list(reversed(parts)))

    def _edges(self, f):
        node = f.node
        # local names (params, assigned) shadow globals
        loc = set()
        if not isinstance(node, ast.Module):
            a = node.args
            for x in a.posonlyargs + a.args + a.kwonlyargs:
                loc.add(x.arg)
            if a.vararg:
                loc.add(a.vararg.arg)
            if a.kwarg:
                loc.add(a.kwarg.arg)
        body_nodes = []

        def gather(n, top=True):
            for ch in ast.iter_child_nodes(n):
                if isinstance(ch, (ast.FunctionDef, ast.AsyncFunctionDef, ast.ClassDef)) :
                    if isinstance(node, ast.Module) :
                        # module-level code: decorators, defaults and class bodies run at import
                        if isinstance(ch, ast.ClassDef):
                            for d in ch.decorator_list + ch.bases:
                                body_nodes.append(d)
                            gather(ch, False)
                        else:
                            for d in ch.decorator_list + ch.args.defaults + [x for x in ch.args.kw_defaults if x]:
                                body_nodes.append(d)
                        continue
                    # nested def: separate Func, but referenced -> edge via its name
                    loc.add(ch.name)
                    nid = "%s:%s.%s" % (f.mod, f.qual, ch.name)
                    if nid in self.funcs:
                        f.edges.add(nid)  # over-approximate: defining == may call
                    continue
                body_nodes.append(ch)
                gather(ch, False)

        gather(node)
        for n in body_nodes:
            if isinstance(n, ast.Name) and isinstance(n.ctx, ast.Store) and not isinstance(node, ast.Module):
                loc.add(n.id)
            elif isinstance(n, ast.arg):
                loc.add(n.arg)  # lambda / comprehension parameters
        f.locals = loc
        seen_attr = set()
        for n in body_nodes:
            if isinstance(n, ast.Attribute):
                if id(n) in seen_attr:
                    continue
                # mark inner attributes of this chain as seen
                m = n.value
                while isinstance(m, ast.Attribute):
                    seen_attr.add(id(m))
                    m = m.value
                d = self.dotted_of(f.mod, n, loc)
                if d is not None:
                    t = self.resolve_dotted(d)
                    if t is not None:
                        if t in self.funcs:
                            f.edges.add(t)
                        else:
                            self._class_edges(f, t)
                    else:
                        f.ext.append((d, n, getattr(n, "lineno", 0)))
                else:
                    # unresolved method call x.m(...): every repo method named m
                    for tid in self.methods.get(n.attr, ()):
                        f.edges.add(tid)
            elif isinstance(n, ast.Name) and isinstance(n.ctx, ast.Load):
                if n.id in loc:
                    continue
                d = self.dotted_of(f.mod, n, loc)
                if d is None:
                    continue
                t = self.resolve_dotted(d)
                if t is not None:
                    if t in self.funcs:
                        f.edges.add(t)
                    else:
                        self._class_edges(f, t)
                else:
                    f.ext.append((d, n, getattr(n, "lineno", 0)))

    def _class_edges(self, f, cid):
        """Reference to a repo class: instantiating it may run any of its methods"""
        mod, cname = cid.split(":")
        for fid in self.funcs:
            if fid.startswith(cid + "."):
                f.edges.add(fid)

    # ------------------------------------------------------------ queries

    def reachable(self, roots):
        seen, work = set(), list(roots)
        while work:
            x = work.pop()
            if x in seen or x not in self.funcs:
                continue
            seen.add(x)
            work.extend(self.funcs[x].edges)
        return seen

    def sccs(self):
        """Tarjan; returns list of components (lists of ids) that are recursive"""
        index, low, on, stack, out = {}, {}, set(), [], []
        counter = [0]
        import sys

        sys.setrecursionlimit(10000)

        def strong(v):
            index[v] = low[v] = counter[0]
            counter[0] += 1
            stack.append(v)
            on.add(v)
            for w in self.funcs[v].edges:
                if w not in self.funcs:
                    continue
                if w not in index:
                    strong(w)
                    low[v] = min(low[v], low[w])
                elif w in on:
                    low[v] = min(low[v], index[w])
            if low[v] == index[v]:
                comp = []
                while True:
                    w = stack.pop()
                    on.discard(w)
                    comp.append(w)
                    if w == v:
                        break
                if len(comp) > 1 or v in self.funcs[v].edges:
                    out.append(sorted(comp))

        for v in sorted(self.funcs):
            if v not in index:
                strong(v)
        return sorted(out)

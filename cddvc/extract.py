"""
Mechanical extraction of the functions under contract from /repo's *current* source.

Nothing is transcribed: the verifier works on the `ast.FunctionDef` node obtained by
`ast.parse` of the real file, on every run.  What the extraction drops (and reports):
docstring `Expr`, annotations (`x: T = e` is read as `x = e`), comments, decorators
(checked separately against an expected list).
"""

import ast
import hashlib
import os

REPO = os.environ.get("CDD_REPO", "/repo")

_cache = {}


def module_path(modname):
    """cdd.shared.cst_utils -> /repo/cdd/shared/cst_utils.py (or package __init__)"""
    root = REPO if modname.split(".")[0] == "cdd" else os.path.dirname(os.path.dirname(os.path.abspath(__file__)))
    base = os.path.join(root, *modname.split("."))
    if os.path.isfile(base + ".py"):
        return base + ".py"
    return os.path.join(base, "__init__.py")


def module_ast(modname):
    """Parse the module's current source (cached per process)"""
    if modname not in _cache:
        p = module_path(modname)
        with open(p, "rt", encoding="utf-8") as f:
            src = f.read()
        _cache[modname] = (ast.parse(src, filename=p), src, p)
    return _cache[modname]


def _split_qualpath(qualpath):
    """Dotted path whose parts may be `<lambda a, b~marker text>` (the marker may itself contain dots)"""
    parts, cur, depth = [], "", 0
    for ch in qualpath:
        if ch == "<":
            depth += 1
        elif ch == ">":
            depth -= 1
        if ch == "." and depth == 0:
            parts.append(cur)
            cur = ""
        else:
            cur += ch
    parts.append(cur)
    return parts


def find_def(modname, qualpath):
    """
    Find a (possibly nested) def / class by dotted path inside a module.

    :return: (node, source_segment, filename)
    """
    tree, src, p = module_ast(modname)
    node = tree
    for part in _split_qualpath(qualpath):
        found = None
        if part.startswith("<lambda "):
            # `<lambda ARGS~MARKER>`: the one lambda with exactly these parameter names whose body mentions MARKER, turned
            # mechanically into `def _lambda(ARGS): return <body>` (nothing dropped: a lambda IS its return expression)
            spec = part[len("<lambda "):-1]
            argnames, _sep, marker = spec.partition("~")
            want = [a_.strip() for a_ in argnames.split(",") if a_.strip()]
            cands = [l for l in ast.walk(node) if isinstance(l, ast.Lambda) and [a_.arg for a_ in l.args.args] == want and not l.args.vararg and not l.args.kwarg
                     and not l.args.kwonlyargs and not l.args.posonlyargs and marker in ast.unparse(l.body)]
            # keep only the innermost candidates (a lambda that contains another candidate is not the one meant)
            cands = [l for l in cands if not any(m is not l and any(x is m for x in ast.walk(l)) for m in cands)]
            if len(cands) != 1:
                return None, None, p
            lam = cands[0]
            fd = ast.FunctionDef(name="_lambda", args=lam.args, body=[ast.Return(value=lam.body)], decorator_list=[], returns=None, type_comment=None, type_params=[])
            ast.copy_location(fd, lam)
            ast.copy_location(fd.body[0], lam.body)
            ast.fix_missing_locations(fd)
            node = fd
            continue
        # search this node's body first, then any nested statement (ifs, etc.)
        for child in ast.walk(node):
            if child is node:
                continue
            if (
                isinstance(child, (ast.FunctionDef, ast.AsyncFunctionDef, ast.ClassDef))
                and child.name == part
            ):
                found = child
                break
        if found is None:
            return None, None, p
        node = found
    return node, ast.get_source_segment(src, node), p


def describe(modname, qualpath):
    """Evidence record for one function under contract"""
    node, seg, p = find_def(modname, qualpath)
    if node is None:
        return {"function": "%s:%s" % (modname, qualpath), "file": p, "missing": True}
    has_doc = (
        bool(node.body)
        and isinstance(node.body[0], ast.Expr)
        and isinstance(getattr(node.body[0], "value", None), ast.Constant)
        and isinstance(node.body[0].value.value, str)
    )
    n_ann = sum(isinstance(n, ast.AnnAssign) for n in ast.walk(node)) + sum(
        1
        for n in ast.walk(node)
        if isinstance(n, ast.arg) and n.annotation is not None
    )
    return {
        "function": "%s:%s" % (modname, qualpath),
        "file": os.path.relpath(p, REPO) if p.startswith(REPO) else "(verif) " + os.path.relpath(p, os.path.dirname(os.path.dirname(os.path.abspath(__file__)))),
        "lines": [node.lineno, node.end_lineno],
        "sha256": hashlib.sha256(seg.encode("utf-8")).hexdigest(),
        "dropped": {
            "docstring": has_doc,
            "annotations": n_ann,
            "decorators": [ast.unparse(d) for d in getattr(node, "decorator_list", [])],
            "comments": "all (not part of the AST)",
        },
    }


def strip_docstring(body):
    """Function body without its docstring statement"""
    if (
        body
        and isinstance(body[0], ast.Expr)
        and isinstance(getattr(body[0], "value", None), ast.Constant)
        and isinstance(body[0].value.value, str)
    ):
        return body[1:]
    return body


def package_modules(include_tests=False):
    """All module names of the `cdd` package found on disk under REPO"""
    out = []
    root = os.path.join(REPO, "cdd")
    for d, dirs, files in os.walk(root):
        dirs.sort()
        rel = os.path.relpath(d, REPO).split(os.sep)
        if "__pycache__" in rel:
            continue
        if not include_tests and "tests" in rel:
            continue
        for f in sorted(files):
            if f.endswith(".py"):
                parts = rel + [f[:-3]]
                if parts[-1] == "__init__":
                    parts = parts[:-1]
                out.append(".".join(parts))
    return sorted(out)

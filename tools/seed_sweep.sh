#!/bin/bash
# Run every quick check on the unchanged tree under several VERIF_SEED values (the harness exports VERIF_SEED=1):
# a finding pattern or baseline that only fits seed 0 shows up here as a non-zero exit.  Evidence goes to a temp dir.
cd /verif
T=$(mktemp -d)
for seed in ${@:-1 2 3 4 5}; do
  for id in $(python3 -c "import json; print(' '.join(c['property_id'] for c in json.load(open('MANIFEST.json'))['checks']))"); do
    ( VERIF_SEED=$seed VERIF_EVIDENCE_DIR=$T/$seed$id VERIF_REPLAY_DIR=$T ./check $id > $T/s${seed}_$id.log 2>&1; rc=$?
      if [ $rc -ne 0 ]; then echo "seed=$seed $id exit=$rc $(grep -m1 '^VIOLATION\|^UNDECIDED\|^ENGINE' $T/s${seed}_$id.log | cut -c1-200)"; fi ) &
    while [ $(jobs -r | wc -l) -ge 4 ]; do sleep 1; done
  done
  wait
  echo "seed $seed done"
done
rm -rf $T

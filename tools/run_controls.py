import sys, json
sys.path.insert(0,'/verif')
from checks import controls
r = controls.run_controls(sys.argv[1])
print(json.dumps(r, indent=1))

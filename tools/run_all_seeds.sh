#!/bin/bash
# Apply every seeded change in turn to /repo, run the check of its property (quick tier), revert; collect one JSON line per seed.
cd /verif
OUT=/verif/seeded/RESULTS.jsonl
: > $OUT
for d in seeded/C*_[a-z]; do
  S=$(basename $d); ID=${S%%_*}
  if [ -f $d/NEUTRALISED ]; then
    # a later fix: commit in /repo removed the defect this change relied on: it no longer breaks the property (its own demo passes)
    python3 -c "import json,sys; print(json.dumps({'seed':sys.argv[1],'property':sys.argv[2],'neutralised':open(sys.argv[3]).read().strip()[:200]}))" $S $ID $d/NEUTRALISED >> $OUT
    continue
  fi
  LOG=$(mktemp)
  tools/try_seed.sh $S $ID quick > $LOG 2>&1; RC=$?
  FIRST=$(grep -m1 "^VIOLATION" $LOG | sed 's/.*obligation=//' | cut -c1-200)
  NV=$(grep -c "^VIOLATION" $LOG)
  DED=$(grep "^VIOLATION" $LOG | grep -vc "bounded\|/watchdog/")
  python3 - "$S" "$ID" "$RC" "$FIRST" "$NV" "$DED" >> $OUT <<'PY'
import json,sys
s,i,rc,first,nv,ded=sys.argv[1:7]
print(json.dumps({"seed":s,"property":i,"exit":int(rc),"violations":int(nv),"deductive_violations":int(ded),"first_obligation":first}))
PY
  rm -f $LOG
done
git -C /repo status --short | head -3

#!/bin/bash
# Rewrite baseline/raises.json: the evaluations of the bounded stand-ins that raise on the committed tree (both tiers).
# Run after every change of a stand-in's domain (and only on the unchanged tree).
cd /verif
python3 - <<'PY'
import json,os
p='/verif/baseline/raises.json'
d=json.load(open(p)) if os.path.exists(p) else {}
for k in ("C01","C02","C03","C04","C05","C08"): d.pop(k,None)
json.dump(d,open(p,'w'),indent=0,sort_keys=True)
PY
for id in C01 C02 C03 C04 C05 C08; do
  for tier in quick thorough; do
    VERIF_NO_CONTROLS=1 ./check $id --tier $tier --write-baseline > /dev/null 2>&1
  done
  echo "$id: $(python3 -c "import json;print(len(json.load(open('/verif/baseline/raises.json')).get('$id',[])))") raising evaluations in the baseline"
done

#!/usr/bin/env python3
"""tools/make_seed_prompt.py <ID> <worktree> : the prompt handed to a fresh sub-agent (property text + its own worktree +
the list of mechanisms earlier rounds already used, so that it goes somewhere new).  Nothing from /verif's checks is in it."""
import json, sys, glob, os, re
ID, WT = sys.argv[1], sys.argv[2]
prop = next(json.loads(l) for l in open('/verif/properties.jsonl') if json.loads(l)['id'] == ID)
text = "%s\n\n%s\n\nQuantified over: %s" % (prop['title'], prop['statement'], prop['quantifier']['text'])
t = open('/verif/tools/seed_prompt.tmpl').read()
t = t.replace('__WT__', WT).replace('__PROP__', text).replace('__ID__', ID)
# one change only
t = t.replace('produce TWO independent source changes, A and B,', 'produce ONE source change, A,')
t = t.replace('such that each change on its own BREAKS', 'such that the change BREAKS')
t = re.sub(r' A and B should be different in kind[^\n]*\n', ' The change is a small diff (roughly 1-15 changed lines).\n', t)
t = t.replace('For each change also write', 'Also write')
t = re.sub(r'   b/patch.diff, b/demo.py, b/meta.json   likewise for change B.\n', '', t)
t = t.replace('so A and B are independent, and leave', 'and leave')
t = t.replace('You MUST validate each change yourself', 'You MUST validate the change yourself')
t = t.replace('short summary of A and B', 'short summary of A')
avoid = []
for m in sorted(glob.glob('/verif/seeded/%s_*/meta.json' % ID)):
    d = json.load(open(m))
    b = d.get('breaks') or ''
    avoid.append('- ' + b[:260].replace('\n', ' '))
if avoid:
    t += ("\n\nMECHANISMS ALREADY USED (do NOT repeat these or close variants; pick a different function, a different "
          "mechanism and ideally a file none of these touch):\n" + "\n".join(avoid) + "\n")
print(t)

#!/bin/bash
# Run every registered quick check (in parallel groups) and print one line per check.
cd /verif
IDS=$(python3 -c "import json; print(' '.join(c['property_id'] for c in json.load(open('MANIFEST.json'))['checks']))")
mkdir -p /tmp/runall
for id in $IDS; do
  ( ./check $id > /tmp/runall/$id.log 2>&1; echo "$id exit=$? $(tail -1 /tmp/runall/$id.log | cut -c1-150)" ) &
  # limit parallelism: the checks themselves use all cores
  while [ $(jobs -r | wc -l) -ge 4 ]; do sleep 1; done
done
wait

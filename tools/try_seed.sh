#!/bin/sh
# tools/try_seed.sh <seed dir name, e.g. C09_a> [property id to check (default: from the name)] [tier]
# Applies the seeded change to /repo, runs the check, and reverts /repo straight afterwards.
S="$1"; ID="${2:-${S%%_*}}"; TIER="${3:-quick}"
P="/verif/seeded/$S/patch.diff"
git -C /repo diff --quiet || { echo "/repo is dirty; refusing"; exit 3; }
git -C /repo apply "$P" || exit 3
EV=$(mktemp -d)
VERIF_EVIDENCE_DIR="$EV" VERIF_REPLAY_DIR="$EV" VERIF_NO_CONTROLS=1 /verif/check "$ID" --tier "$TIER" > "$EV/out.txt" 2>&1; RC=$?
git -C /repo checkout -- .
echo "== seed $S checked by $ID ($TIER): exit $RC"
grep -E -A2 "^(VIOLATION|UNDECIDED|ENGINE-ERROR)" "$EV/out.txt" | grep -v "^--" | cut -c1-420 | head -12
grep -c "^KNOWN-FINDING" "$EV/out.txt" | sed 's/^/known-finding lines: /'
tail -1 "$EV/out.txt" | cut -c1-300
rm -rf "$EV"
exit $RC

#!/bin/bash
# Run the negative controls of every property that has them; one line per property.
cd /verif
for f in controls/C*.py; do
  id=$(basename $f .py)
  PYTHONPATH=/repo:/verif .venv/bin/python tools/run_controls.py $id 2>/dev/null | python3 -c "
import json,sys
r=json.load(sys.stdin); print('$id', r['applied'], 'applied', r['killed'], 'killed', 'SURVIVORS: %s' % [s['name'] for s in r['survivors']] if r['survivors'] else '', 'STALE: %s' % [s['name'] for s in r['stale']] if r['stale'] else '')"
done

#!/bin/sh
# tools/try_seed_copy.sh <seed dir name> [property id] [tier] : like try_seed.sh, but on a scratch worktree (COPY, default
# /tmp/devcopy) instead of /repo itself -- for use while /repo is busy.  The registered results (seeded/RESULTS.jsonl) still
# come from try_seed.sh on /repo.
S="$1"; ID="${2:-${S%%_*}}"; TIER="${3:-quick}"; COPY="${COPY:-/tmp/devcopy}"
P="/verif/seeded/$S/patch.diff"
git -C "$COPY" apply "$P" || exit 3
EV=$(mktemp -d)
CDD_REPO="$COPY" VERIF_EVIDENCE_DIR="$EV" VERIF_REPLAY_DIR="$EV" VERIF_NO_CONTROLS=1 /verif/check "$ID" --tier "$TIER" > "$EV/out.txt" 2>&1; RC=$?
git -C "$COPY" apply -R "$P"
echo "== seed $S checked by $ID ($TIER) on $COPY: exit $RC"
grep -E -A2 "^(VIOLATION|UNDECIDED|ENGINE-ERROR)" "$EV/out.txt" | grep -v "^--" | cut -c1-420 | head -12
tail -1 "$EV/out.txt" | cut -c1-300
rm -rf "$EV"
exit $RC

#!/usr/bin/env python3
"""tools/dev_verify.py <contracts module, e.g. contracts.C01> [<substring of qual> ...] : verify single contracts and print every
obligation with its verdict (development aid; the registered checks do not use it)."""
import os, sys
sys.path.insert(0, "/verif")
sys.path.insert(0, os.environ.get("CDD_REPO", "/repo"))
import importlib
from cddvc import e1
from cddvc.solve import solve_smt2

mod = sys.argv[1]
C = importlib.import_module(mod)
for c in C.CONTRACTS:
    if c.trusted or (sys.argv[2:] and not any(a in c.qual for a in sys.argv[2:])):
        continue
    r = e1._verify_one((mod, c.qual, "DEV", 10000))
    print("==", c.qual, "| out_of_subset:", r["out_of_subset"], "| error:", r["error"])
    for o in r["obligations"]:
        if o["status"] is None:
            o["status"], o["backend"], o["time"], o["model"] = solve_smt2((o["smt2"], 10000))
        print("  %-60s %-10s %-8s %.2fs  path %s  %s" % (o["name"][-60:], o["status"], str(o["backend"])[:8], o["time"] or 0, " ".join(o["trace"])[-60:], [n for n in (o["notes"] or []) if "imprecise" in str(n)][:1]))
        if o["status"] == "refuted":
            print("     model:", str(o["model"])[:600])
    print("  covers:", r["covers"])
    for a in r["abstracted"] + r["unsupported"]:
        print("   ~", a[:160])

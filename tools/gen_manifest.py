#!/usr/bin/env python3
"""Regenerate /verif/MANIFEST.json from the table below (kept in one place so it stays valid)."""
import json, os

HERE = os.path.dirname(os.path.dirname(os.path.abspath(__file__)))
props = [json.loads(l) for l in open(os.path.join(HERE, "properties.jsonl"))]

CHECKS = {
    "C09": dict(
        category="proof", design_ref="DESIGN.md §5 C09, §2.1",
        technique="contract-based deductive verification: sidecar contracts on the real cst functions, VCs generated from the ast of /repo's current source (cddvc E1), discharged by z3/cvc5",
        text="Every obligation of the contracts on cst_scan, cst_scanner, infer_cst_type, cst_parse_one_node (body and set_prev_node wrapper), cst_parser and cst_parse is discharged for all strings and all iterations: "
             "joined(node values) == source (with total correctness for the helper get_construct_name: for every tuple of strings no subscript is out of range, which discharges the 'total function' assumption of its caller); first node starts at line 1; every node starts where the previous ended; a node spans exactly count('\\n') lines. Unbounded proof; the enumeration over short strings and repo files is a cross-check only.",
        note="Trusted: the E1 VC generator and its model of Python (DESIGN §3), z3/cvc5, the abstract list views, stdlib specs for ''.join / str.strip / str.count / deque(map(..),maxlen=0) (listed in the evidence); classifier predicates are uninterpreted so the proof does not depend on them."),
    "C11": dict(
        category="proof", design_ref="DESIGN.md §5 C11, §2.5",
        technique="contract-based deductive verification: a variant per while loop proved loop-locally by the E1 VC generator + z3; rule engine for finite iterables and recursion measures over the import-aware call graph",
        text="Termination only (not the 'time proportional to input size' clause): each of the package's while loops has a sidecar variant proved >= 0 under the guard and strictly decreasing on every back edge from an arbitrary state; "
             "every infinite iterator is bounded; no loop grows what it iterates; every recursive component has a declared measure, structural call sites discharged, the others listed as NOT discharged and backed by the bounded watchdog only.",
        note="Assumed: stdlib/black/ast.parse terminate, AST inputs are finite trees, iterables from callers are finite, declared variable sorts are the run-time types; recursive call sites marked 'assumed' in contracts/C11.py are not proved."),
    "C17": dict(
        category="proof", design_ref="DESIGN.md §5 C17, §2.2",
        technique="contract-based verification by effect/frame analysis: closed inventory of exec (eval / exec / compile and the deserialisers pickle, marshal, shelve, dill, yaml.load ...) / import / spawn / network / write sites per entry point over the import-aware call graph (E2), flag-sensitive for --input-eval, plus a clean() refinement-type check on the single eval argument",
        text="For every parser, emitter, doctrans, sync, sync_properties and gen entry point, every reachable EXEC / dynamic-import / spawn / network / file-write site is in the declared inventory (a new or newly reachable site fails a named obligation); "
             "sync_properties cannot reach the eval of the input module unless input_eval; the one eval reachable from parsers receives only strings built from characters that passed the word_chars/separator filter and clean constants (no '(' , '_' , '=' , ':' , '@'). Holds for all inputs because the obligations never look at the input.",
        note="Assumed: call graph over-approximates real calls (dynamic dispatch of get_parser/get_emitter declared), primitive-effect tables complete, attribute access on stdlib modules/objects is side-effect free (the globals/locals visible at the eval site are checked, in a real interpreter, to be only modules, functions, classes, plain data and stdlib instances), third-party code (black) has no such effects."),
    "C20": dict(
        category="other", design_ref="DESIGN.md §5 C20, §2.2",
        technique="contract-based frame verification: flag-guard dominance (dry_run) over the call-graph closure of exmod (E2); an E1 contract on relative_filename (next(map(F, filter(P, xs)), D) idiom, z3 strings); remaining clauses by a bounded run of the real CLI with file-system snapshots",
        text="PROVED for all inputs (frame condition): no file-system write site in the call-graph closure of exmod is reachable when dry_run is true (one obligation per write site, flag followed through keyword/positional/partial passing, with cover obligations against vacuity); E1 contract on cdd.shared.pkg_utils:relative_filename (all strings): what it returns is a suffix of the file name it was given, so joining it to the output directory can never climb out with `..` segments (counter-models replayed on the real function from a deep working directory). "
             "BOUNDED, not proved: containment under the output directory, validity of generated files and their __all__, source package untouched, blacklist/whitelist — real CLI over a stated option matrix on a generated package. The generated package is exercised both installed in a venv and lying in a plain directory on PYTHONPATH. One known finding (output directory named 'gold').",
        note="Assumed: call graph over-approximates real calls; FS_WRITE primitive table complete. relative_filename: get_python_lib() returns some str (uninterpreted), str.casefold is an uninterpreted function. The path-confinement contract (emit_filename under output_directory) is NOT provable on the pinned tree: relative_filename returns absolute paths for non-installed packages, os.path.join then yields the source file, and the tree is safe only because the write is skipped when the file already defines the symbol (DESIGN §10.8)."),
    "C18": dict(
        category="proof", design_ref="DESIGN.md §5 C18, §2.3",
        technique="deductive check in an exact model of CPython's import protocol over the module-level statements of the real files (E3), one obligation per entry module and per first module of all ordered pairs; every verdict replayed in real fresh interpreters",
        text="In the import model every one of the non-test modules imports cleanly as the first import and every ordered pair imports in both orders with the same public names (89 + 89 obligations covering 89 + 7832 import sequences). "
             "Single-module imports are additionally replayed exhaustively in real interpreters on every run (the domain is finite, so that half of the property is decided completely); pairs by seeded sample (quick) or exhaustively (thorough).",
        note="The import model is trusted only as far as it agrees with the interpreter (disagreement = exit 3); environment fixed to this sandbox (optional third-party packages, Python 3.12 version flags)."),
    "C10": dict(
        category="proof", design_ref="DESIGN.md §5 C10, §2.4",
        technique="contract-based verification by a typing discipline: ghost type 'unordered' for set-valued expressions with one obligation per consumption site, plus cross-call-state frame rules (rule engine E4 over the ast of the whole package)",
        text="Every syntactically set-valued expression of the non-test package is consumed order-insensitively (membership, len, set algebra, sorted without a non-injective key, any/all/min/max, loops that only update pre-existing entries) and no function writes globals, module attributes, module-level objects, mutable defaults or caches of results that are not provably immutable, and no module-level container with nested mutable elements is handed out without a deep copy (nor a flat one passed to a callee that mutates that parameter); this implies independence from the hash seed and from call history for all inputs. "
             "The seed/history byte comparison is a bounded cross-check for what the syntactic typing cannot see.",
        note="Assumed: values whose type the rules cannot see are ordered; dict order is insertion order; black/ast.unparse deterministic; sets passed to repo callees are followed into the callee (parameters and instance attributes typed unordered, fixpoint), no assumed callee site remains; module-level mutable templates: only syntactic escapes are seen (a template aliased through a local first is not)."),
    "C15": dict(
        category="other", design_ref="DESIGN.md §5 C15",
        technique="contract-based deductive verification of the split / re-assembly functions (E1 VCs over Python slice semantics, z3 strings) for the mechanism lemmas; run-time contracts over an enumerated docstring domain for the relational remainder",
        text="PROVED for all strings: (1) in parse_docstring_into_header_args_footer the header, section and footer slices of the original concatenate to the original whenever token-start <= token-last (or either is absent), and the returned section is that slice unless the re-indent branch ran; (2) _get_token_start_idx returns an index in [-1, len]; (3) header_args_footer_to_str keeps the header as a prefix and the footer as a suffix, byte for byte; (4) in _get_token_start_idx, at the end of a line that starts with any ReST or Google section token (the property's list, not the code's table), every path returns the start of that line (must-return block contract), and conversely a line that starts with none of the property's tokens (nor a bare NumPy heading word) never ends the scan (must-not-return block); (5) the re-indent step of docstring.emit resumes at the line break that ends the first non-blank line or right after it, never later (block contract with an expression probe). "
             "BOUNDED only (not proved): token-start <= token-last between the two independent scanners, the returned triple, and that every header line survives conversion between the three styles (enumerated token strings and constructed docstrings). Two known findings (re-indented section; Raises: off-by-one).",
        note="Assumed contract: _get_token_last_idx returns >= -1 and is deterministic (checked at run time over the bounded domain). E1's Python-semantics model (DESIGN §3)."),
    "C06": dict(
        category="other", design_ref="DESIGN.md §5 C06",
        technique="contract-based deductive verification of param2json_schema_property (E1: record with presence bits, Seq view of `required`, z3), lifted to json_schema() for parameter lists of any length by a fold lemma (Lean 4 kernel) under fold-shape side conditions checked on the real ast; run-time contracts over IR(n) with the 2020-12 meta-schema as oracle for the rest",
        text="PROVED for all inputs: param2json_schema_property appends the name to `required` exactly when the type string does not start with 'Optional[', leaves `required` otherwise untouched (frame), turns a truthy doc into the description and never leaves a `typ` key; hence (Lean fold lemma required_is_filter + side conditions S1-S4 on json_schema(): fresh empty list, handed over only as the partial's keyword, mapped once over params.items() into dict(), same object emitted) the `required` list of the emitted schema is exactly the non-Optional parameter names in declaration order, for any number of parameters; on the parse side the set of names treated as required is the schema's own list, also when it is empty (rule S5, confirmed by a round-trip replay when it stops matching); Literal <-> pattern: the emitter joins the members with a one-character constant and the parser splits the pattern at the same constant into the members (rules S6 / S7), so by the Lean lemma pattern_roundtrip (List.splitOn_intercalate) any number of members none of which contains the separator come back as the same members. "
             "BOUNDED only: the whole-document clauses (required list of json_schema() in order, meta-schema validity, defaults validate against their property schema, Literal pattern accepts exactly the members, serialisable, parse-back equality) over the JSON-representable slice of IR(n), incl. Literal members with regular-expression metacharacters, the separator or a quote in them (three known findings: members are joined and quoted unescaped).",
        note="Assumed: dict(map(f, xs)) calls f once per item in order (CPython); the composition callee contract + fold lemma + S1-S4 is a paper step (each part machine-checked). jsonschema's Draft202012Validator is the oracle for validity."),
    "C16": dict(
        category="other", design_ref="DESIGN.md §5 C16",
        technique="contract-based deductive verification of the OpenAPI emitter core (E1 with a symbolic-key map / JSON-tree view, z3 strings): closure of $refs, verbs vs CRUD, declared path parameter, write frame; whole-document oracle over generated models for the bulk pipeline",
        text="PROVED for all names, routes, keys and CRUD strings: every $ref written by components_paths_from_name_model_route_id_crud resolves to a component written on the same path or to ServerError (which emit.openapi defines first: rule-engine side condition), the request body is defined iff 'C' is requested, POST/GET/DELETE appear exactly under their letters and on the right route, the item route exists when only CRUD letters are given and declares its path parameter, and nothing else is written. "
             "BOUNDED only: openapi_bulk, gen_routes/upsert_routes and the bottle route parser, JSON serialisability, 'routes fed back describe the same model'. One known finding (multi-word model names).",
        note="Assumed: the model's JSON-schema carries no $ref; frozenset(a)-frozenset(b) modelled by an uninterpreted subset predicate; induction over the list of models in emit.openapi is argued from the frame + closure lemma (DESIGN §5 C16), with its side condition checked syntactically."),
    "C13": dict(
        category="other", design_ref="DESIGN.md §5 C13",
        technique="contract-based deductive verification of a block contract (E1: access paths on uninterpreted AST objects, Seq views, z3) on the default-alignment arithmetic of RewriteAtQuery.visit_FunctionDef; whole-file AST diff over generated module pairs for the rest",
        text="PROVED for all signatures: if sync_properties overwrites a default value it is the default of the target parameter itself (index + (len(args) - len(defaults)) == position, with the self/cls offset), never another parameter's, and that block leaves the parameter list alone; side conditions on annotate_ancestry's numbering and on the idx lookup are discharged syntactically; shape rule on it2literal (one Literal member per element of the evaluated value, in order; reported only when a replay on the real function confirms it). The original defect (fixed by 7adde57) is exactly a refutation of this lemma. "
             "BOUNDED only: every other clause (nothing else in the file changes, input untouched, name/annotation/wrap/Literal taken over), over generated module pairs, several calls per process.",
        note="The frame lemma over the args/kwonlyargs replacement loop promised in DESIGN (Seq with a quantified invariant) was not carried; it is covered only by the bounded AST diff."),
    "C07": dict(
        category="other", design_ref="DESIGN.md §5 C07",
        technique="contract-based deductive verification: block contracts on the header splice of maybe_replace_function_args (E1 over the real statements, exact str.find/rfind as word equations, z3 + cvc5, counter-models replayed by CPython on the same statements), an E1 contract on find_cst_at_ast, and write-frame / statement-order rules over the real ast of doctrans / ast_cst_utils composed with C09's proved tiling contract; the property's own oracle on generated modules for the rest",
        text="PROVED (frame lemmas, all inputs): doctrans opens the file for writing exactly once, as its last statement, with nothing that can raise in repo code after the truncating open and the payload being the concatenation of the CST node values (so an error leaves the file intact); under doctransify_cst the only CST slots ever stored to are cst_idx (the def header) and cst_idx+1, the latter only when it is a docstring node or as an insertion. With C09 this yields: lines that are not definition headers or docstrings are byte-identical. PROVED (E1 contracts on the nested helpers of maybe_replace_function_return_type, all strings): removing the return type of `H -> A :` yields rstrip(H) + ':' whatever A contains (colons, parentheses), adding one to `H :` keeps H as a prefix and the colon as the end. PROVED (block contracts, all header strings of the shape `head ( plist ) ws [-> ann] :` with no parenthesis/colon in ws and no arrow/colon in ann): the re-rendered header keeps everything up to and including the opening parenthesis and everything from the parenthesis that closes the parameter list (blanks, return annotation — which may contain parentheses — and colon), and the slot keeps its name and line span. "
             "BOUNDED only: that the re-rendered header and docstring keep the program (AST equality modulo docstrings/annotations/type comments), comments, validity — over generated modules. One known finding (comment inside a multi-line header).",
        note="Assumed: CST node values are str; an arrow is in the header text iff new_node.returns is set (established by maybe_replace_function_return_type, which runs first; exercised by the stand-in, not proved); sequential composition of the four block contracts is the standard Hoare rule (blocks are contiguous by construction). Decorated definitions whose decorator has parentheses are outside the header-shape precondition."),
    "C19": dict(
        category="other", design_ref="DESIGN.md §5 C19",
        technique="contract-based deductive verification of ensure_valid_identifier (E1: regular-expression membership for the identifier alphabet, z3) plus dominance / frame / shape rules over the real ast of __main__.main, gen, gen_file, gen_module, get_emit_kwarg and get_functions_and_classes; bounded run of gen and of the CLI for the rest",
        text="PROVED (rule engine, all inputs): the call gen(**args_dict) in main is dominated by the exists-and-phase-0 guard with nothing in between; gen and gen_file never rebind output_filename, so the path appended to (mode 'a') is the very string the guard tested; get_functions_and_classes adds name_tpl.format(name=name) to __all__ exactly once per input item, in order, and returns one element per item; the emitted symbol is named ensure_valid_identifier(name_tpl.format(name=name)) and (E1 contract, all strings) ensure_valid_identifier returns every non-empty ASCII identifier that is not a keyword and does not start with a digit unchanged, so the symbol's name IS the __all__ entry; in gen_module the only statement kept above the hoisted imports (`from __future__` first) is kept under ast.get_docstring(parsed_ast), i.e. is the module docstring (if the guard is anything else, the real gen is run on an expression-statement --prepend with a __future__ import and a violation is reported only when that output does not compile). "
             "BOUNDED only: the written module compiles, __all__ equals the defined template names, symbols parse back to their source interface, --prepend / --imports-from-file, and the CLI leaves an existing file untouched (plain, ./ and ~ spellings). One known finding (SQLAlchemy kinds: __all__ names undefined symbols).",
        note="Out of the bounded domain because they crash on the pinned tree: function and pydantic emit kinds through gen, --emit-and-infer-imports (stated in the evidence)."),
    "C01": dict(
        category="other", design_ref="DESIGN.md §5 C01/C08",
        technique="contract-based deductive verification of the quoting helpers and two lemmas over their contracts (E1 string VCs, z3); run-time round-trip contract over IR(n) for the property itself",
        text="PROVED (thin lemmas, all strings): quote, unquote and code_quoted meet exact functional contracts; unquote(quote(s)) == s for non-empty unquoted s; quote(quote(s)) == quote(s); marker-set lemma: the characters that make _parse_out_default_and_doc classify a typed default as a code expression never occur in repr() of an int, float, complex or bool (rule over the real frozenset constant), so no numeric default is code-quoted on the way back. "
             "BOUNDED only — this is where the property itself is decided, and only within the bound: pi(parse(emit(ir, style, flags))) == pi'(ir) on the real emitter/parser over the docstring-representable slice of IR(n) x 3 styles x emit_default_doc x emit_types, plus a ReST word-wrap sweep. Six known-finding classes on the pinned tree (None default, Google/NumPy return type, NumPy without types, negative int without types).",
        note="Assumed: CPython's repr() of numbers uses only the characters 0-9 . e + - i n f a j ( ) and the letters of True/False. No contract within reach of the engine carries the scanners/parsers (_scan_phase_*, _parse_phase_*, extract_default: casefold comparisons, literal_eval, ~600 lines of index arithmetic); the bounded part is a stand-in, not a proof."),
    "C02": dict(
        category="other", design_ref="DESIGN.md §5 C02",
        technique="contract-based deductive verification of a block contract on function.parse's defaults padding (E1: access paths through getattr/setattr, Seq views, z3); run-time round-trip contract over IR(n) for the property itself",
        text="PROVED (lemma, all signatures): after the padding block of function.parse every positional and keyword-only parameter has a default slot and the real defaults remain aligned with the LAST parameters (padding in front), the parameter lists untouched. "
             "BOUNDED only — the property itself: pi(parse_f(reparse(to_code(emit_f(ir))))) == norm_f(pi(ir)) with the documented normalisations, over IR(n) x {class, pydantic, function x annotations x kw-only, argparse} x 3 styles x emit_default_doc. Twelve known-finding classes on the pinned tree (argparse invents/drops defaults and collapses types; NumPy/Google docstrings inside emitted code lose descriptions; None default; negative int).",
        note="The zip-alignment lemma for function.emit promised in DESIGN was not carried (map/lambda pairs over the same tuple: outside the engine's subset)."),
    "C08": dict(
        category="other", design_ref="DESIGN.md §5 C01/C08",
        technique="contract-based deductive verification of set_default_doc (E1: record with presence bits, string VCs) and of the shared quoting lemmas; run-time fixpoint contract rt(rt(x)) == rt(x) over the wider IR(n) domain for the property itself",
        text="PROVED (lemma, all inputs): set_default_doc leaves a description alone when it already mentions 'Defaults'/'defaults', and whatever it appends starts with the old text and contains 'Defaults to' — so it never appends twice; quote is idempotent (contracts/C01.py); shape rule over both sites of the argparse help text (the emitter writes the description, at most word-wrapped, into help=, the parser reads it back with get_value only; when it stops matching, a violation is reported only if two rounds through the real functions then disagree). "
             "BOUNDED only — the property itself: three consecutive rounds agree after the first, over docstring / class / pydantic / function / argparse / json_schema / sqlalchemy x3 on the wider domain (trigger words, embedded default, ellipsis, '%' signs, non-suffix defaults for ReST). Four broad known-finding families on the pinned tree (trigger words drift in every format; Google/NumPy descriptions grow inside emitted code; None for missing defaults; argparse alternates).",
        note="The pinned tree violates this property broadly, so the known-finding families are wide; a new drift inside one of those families would be hidden."),
    "C14": dict(
        category="other", design_ref="DESIGN.md §5 C14",
        technique="contract-based deductive verification of _set_name_and_type (E1 string VCs, z3) for the name-sanitising clause and of column_call_to_param's keyword folding (E1 block contract, record with presence bits) for the allowed-keys clause; the property's postcondition well_formed_ir(result) as a run-time contract on the real parsers over generated inputs",
        text="PROVED (lemma, all names): the name returned by _set_name_and_type has no leading asterisk, is a suffix of the original and equals it when there was none. PROVED (block contract, all Column calls): after the keyword folding of column_call_to_param the entry has no `primary_key`, `foreign_key` or `nullable` key and still has its type; after the keyword folding of json_schema_property_to_param a non-empty `pattern` and the `description` keyword never survive as keys, and the type string written is json_type2typ of the schema's `type` (the real table), wrapped in Optional exactly when the name is not required. "
             "BOUNDED only — the postcondition itself: shape, allowed keys, parsable type strings, string descriptions, signature parameters present exactly once, on docstring / function / class (incl. merge_inner_function) / pydantic / argparse / json_schema / sqlalchemy parsers over grammar-generated docstrings, generated code and arbitrary token strings. Seven known-finding classes on the pinned tree (entry-keys findings name the leaked key).",
        note="The parsers themselves are outside the engine's reach; running the repository's own tests under the wrappers (planned in DESIGN) was not built."),
    "C03": dict(
        category="other", design_ref="DESIGN.md §5 C03",
        technique="lemma over the hop contracts proved in Lean 4 (closure + commutation for chains of any length); the hop contracts H1/H2 themselves checked as run-time contracts on the real emitters/parsers over conversion chains",
        text="PROVED (Lean kernel, no axioms): if every hop preserves the interface on a set E and E is closed under hops, then every chain of any length preserves it and any two chains commute. "
             "BOUNDED only: the hypotheses — every sequence of length <= 3 (sampled to 5) over {class, pydantic, function, argparse, docstring-rest} from the common-domain slice of IR(n), comparing names, order, types and defaults with the start. Unbounded in chain length, bounded in the start set. Three known-finding classes (starts with a missing, None or empty-string default).",
        note="The Lean statement is about an abstract hop function; that the real hops satisfy H1/H2 is only checked within the bound."),
    "C04": dict(
        category="other", design_ref="DESIGN.md §5 C04",
        technique="bounded run-time contract `exposes(exec(to_code(emit(ir))), ir)` with CPython / inspect.signature / argparse as the oracle; three shape contracts of the emitters (rule engine, confirmed by replay when they stop matching) and a frame lemma on set_default_doc (E1) are discharged deductively",
        text="NOT PROVED: the specification of this property is the interpreter itself, so no contract within reach of the deductive engine expresses it. Discharged deductively (rule engine): each of the class, function and argparse emitters builds exactly one element per entry of the parameter mapping, in order; set_default_doc, to which the class / pydantic emitters hand their own parameter dicts before emitting the values, writes nothing but the description (E1 frame lemma: default and typ untouched). "
             "BOUNDED — the only place the property is decided: the emitted source is compiled, executed and introspected (class attributes and annotations, inspect.signature, a populated ArgumentParser incl. choices/default/required/help and parse_args) over the executable slice of IR(n) x 3 emitters x 3 styles x emit_default_doc on/off. One known finding (int Literal choices without type=int).",
        note="Claimed as a bounded stand-in, not as a proof; listed here rather than under not_applicable because the stand-in is labelled and the shape contracts are real obligations."),
    "C05": dict(
        category="other", design_ref="DESIGN.md §5 C05",
        technique="contract-based deductive verification of a block contract on ensure_has_primary_key (E1: symbolic-key map whose unknown base entries are materialised on read, string VCs); run-time round-trip / agreement contract over IR(n) for the property itself",
        text="PROVED (lemma, all column sets): in the branch of ensure_has_primary_key taken when no column is marked '[PK]', exactly one column is written or updated and its description then starts with '[PK]' — so primary-key inference yields one key, never two. "
             "BOUNDED only — the property itself: each of the three variants parses back to the same columns (names, order, types, nullability, defaults, descriptions up to trailing full stops, [PK]/[FK] markers), the three agree, and every emission carries exactly one primary_key=True — over the SQL-representable slice of IR(n) x 3 styles x force_pk_id. One known finding (the public hybrid parser rejects the hybrid emission).",
        note="The bridge between the branch condition (a filter/map pipeline) and 'no column is marked' is an assumed idiom spec, listed in the evidence."),
    "C12": dict(
        category="other", design_ref="DESIGN.md §5 C12",
        technique="contract-based frame verification (write-frame, dominance and shape rules over the real ast of cdd/shared/conformance.py, confirmed by replay when they stop matching) plus an E1 block contract on cmp_ast, the comparison that decides whether a target is rewritten; the property's oracle through the real CLI on file triples and a differential oracle for cmp_ast for the rest",
        text="PROVED (thin frame lemmas, rule engine): _conform_filename writes only through emit.file.file on its own (normalised) filename; the in-place rewrite is dominated by `not cmp_ast(original, replacement)` and `rewrite_at_query.replaced`, so an already conforming target is not written; on cmp_ast's sequence branch two sequences are found equal only when they have the same length (E1 block contract: a strict prefix is different); ground_truth only reads the truth file and hands every listed file of every kind to _conform_filename. "
             "BOUNDED only — and mostly known findings on the pinned tree: that each target re-parses to the truth's interface, unrelated code survives, and a second run is byte-identical, over truth kind x initial state of the three targets (same / other / missing / empty), two runs each. Six known-finding classes (method and argparse targets are never replaced; missing method file crashes; empty/missing files are appended to on every run).",
        note="The repair of the findings is not small (RewriteAtQuery never replaces a FunctionDef node), so they are recorded, not fixed."),
}

NA_REASON = "not claimed"

m = {
    "version": 1,
    "setup_cmd": "sh ./setup.sh",
    "hooks": {
        "guard": "CDD_VERIF_CONTRACTS",
        "enable": "no source hooks in /repo: contracts are sidecar files under /verif/contracts keyed by qualified function name and loop; checks read /repo's working tree directly (PYTHONPATH=/repo)",
        "baseline_off_cmd": "cd /repo && /venv/bin/python -m pytest -q -p no:cacheprovider --timeout=900 --continue-on-collection-errors",
        "source_commits": [],
        "add_only": True,
    },
    "engines": [
        {"name": "cddvc-E1", "path": "cddvc/symexec.py", "serves_properties": sorted(CHECKS), "kind_free_text": "AST -> verification conditions (symbolic execution with contracts, loop invariants/variants, abstract list views) discharged by z3 5.1 / cvc5 / z3 4.8"},
        {"name": "cddvc-E2", "path": "cddvc/effects.py", "serves_properties": ["C17", "C20"], "kind_free_text": "effect / frame checker over the call graph, flag-guard dominance; cddvc/charset.py refinement check"},
        {"name": "cddvc-E3", "path": "cddvc/imports.py", "serves_properties": ["C18"], "kind_free_text": "import-protocol simulator over module-level statements + real-interpreter replay"},
        {"name": "cddvc-E4", "path": "cddvc/ordered.py", "serves_properties": ["C10"], "kind_free_text": "orderedness typing rules + cross-call-state rules"},
        {"name": "lean4", "path": "lean/C03.lean", "serves_properties": ["C03"], "kind_free_text": "Lean 4.33 kernel: chain closure lemma over the hop contracts"},
        {"name": "cddvc-E5", "path": "cddvc/termination.py", "serves_properties": ["C11"], "kind_free_text": "termination rules over the import-aware call graph (cddvc/callgraph.py)"},
    ],
    "checks": [],
    "notes": "All checks: ./check <ID> [--tier quick|thorough]; exit 0 held, 1 violation, 2 undecided, 3 engine error. See DESIGN.md (§10 is the as-built account). "
             "A failed SHAPE rule (rule-engine obligation over the ast) is a violation only when the clause it carries then fails on the real code for a targeted input; otherwise it is undecided (exit 2). "
             "A contract that mentions a name the source no longer binds does not attach: undecided, never a refutation. "
             "The thorough tier also runs the negative controls (must be killed) and benign controls (must stay quiet) of controls/<ID>.py when the run itself is clean.",
    "not_applicable": [],
}
for p in props:
    pid = p["id"]
    c = CHECKS.get(pid)
    if c is None:
        m["not_applicable"].append({"property_id": pid, "reason": NA_REASON})
        continue
    m["checks"].append({
        "property_id": pid,
        "quick_cmd": "./check %s --tier quick" % pid,
        "thorough_cmd": "./check %s --tier thorough" % pid,
        "evidence_file": "evidence/%s.json" % pid,
        "replay_cmd_template": "./check %s --replay {path}" % pid,
        "engine": "cddvc-E1",
        "level_claimed": {"category": c["category"], "text": c["text"], "design_ref": c["design_ref"]},
        "level_note": c["note"],
        "technique": c["technique"],
    })
json.dump(m, open(os.path.join(HERE, "MANIFEST.json"), "wt"), indent=1)
print("checks:", [c["property_id"] for c in m["checks"]], "n/a:", len(m["not_applicable"]))

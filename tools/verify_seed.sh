#!/bin/sh
# tools/verify_seed.sh <ID> <variant a|b> : confirm a sub-agent's seeded change in a fresh scratch worktree,
# then store it under /verif/seeded/<ID>_<variant>/ .  Nothing is ever applied to /repo here.
ID="$1"; V="$2"; SRC="${SEEDROOT:-/tmp/seed}/$ID/_out/$V"; WT="/tmp/sv_${ID}_$V"; OUT="/verif/seeded/${ID}_${DESTV:-$V}"
[ -f "$SRC/patch.diff" ] || { echo "$ID $V: no patch"; exit 2; }
git -C /repo worktree remove --force "$WT" >/dev/null 2>&1
git -C /repo worktree add -q --detach "$WT" HEAD || exit 2
cd "$WT" || exit 2
mkdir -p _out/$V && cp "$SRC/demo.py" _out/$V/demo.py
PYTHONPATH="$WT" /venv/bin/python _out/$V/demo.py >/tmp/sv_${ID}_$V.clean.log 2>&1; CLEAN=$?
git apply "$SRC/patch.diff" || { echo "$ID $V: patch does not apply"; cd /; git -C /repo worktree remove --force "$WT"; exit 2; }
PYTHONPATH="$WT" /venv/bin/python _out/$V/demo.py >/tmp/sv_${ID}_$V.patched.log 2>&1; PATCHED=$?
TESTS=$(PYTHONPATH="$WT" /venv/bin/python -m pytest -q -p no:cacheprovider --timeout=900 --continue-on-collection-errors 2>&1 | tail -1)
cd /; git -C /repo worktree remove --force "$WT"
echo "$ID $V: demo clean=$CLEAN patched=$PATCHED tests='$TESTS'"
case "$TESTS" in *"9 failed, 352 passed"*) ;; *) echo "$ID $V: REJECTED (suite changed)"; exit 1;; esac
[ "$CLEAN" = 0 ] && [ "$PATCHED" != 0 ] || { echo "$ID $V: REJECTED (demo)"; exit 1; }
mkdir -p "$OUT" && cp "$SRC/patch.diff" "$SRC/demo.py" "$OUT/" && cp "$SRC/meta.json" "$OUT/agent_meta.json"
echo "$ID $V: CONFIRMED -> $OUT"

"""
C07 — doctrans changes only docstrings and annotations, never the program.

Deciding steps (frame lemmas, rule engine over the real ast; all inputs):
  L1  doctrans.doctrans has exactly one write-open of `filename`; it is the last statement; nothing that can
      raise in repo code runs after the file has been opened for writing (so an error leaves the file intact);
      the payload is the concatenation of the CST node values;
  L2  the only stores into `cst_list` anywhere under doctransify_cst are at `cst_idx` (the def header slot) and
      `cst_idx + 1`, the latter only under `existing_doc_str` (replace / delete) or as an insertion when there is
      no docstring; find_cst_at_ast and doctransify_cst never store into it.
  L3  (E1, z3) find_cst_at_ast returns either None or the element at the returned index, whose name is the AST node's
      name and whose CST type is the one ast2cst maps the AST type to; it only reads the list.
  With C09 (node values tile the file) this gives: every line that is not a definition header or a docstring is
  byte-identical.
Bounded (stand-in, NOT proved): AST equality modulo docstrings/annotations, comments, validity, byte-identical
other lines, atomicity on error — on generated modules.
"""

import ast
import io
import itertools
import json
import os
import tempfile
import tokenize

from cddvc import e1, extract
from cddvc.report import PROVED, REFUTED, UNDECIDED, Run, compare_baseline
from checks import common

A = "cdd.shared.ast_cst_utils"


def _stores(fn, name):
    """All mutations of list `name` inside fn: [(kind, index-text or method, node)]"""
    out = []
    for n in ast.walk(fn):
        if isinstance(n, ast.Subscript) and isinstance(n.value, ast.Name) and n.value.id == name and isinstance(n.ctx, (ast.Store, ast.Del)):
            out.append(("del" if isinstance(n.ctx, ast.Del) else "store", ast.unparse(n.slice), n))
        elif isinstance(n, ast.Call) and isinstance(n.func, ast.Attribute) and isinstance(n.func.value, ast.Name) and n.func.value.id == name \
                and n.func.attr in ("append", "extend", "insert", "pop", "remove", "clear", "sort", "reverse", "__setitem__", "__delitem__"):
            out.append((n.func.attr, ast.unparse(n.args[0]) if n.args else "", n))
        elif isinstance(n, (ast.AugAssign,)) and isinstance(n.target, ast.Name) and n.target.id == name:
            out.append(("augassign", "", n))
    return out


def _guards(fn, node):
    """Conditions (as text, with polarity) of the If statements enclosing `node`"""
    res = []

    def walk(stmts, conds):
        for s in stmts:
            if any(x is node for x in ast.walk(s)):
                if isinstance(s, ast.If):
                    if any(x is node for b in s.body for x in ast.walk(b)):
                        walk(s.body, conds + [ast.unparse(s.test)])
                    else:
                        walk(s.orelse, conds + ["not (%s)" % ast.unparse(s.test)])
                elif hasattr(s, "body") and isinstance(s.body, list):
                    walk(s.body + getattr(s, "orelse", []), conds)
                else:
                    res.extend(conds)
                    res.append("<here>")
                return
    walk(fn.body, [])
    return res


def frame_obligations():
    obs = []
    # ---- L1
    f, _s, _p = extract.find_def("cdd.compound.doctrans", "doctrans")
    if f is None:
        return [("doctrans/present", None, "function not found")]
    opens = [n for n in ast.walk(f) if isinstance(n, ast.Call) and isinstance(n.func, ast.Name) and n.func.id == "open"]
    wopens = [n for n in opens if len(n.args) > 1 and not (isinstance(n.args[1], ast.Constant) and n.args[1].value in ("rt", "r", "rb"))]
    ok = len(wopens) == 1 and ast.unparse(wopens[0].args[0]) == "filename" and isinstance(wopens[0].args[1], ast.Constant) and wopens[0].args[1].value == "wt"
    obs.append(("doctrans/single-write-open-of-filename", ok, "exactly one open for writing, of `filename`, mode 'wt'" if ok else "write opens: %s" % [ast.unparse(n) for n in wopens]))
    last_ok, payload_ok, nothing_after = False, False, False
    if ok:
        # the with-statement holding the open is the last statement of every enclosing block
        chain = []

        def find(stmts):
            for i, s in enumerate(stmts):
                if isinstance(s, ast.With) and any(it.context_expr is wopens[0] for it in s.items):
                    chain.append((stmts, i, s))
                    return True
                for fld in ("body", "orelse"):
                    sub = getattr(s, fld, None)
                    if isinstance(sub, list) and sub and isinstance(sub[0], ast.stmt) and find(sub):
                        chain.append((stmts, i, s))
                        return True
            return False

        find(f.body)
        last_ok = bool(chain) and all(i == len(stmts) - 1 for stmts, i, _s2 in chain)
        w = chain[0][2] if chain else None
        if w is not None:
            body = w.body
            payload_ok = (len(body) == 1 and isinstance(body[0], ast.Expr) and isinstance(body[0].value, ast.Call)
                          and ast.unparse(body[0].value) == "f.write(''.join(map(attrgetter('value'), cst_list)))")
            calls = [c for c in ast.walk(w) if isinstance(c, ast.Call)]
            names = {ast.unparse(c.func) for c in calls}
            nothing_after = names <= {"open", "f.write", "''.join", "map", "attrgetter"}
    obs.append(("doctrans/write-is-last-statement", last_ok, "the with-open-for-writing is the last statement of every enclosing block: every repo call that can raise has returned before the file is truncated"))
    obs.append(("doctrans/payload-is-concatenation-of-cst-values", payload_ok, "the body of the with is exactly f.write(''.join(map(attrgetter('value'), cst_list)))"))
    obs.append(("doctrans/no-repo-call-after-open", nothing_after, "inside the with only open / f.write / ''.join / map / attrgetter are called"))
    # ---- L2
    allowed = {
        "maybe_replace_doc_str_in_function_or_class": {("insert", "cst_idx + 1"), ("del", "cst_idx + 1"), ("store", "cst_idx + 1")},
        "maybe_replace_function_return_type": {("store", "cst_idx")},
        "maybe_replace_function_args": {("store", "cst_idx")},
        "find_cst_at_ast": set(),
    }
    for name, allow in allowed.items():
        fn, _s, _p = extract.find_def(A, name)
        if fn is None:
            obs.append(("%s/present" % name, None, "function not found"))
            continue
        st = _stores(fn, "cst_list")
        bad = [(k, i, n.lineno) for k, i, n in st if (k, i) not in allow]
        obs.append(("%s/cst_list-write-frame" % name, not bad, "stores into cst_list are within %s" % sorted(allow) if not bad else "stores outside the frame: %s" % bad))
        # passing cst_list on to anything else would escape the frame
        esc = [ast.unparse(c.func) for c in ast.walk(fn) if isinstance(c, ast.Call) and any(isinstance(a, ast.Name) and a.id == "cst_list" for a in list(c.args) + [k.value for k in c.keywords])
               and ast.unparse(c.func) not in ("len", "enumerate")]
        obs.append(("%s/cst_list-not-passed-on" % name, not esc, "cst_list is handed to no other function" if not esc else "cst_list escapes to %s" % esc))
        if name == "maybe_replace_doc_str_in_function_or_class":
            good = True
            detail = []
            for k, i, n in st:
                g = _guards(fn, n)
                if k in ("del", "store") and not any(c.endswith("existing_doc_str") and not c.startswith("not (") and "not existing_doc_str" not in c.split(" and ")[-1:] for c in g):
                    good = False
                    detail.append("%s at line %d is not under `existing_doc_str` (guards %s)" % (k, n.lineno, g))
                if k == "insert" and not any("not existing_doc_str" in c for c in g):
                    good = False
                    detail.append("insert at line %d is not under `not existing_doc_str`" % n.lineno)
            defs = [n for n in ast.walk(fn) if isinstance(n, (ast.Assign, ast.AnnAssign)) and ast.unparse(getattr(n, "target", None) or n.targets[0]) == "existing_doc_str"]
            good = good and len(defs) == 1 and ast.unparse(defs[0].value) == "isinstance(cur_node_after_func, TripleQuoted) and cur_node_after_func.is_docstr"
            obs.append(("%s/slot+1-is-the-docstring-slot" % name, good, "cst_idx+1 is replaced / deleted only when it is a TripleQuoted docstring node, and inserted only when there is none" if good else "; ".join(detail) or "existing_doc_str is not the TripleQuoted-and-is_docstr test"))
    dz, _s, _p = extract.find_def("cdd.compound.doctrans_utils", "doctransify_cst")
    if dz is None:
        obs.append(("doctransify_cst/present", None, "function not found"))
    else:
        st = _stores(dz, "cst_list")
        obs.append(("doctransify_cst/no-direct-store", not st, "doctransify_cst itself never stores into cst_list" if not st else "direct stores: %s" % [(k, i) for k, i, _n in st]))
        callees = sorted({ast.unparse(c.func).split(".")[-1] for c in ast.walk(dz) if isinstance(c, ast.Call) and any(isinstance(a, ast.Name) and a.id == "cst_list" for a in c.args)})
        ok = set(callees) <= set(allowed)
        obs.append(("doctransify_cst/cst_list-only-to-framed-functions", ok, "cst_list is passed only to %s" % callees if ok else "cst_list is passed to %s" % callees))
    # ---- annotations written into a header are valid Python: to_annotation builds a Name from the type STRING only for the
    # members of simple_types (checked below to be identifiers); every other node it returns comes out of ast.parse, which
    # raises on prose such as `list of float` -- before doctrans opens the file (L1), so the file stays untouched
    ta, _s, _p = extract.find_def("cdd.shared.ast_utils", "to_annotation")
    ok = None
    detail = "to_annotation not found"
    if ta is not None:
        par = {}
        for n in ast.walk(ta):
            for ch in ast.iter_child_nodes(n):
                par[id(ch)] = n
        names = [c for c in ast.walk(ta) if isinstance(c, ast.Call) and ast.unparse(c.func) == "Name" and c.args and ast.unparse(c.args[0]) == "typ"]

        def guarded(c):
            ch, p_ = c, par.get(id(c))
            while p_ is not None:
                if isinstance(p_, ast.IfExp) and ch is p_.body and ast.unparse(p_.test) == "typ in simple_types":
                    return True
                if isinstance(p_, ast.If) and any(ch is b_ for b_ in p_.body) and ast.unparse(p_.test) == "typ in simple_types":
                    return True
                ch, p_ = p_, par.get(id(p_))
            return False

        handlers = [h for h in ast.walk(ta) if isinstance(h, ast.ExceptHandler)]
        ok = all(guarded(c) for c in names) and not handlers
        detail = ("every Name(typ, ...) in to_annotation is built under `typ in simple_types`, and no exception of ast.parse is swallowed" if ok
                  else "Name(typ, ...) outside `typ in simple_types`: %d of %d; exception handlers: %d" % (sum(1 for c in names if not guarded(c)), len(names), len(handlers)))
    obs.append(("to_annotation/a-Name-is-built-from-the-type-string-only-for-simple_types", ok, detail))
    try:
        import importlib
        import keyword

        st_ = importlib.import_module("cdd.shared.pure_utils").simple_types
        bad = sorted(repr(k) for k in st_ if k is not None and not (isinstance(k, str) and k.isidentifier() and not keyword.iskeyword(k)))
        obs.append(("simple_types/every-key-is-an-identifier", not bad, "the %d non-None keys of the real simple_types are identifiers" % (len(st_) - (None in st_)) if not bad else "keys that are not identifiers: %s" % bad))
    except Exception as ex:
        obs.append(("simple_types/every-key-is-an-identifier", None, "could not read the table: %s" % ex))
    return obs


# ---------------------------------------------------------------------------------------------- bounded

DOCS = {
    "rest": '    """\n    Summary of {n}\n\n    :param a: the a\n    :type a: ```int```\n\n    :param b: the b\n    :type b: ```str```\n\n    :return: the result\n    :rtype: ```int```\n    """\n',
    "google": '    """\n    Summary of {n}\n\n    Args:\n      a (int): the a\n      b (str): the b\n\n    Returns:\n      int: the result\n    """\n',
    "numpydoc": '    """\n    Summary of {n}\n\n    Parameters\n    ----------\n    a : int\n        the a\n    b : str\n        the b\n\n    Returns\n    -------\n    int\n        the result\n    """\n',
    "none": "",
    # types given as prose, which is not an expression: the conversion has to refuse (file untouched) or write valid Python
    "prose-google": '    """\n    Summary of {n}\n\n    Args:\n      a (list of float): the a\n      b (str): the b\n\n    Returns:\n      int: the result\n    """\n',
    "prose-rest": '    """\n    Summary of {n}\n\n    :param a: the a\n    :type a: ```list of str```\n\n    :param b: the b\n    :type b: ```str```\n\n    :return: the result\n    :rtype: ```int or None```\n    """\n',
    # a docstring that consists of type lines only (it becomes EMPTY once the types move into the header)
    "typesonly": '    """\n    :type a: ```int```\n\n    :type b: ```str```\n\n    :rtype: ```int```\n    """\n',
}
SIGS = [
    "(a, b='x')", "(a: int, b: str = 'x') -> int", "(a=1, *args, b=2, **kw)", "(a, /, b='q', *, c=3)", "(\n    a,  # first\n    b='x',\n)", "(a, b=(1, 2), *rest, flag=False, **extra)",
    # return annotations that contain parentheses / an arrow-like default (the header splice looks for ')' and '->')
    "(a, b='x') -> Tuple[()]", "(a, b='->')",
    # the conversion raises AFTER parsing on the pinned tree (header re-parse fails): the file must come out untouched
    "(key, default=None) -> \"Mapping[str: int]\"",
    # a return annotation that itself contains a colon (removed / replaced by the return-type splice)
    "(a, b=80) -> Literal[\"host:port\", \"host\"]",
]


def gen_module(style, sig, variant):
    doc = DOCS[style]
    parts = ["# leading comment\nimport os  # trailing comment\n\nCONST = 5  # keep me\n\n\n"]
    deco = "@staticmethod\n    " if variant == "method" else ""
    if variant == "stub":
        # interface-style definitions whose whole body is the docstring
        if not doc:
            return None
        parts.append("def func%s:\n%s\n\n" % (sig, doc.format(n="func")))
        parts.append("class Iface(object):\n    def meth%s:\n%s\n\n" % (sig.replace("(a", "(self, a", 1) if sig.startswith("(a") else sig, doc.replace("\n    ", "\n        ").replace('    """', '        """', 1).format(n="meth")))
    elif variant == "function":
        parts.append("def func%s:\n%s    x = a  # body comment\n    return 1\n\n\n" % (sig, doc.format(n="func")))
        parts.append("async def afunc%s:\n%s    return 2\n\n\n" % (sig, doc.format(n="afunc")))
    elif variant == "decorated":
        parts.append("import functools\n\n\n@functools.lru_cache(maxsize=None)\ndef func%s:\n%s    return 1\n\n\n" % (sig, doc.format(n="func")))
    elif variant == "method":
        ind = doc.replace("\n    ", "\n        ").replace('    """', '        """', 1) if doc else ""
        msig = sig.replace("(a", "(self, a", 1) if sig.startswith("(a") else sig.replace("(\n    a", "(\n    self,\n    a", 1)
        parts.append("class K(object):\n    \"\"\"\n    Class doc\n\n    :cvar z: the z\n    \"\"\"\n\n    z: int = 3  # attr comment\n\n    def meth%s:\n%s        return self.z\n\n\n" % (msig, ind.format(n="meth")))
    elif variant == "nested":
        ind = doc.replace("\n    ", "\n        ").replace('    """', '        """', 1) if doc else ""
        parts.append("def outer(q):\n    # comment in outer\n    def inner%s:\n%s        return 3\n\n    return inner\n\n\n" % (sig, ind.format(n="inner")))
    parts.append("if __name__ == '__main__':\n    print(CONST)  # tail\n")
    return "".join(parts)


def erase(tree):
    """AST with docstrings, annotations and type comments erased"""
    for n in ast.walk(tree):
        if isinstance(n, (ast.FunctionDef, ast.AsyncFunctionDef, ast.ClassDef, ast.Module)):
            if n.body and isinstance(n.body[0], ast.Expr) and isinstance(getattr(n.body[0], "value", None), ast.Constant) and isinstance(n.body[0].value.value, str):
                n.body = n.body[1:] or [ast.Pass()]
        if isinstance(n, (ast.FunctionDef, ast.AsyncFunctionDef)):
            n.returns = None
            n.type_comment = None
            for a in n.args.posonlyargs + n.args.args + n.args.kwonlyargs + [x for x in (n.args.vararg, n.args.kwarg) if x]:
                a.annotation = None
                a.type_comment = None
    class T(ast.NodeTransformer):
        def visit_AnnAssign(self, node):
            if node.value is None:
                return ast.Pass()
            return ast.copy_location(ast.Assign(targets=[node.target], value=node.value, type_comment=None), node)

        def visit_Assign(self, node):
            node.type_comment = None
            return node
    tree = T().visit(tree)
    for n in ast.walk(tree):
        if hasattr(n, "body") and isinstance(n.body, list) and len(n.body) > 1:
            n.body = [s for s in n.body if not isinstance(s, ast.Pass)] or [ast.Pass()]
    return ast.dump(tree)


def comments(src):
    try:
        return [t.string for t in tokenize.generate_tokens(io.StringIO(src).readline) if t.type == tokenize.COMMENT]
    except Exception:
        return None


def other_lines(src):
    """Lines that are neither a definition header nor part of a docstring"""
    tree = ast.parse(src)
    skip = set()
    for n in ast.walk(tree):
        if isinstance(n, (ast.FunctionDef, ast.AsyncFunctionDef, ast.ClassDef)):
            first = n.body[0]
            for ln in range(n.lineno, first.lineno):
                skip.add(ln)
            if isinstance(first, ast.Expr) and isinstance(getattr(first, "value", None), ast.Constant) and isinstance(first.value.value, str):
                for ln in range(first.lineno, first.end_lineno + 1):
                    skip.add(ln)
    return [l for i, l in enumerate(src.splitlines(True), 1) if i not in skip and l.strip()]


def is_subsequence(small, big):
    it = iter(big)
    return all(any(x == y for y in it) for x in small)


def one_case(case):
    import cdd.compound.doctrans as dt

    style, sig, variant, target, ann = case
    src = gen_module(style, sig, variant)
    if src is None:
        return None
    try:
        ast.parse(src)
    except SyntaxError:
        return None  # the generator produced an invalid combination
    tdir = tempfile.mkdtemp(prefix="cddvc_c07_")
    fn = os.path.join(tdir, "mod.py")
    with open(fn, "wb") as fh_:
        fh_.write(src.encode("utf-8"))
    import contextlib
    import shutil

    try:
        err = None
        try:
            with contextlib.redirect_stdout(io.StringIO()), contextlib.redirect_stderr(io.StringIO()):
                dt.doctrans(filename=fn, docstring_format=target, type_annotations=ann, no_word_wrap=None)
        except BaseException as ex:
            err = "%s: %s" % (type(ex).__name__, str(ex)[:120])
        out = open(fn, encoding="utf-8").read()
        stray = sorted(set(os.listdir(tdir)) - {"mod.py", "__pycache__"})
    finally:
        shutil.rmtree(tdir, ignore_errors=True)
    if stray:
        return ("stray-file", "doctrans left files it was not asked to write next to the module: %s" % stray)
    if err is not None:
        if out != src:
            return ("not-atomic", "doctrans raised (%s) and left the file changed (%d -> %d bytes)" % (err, len(src), len(out)))
        return ("raises", err)
    try:
        res = ast.parse(out)
    except SyntaxError as ex:
        return ("invalid-python", "output is not valid Python: %s\n%s" % (ex, out[:400]))
    if erase(ast.parse(src)) != erase(res):
        return ("program-changed", "the syntax tree differs beyond docstrings/annotations:\n--- before\n%s\n--- after\n%s" % (src[:500], out[:500]))
    if comments(src) != comments(out):
        return ("comments", "comments differ: %r vs %r" % (comments(src), comments(out)))
    if not is_subsequence(other_lines(src), out.splitlines(True)):
        missing = [l for l in other_lines(src) if l not in out.splitlines(True)]
        return ("other-lines", "lines outside headers/docstrings are not byte-identical, e.g. %r" % missing[:2])
    return None


def bounded(tier):
    cases = [c for c in itertools.product(DOCS, SIGS, ("function", "method", "nested", "decorated", "stub"), ("rest", "google", "numpydoc"), (True, False))
             if tier == "thorough" or (hash(repr(c[:3])) % 2 == 0 or c[2] == "function")]
    res = common.pmap(one_case, cases)
    fails, raised = {}, 0
    for c, r in zip(cases, res):
        if r is None:
            continue
        if r[0] == "raises":
            raised += 1
            continue
        fails.setdefault((r[0], c[2], SIGS.index(c[1])), (c, r[1]))
    return len(cases), raised, fails


def main(tier, write_baseline=False):
    run = Run("C07", tier, "other", checker_cmd=common.checker_cmd("C07", tier))
    run.trusted_base.update(["rule engine of checks/C07.py over the real ast (write-frame and statement-order rules)", "C09's proved contract: CST node values concatenate to the file and tile its lines"])
    run.trusted_base.add("cddvc E1 (Seq view of the CST list, uninterpreted attribute / type functions on CST nodes)")
    run.assumptions.add("CST node values are str (C09 contract for cst_parse; replacements are built by str.format), so ''.join cannot raise after the file was opened")
    refuted = []
    model_replays = {}
    for o in e1.run_contracts(run, "contracts.C07"):
        refuted.append((o["name"], "obligation refuted by %s on path %s" % (o["backend"], " ".join(o["trace"]))))
        # a refuted block obligation comes with a counter-model: run the real statements on it
        import contracts.C07 as C7
        from cddvc import replay_block
        c = next((c for c in C7.CONTRACTS if c.block is not None and "/%s/" % c.qual in o["name"]), None)
        if c is not None and o.get("model"):
            r = replay_block.replay(c, o["model"])
            if r and r.get("requires_hold") and (r.get("failed_ensures") or r.get("block_raised")):
                model_replays[o["name"]] = {"contract": c.qual, "counterexample replayed on the real statements (CPython)": r}
        cf = next((c for c in C7.CONTRACTS if c.block is None and "/%s/" % c.qual in o["name"]), None)
        if cf is not None and o.get("model"):
            r = replay_block.replay_function(cf, o["model"])
            if r and r.get("requires_hold") and r.get("failed_ensures"):
                model_replays[o["name"]] = {"contract": cf.qual, "counterexample replayed on the real function (CPython)": r}
    frame_refuted = []
    for name, ok, detail in frame_obligations():
        st = UNDECIDED if ok is None else (PROVED if ok else REFUTED)
        run.add("C07/frame/" + name, st, "rule-engine", detail=detail)
        if ok is False:
            frame_refuted.append(("C07/frame/" + name, detail))

    def frame_replay(_name):
        # the clauses the frame rules carry (file intact when the conversion raises, lines outside headers / docstrings
        # byte-identical, program unchanged), on the real doctrans over the quick corpus
        _n, _raised, fl = bounded("quick")
        for (kind, variant, si), (case, what) in fl.items():
            if run.match_finding({"kind": kind, "variant": variant, "signature": str(si), "obligation": "C07/bounded/%s" % kind}) is None:
                return {"case": list(case), "what": what[:400]}
        return None

    frame_refuted, frame_inputs = run.confirm_or_undecide(frame_refuted, frame_replay, is_rule=lambda n: True)
    refuted.extend(frame_refuted)
    run.samples = [{"obligation": n, "detail": o["detail"]} for n, o in list(run.obligations.items())[:5]]
    if write_baseline:
        common.write_baseline("C07", [n for n, o in run.obligations.items() if o["status"] == "proved"])
    compare_baseline(run, set(run.obligations))
    fails = {}
    if not os.environ.get("VERIF_NO_BOUNDED"):
        n, raised, fails = bounded(tier)
        run.bounded.append({
            "name": "the property's oracle on doctrans over generated modules (bounded, NOT counted as proved)",
            "bound": "%d runs: source style {rest, google, numpydoc, none, type-lines-only} x %d signatures (defaults, annotations, *args/**kw, positional-only, kw-only, multi-line header with comments) x {functions+async, method in class, nested def, call-decorated def, docstring-only stubs} x 3 target styles x annotations on/off (quick: seeded half); %d runs raised (file checked byte-identical)" % (n, len(SIGS), raised),
            "rule": "one doctrans run per combination; non-trivial = doctrans returns without raising",
            "evaluations": n, "distinct_nontrivial": n - raised,
            "failures": [{"kind": k[0], "variant": k[1], "what": v[1][:300], "case": list(v[0])} for k, v in list(fails.items())[:5]],
        })
    for name, detail in refuted:
        cand = next((v for k, v in fails.items() if k[0] in ("not-atomic", "other-lines", "program-changed")), None)
        fi = model_replays.get(name) or frame_inputs.get(name) or ({"case": list(cand[0]), "what": cand[1]} if cand else None)
        run.violation(name, detail, failing_input=fi, solver_output={"rule": detail})
    if not refuted:
        for (kind, variant, si), (case, what) in fails.items():
            run.violation("C07/bounded/%s" % kind, what, key={"kind": kind, "variant": variant, "signature": str(si)}, failing_input={"case": list(case)})
    common.apply_controls(run, tier)
    return run.finish(explanation="PROVED (frame lemmas, rule engine): single final write, nothing that can raise after the truncating open, only the def-header and docstring CST slots are ever written. "
                      "BOUNDED only: the re-rendered header text and docstring are correct (AST equality modulo docstrings/annotations, comments, validity).")


def replay(path):
    d = json.load(open(path))
    inp = (d.get("failing_input") or {}).get("case")
    print("replaying %s: obligation %s" % (path, d["failed_obligation"]))
    if (d.get("failing_input") or {}).get("contract"):
        # counter-model of a block contract: run the real statements on the recorded entry state again
        import contracts.C07 as C7
        from cddvc import replay_block
        fi = d["failing_input"]
        c = next(c for c in C7.CONTRACTS if c.qual == fi["contract"])
        if "counterexample replayed on the real function (CPython)" in fi:
            env = fi["counterexample replayed on the real function (CPython)"]["env"]
            model = {k + "!0": ('"%s"' % v.replace('"', '""') if isinstance(v, str) else str(v)) for k, v in env.items()}
            r = replay_block.replay_function(c, model)
            print(json.dumps(r, indent=1, default=str)[:2000])
            return 1 if r and r.get("requires_hold") and r.get("failed_ensures") else 0
        env = fi["counterexample replayed on the real statements (CPython)"]["env"]
        model = {}
        for k, v in env.items():
            if isinstance(v, dict):
                for idx, attrs in v.items():
                    for a, x in attrs.items():
                        pth = next((p_ for p_ in c.paths if p_.startswith(k + "[") and p_.endswith("." + a)), None)
                        if pth:
                            model[pth + "!0"] = '"%s"' % x.replace('"', '""') if isinstance(x, str) else str(x)
            else:
                model[k + "!0"] = '"%s"' % v.replace('"', '""') if isinstance(v, str) else str(v)
        r = replay_block.replay(c, model)
        print(json.dumps(r, indent=1, default=str)[:2000])
        return 1 if r and r.get("requires_hold") and (r.get("failed_ensures") or r.get("block_raised")) else 0
    if not inp:
        return 1
    r = one_case(tuple(inp))
    print(r)
    return 1 if r and r[0] != "raises" else 0

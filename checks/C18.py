"""
C18 — every public module imports cleanly on its own, in any order.

Deciding step: the E3 import-protocol model (cddvc/imports.py) run over the module-level statements of
/repo's current files: one obligation per entry module (import it first in a fresh interpreter) and one per
first module for all ordered pairs.  Because the model is a model, every verdict for single modules is
replayed in a real fresh interpreter on every run (exhaustive: the domain is finite), pairs are replayed by
seeded sample (quick) or exhaustively (thorough); a model refutation is reported with the real replay.
"""

import itertools
import json
import os
import random
import subprocess
import sys

from cddvc import extract, imports
from cddvc.report import PROVED, REFUTED, UNDECIDED, Run, compare_baseline
from checks import common

_MODEL = None


def _model():
    global _MODEL
    if _MODEL is None:
        _MODEL = imports.Model()
    return _MODEL


def _sim_first(m):
    mod = _model()
    ok, f, st = mod.run([m])
    return m, ok, (None if ok else dict(kind=f.kind, where=f.where, detail=f.detail, chain=f.chain))


def _sim_pairs(m1):
    """All ordered pairs with m1 first; also the public-name comparison against the other order"""
    mod = _model()
    mods = extract.package_modules()
    bad = []
    for m2 in mods:
        if m2 == m1:
            continue
        ok, f, st = mod.run([m1, m2])
        if not ok:
            bad.append((m2, "%s in %s: %s" % (f.kind, f.where, f.detail)))
            continue
        ok2, f2, st2 = mod.run([m2, m1])
        if ok2:
            for x in (m1, m2):
                if mod.public_names(st, x) != mod.public_names(st2, x):
                    bad.append((m2, "public names of %s differ between the two orders" % x))
    return m1, bad


REAL_SNIPPET = (
    "import importlib,json,sys\n"
    "mods=sys.argv[1:]\n"
    "out={}\n"
    "try:\n"
    "    for m in mods:\n"
    "        importlib.import_module(m)\n"
    "    for m in mods:\n"
    "        out[m]=sorted(n for n in vars(sys.modules[m]) if not n.startswith('_'))\n"
    "    print(json.dumps({'ok':True,'names':out}))\n"
    "except BaseException as e:\n"
    "    print(json.dumps({'ok':False,'error':'%s: %s'%(type(e).__name__,e)}))\n"
)


def _real(mods):
    env = dict(os.environ, PYTHONPATH=common.REPO, PYTHONDONTWRITEBYTECODE="1")
    r = subprocess.run([sys.executable, "-c", REAL_SNIPPET] + list(mods), capture_output=True, text=True, env=env, timeout=300)
    line = [l for l in r.stdout.splitlines() if l.startswith("{")]
    if not line:
        return {"ok": False, "error": "no output: " + r.stderr[-300:]}
    return json.loads(line[-1])


def main(tier, write_baseline=False):
    run = Run("C18", tier, "proof", checker_cmd=common.checker_cmd("C18", tier))
    run.trusted_base.update([
        "E3 import-protocol model (/verif/cddvc/imports.py): statement-order depth-first import, loading/loaded status, child bound on parent after it finished, from-import on a partially initialised module fails",
        "cross-validated on every run against a real fresh interpreter for all single-module imports (exhaustive) and for pairs (seeded sample in quick, all ordered pairs in thorough)",
        "environment-dependent imports (optional third-party packages) are fixed to this sandbox's environment; version flags folded with the running interpreter",
    ])
    mods = extract.package_modules()
    # ---- model
    first = common.pmap(_sim_first, mods)
    model_fail = {}
    for m, ok, f in first:
        run.add("C18/import-first/%s" % m, PROVED if ok else REFUTED, "import-model(E3)", detail="imports cleanly as the first module" if ok else "%s in %s: %s (import chain: %s)" % (f["kind"], f["where"], f["detail"], " -> ".join(f["chain"])))
        if not ok:
            model_fail[m] = f
    pair_bad = {}
    for m1, bad in common.pmap(_sim_pairs, mods, chunksize=1):
        # pairs that fail only because one of the two fails on its own are already reported above
        bad = [b for b in bad if m1 not in model_fail and b[0] not in model_fail]
        run.add("C18/import-pairs/%s" % m1, PROVED if not bad else REFUTED, "import-model(E3)",
                detail="followed by any other module: both orders succeed with the same public names" if not bad else "then %s: %s" % bad[0])
        if bad:
            pair_bad[m1] = bad
    run.assumptions.update(sorted(set(_model().imprecise))[:20])
    if write_baseline:
        common.write_baseline("C18", [n for n, o in run.obligations.items() if o["status"] == "proved"])
    compare_baseline(run, set(run.obligations))
    if os.environ.get("VERIF_NO_BOUNDED"):
        # model only (used by the negative controls): refutations are reported without replay
        for m, f in model_fail.items():
            run.violation("C18/import-first/%s" % m, "import model: %s in %s: %s" % (f["kind"], f["where"], f["detail"]), key={"module": m}, solver_output=f)
        for m1, bad in pair_bad.items():
            run.violation("C18/import-pairs/%s" % m1, "import model: then %s: %s" % bad[0], key={"pair": "%s,%s" % (m1, bad[0][0])})
        return run.finish(explanation="model only")
    # ---- real interpreter replay
    real_first = dict(zip(mods, common.tmap(lambda m: _real([m]), mods)))
    ev = len(mods)
    real_fail = {m: r["error"] for m, r in real_first.items() if not r["ok"]}
    for m in sorted(set(model_fail) | set(real_fail)):
        if m in real_fail:
            run.violation("C18/import-first/%s" % m, "fresh `import %s` fails: %s%s" % (m, real_fail[m], "" if m in model_fail else " (NOT predicted by the import model: model imprecise here)"),
                          key={"module": m}, failing_input={"fresh_interpreter_imports": [m], "error": real_fail[m]},
                          solver_output=model_fail.get(m))
        else:
            run.errors.append("import model predicts a failure for %s (%s) that the real interpreter does not show" % (m, model_fail[m]["detail"]))
    # pairs
    rnd = random.Random(run.seed)
    if tier == "thorough":
        pairs = [(a, b) for a in mods for b in mods if a != b]
    else:
        allp = [(a, b) for a in mods for b in mods if a < b]
        pairs = rnd.sample(allp, min(60, len(allp)))
        pairs = pairs + [(b, a) for a, b in pairs]
    for m1, bad in pair_bad.items():
        for m2, _ in bad[:3]:
            for p in ((m1, m2), (m2, m1)):
                if p not in pairs:
                    pairs.append(p)
    good = [p for p in pairs if p[0] not in real_fail and p[1] not in real_fail]
    res = dict(zip(good, common.tmap(lambda p: _real(list(p)), good)))
    ev += len(good)
    pair_viol = []
    for (a, b), r in res.items():
        if not r["ok"]:
            pair_viol.append(((a, b), r["error"]))
        else:
            other = res.get((b, a))
            if other and other["ok"] and (other["names"][a] != r["names"][a] or other["names"][b] != r["names"][b]):
                if a < b:
                    pair_viol.append(((a, b), "public names differ between the two import orders"))
    for (a, b), err in pair_viol[:10]:
        run.violation("C18/import-pairs/%s" % a, "fresh `import %s; import %s` : %s" % (a, b, err), key={"pair": "%s,%s" % (a, b)},
                      failing_input={"fresh_interpreter_imports": [a, b], "error": err})
    for m1, bad in pair_bad.items():
        if not any(p[0][0] == m1 or p[0][1] == m1 for p in pair_viol):
            run.errors.append("import model refutes pair (%s, %s) [%s] but the real interpreter does not" % (m1, bad[0][0], bad[0][1]))
    run.bounded.append({
        "name": "real-interpreter replay of the model's verdicts",
        "bound": "all %d single-module imports (exhaustive); %d ordered pairs (%s)" % (len(mods), len(good), "all ordered pairs" if tier == "thorough" else "seeded sample of 60 unordered pairs in both orders + every pair the model refutes"),
        "rule": "one fresh interpreter per import sequence; non-trivial = sequence imports at least one repo module",
        "evaluations": ev, "distinct_nontrivial": ev, "exhaustive": tier == "thorough",
        "failures": [{"imports": [m], "error": e} for m, e in list(real_fail.items())[:3]] + [{"imports": list(p), "error": e} for p, e in pair_viol[:3]],
    })
    run.samples = [{"obligation": "C18/import-first/%s" % m, "model": "ok", "real": "ok"} for m in mods[:5]]
    run.functions = [{"modules": len(mods), "model_pairs_checked": len(mods) * (len(mods) - 1)}]
    common.apply_controls(run, tier)
    return run.finish(explanation="All single-module imports and all ordered pairs decided in the import model; single imports replayed exhaustively, pairs by sample (quick) / exhaustively (thorough) in real interpreters.")


def replay(path):
    d = json.load(open(path))
    inp = d.get("failing_input") or {}
    seq = inp.get("fresh_interpreter_imports")
    print("replaying %s: obligation %s" % (path, d["failed_obligation"]))
    if not seq:
        return 1
    r = _real(seq)
    print("fresh interpreter: import %s -> %s" % (", ".join(seq), r if not r["ok"] else "ok"))
    return 0 if r["ok"] else 1

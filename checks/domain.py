"""
Shared bounded domain of the stand-ins (DESIGN.md §4): interface descriptions IR(n) drawn from a pool of
parameter shapes.  Every use states its slice of the pool and its bound in the evidence.
"""

import itertools
import random
from collections import OrderedDict

NAMES = ["alpha", "b_id", "name", "dataset_size", "flag"]

# (type string, [defaults...]) ; a default of ABSENT means "no default"
ABSENT = object()
NONE = "```(None)```"  # the project's NoneStr

LONG_LITERAL = "Literal['categorical cross entropy', 'mean squared error', 'mean absolute error', 'binary cross entropy', 'hinge']"
LONG_UNION = "Optional[Union[Dict[str, List[int]], List[Tuple[str, int]], Callable[[int, str], Optional[float]], Tuple[int, int]]]"

SHAPES = {
    "int": [ABSENT, 0, 5, -3],
    "float": [ABSENT, 2.5, -1e-07, 1e16],
    "str": [ABSENT, "s", "two words", "train|test", ""],
    "bool": [ABSENT, True, False],
    "Optional[int]": [ABSENT, NONE, 7, 0, -2],
    "Optional[str]": [NONE, "x"],
    "Literal['x', 'y']": [ABSENT, "x"],
    "Literal['http1', 'adam_w', 'q-r']": [ABSENT, "adam_w"],
    "Literal['a.c', 'b']": [ABSENT, "a.c"],
    "Literal['a|b', 'c']": [ABSENT, "c"],
    "Literal['(x', 'c+']": [ABSENT, "(x"],
    "Literal[\"it's\", 'c']": [ABSENT, "c"],
    "Literal[0, 1, 2]": [ABSENT, 1],
    "List[str]": [ABSENT],
    "Union[int, str]": [ABSENT, 3],
    "dict": [ABSENT],
    "Optional[dict]": [NONE],
    "Optional[float]": [NONE, 0.5, 0.0],
    "Optional[bool]": [NONE, False, True],
    "Union[bool, str]": [ABSENT, False],
    # bracket-less type strings that are not a bare name: a dotted name, a PEP 604 union
    "int | None": [ABSENT, 4],
    "collections.OrderedDict": [ABSENT],
    # type strings long enough for the emitters' word-wrapper (100 columns) to break them
    LONG_LITERAL: [ABSENT, "hinge"],
    LONG_UNION: [NONE],
}
DOCS = ["the {name}", "The {name} of it.", "number of things, with a comma", ""]


def param_pool(types=None, docs=None, with_defaults=True):
    """-> list of (typ, default, doc_template)"""
    out = []
    for t in types or SHAPES:
        for d in SHAPES[t] if with_defaults else [ABSENT]:
            for doc in docs or DOCS:
                out.append((t, d, doc))
    return out


def make_ir(combo, name="Conf", doc="Summary of it.", returns=None, suffix_defaults=False):
    """combo: sequence of (typ, default, doc_template) -> IR dict (fresh objects every time)"""
    params = OrderedDict()
    seen_default = False
    for i, (t, d, doc_t) in enumerate(combo):
        p = OrderedDict()
        if t is not None:
            p["typ"] = t
        if doc_t is not None:
            p["doc"] = doc_t.format(name=NAMES[i % len(NAMES)])
        if suffix_defaults and seen_default and d is ABSENT:
            return None  # defaults must form a suffix
        if d is not ABSENT:
            p["default"] = d
            seen_default = True
        params[NAMES[i % len(NAMES)] + ("" if i < len(NAMES) else str(i))] = p
    ir = {"name": name, "doc": doc, "params": params, "returns": None}
    if returns is not None:
        ir["returns"] = OrderedDict((("return_type", OrderedDict(returns)),))
    return ir


def irs(n_max, pool, sample=None, seed=0, **kw):
    """All IRs with <= n_max params over `pool` (exhaustive), or a seeded sample of `sample` of them"""
    rnd = random.Random(seed)
    for n in range(0, n_max + 1):
        combos = itertools.product(pool, repeat=n)
        if sample is not None and len(pool) ** n > sample:
            combos = (tuple(rnd.choice(pool) for _ in range(n)) for _ in range(sample))
        for c in combos:
            ir = make_ir(c, **kw)
            if ir is not None:
                yield ir


def project(ir):
    """pi: the interface proper (names, order, types, defaults, descriptions, return entry)"""
    def ent(p):
        return tuple((k, (type(p[k]).__name__, p[k]) if k == "default" else p[k]) for k in ("typ", "default", "doc") if k in p)
    return (
        tuple((n, ent(p)) for n, p in (ir.get("params") or {}).items()),
        tuple((n, ent(p)) for n, p in ((ir.get("returns") or {}) or {}).items()),
    )


def norm_doc(s):
    """descriptions are compared up to whitespace and a terminal full stop"""
    s = " ".join((s or "").split())
    return s[:-1] if s.endswith(".") else s

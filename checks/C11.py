"""
C11 — every parse / emit / doctrans call terminates.

Deciding steps (all from /repo's current source):
  (1) every `while` loop of the non-test package has a sidecar variant, proved by E1 in loop-local mode
      (variant >= 0 under the guard, strictly decreasing on every back edge, from an arbitrary state);
  (2) E5 rules: every infinite iterator is bounded (islice / zip / takewhile / next), no loop grows the
      collection it iterates;
  (3) every recursive component of the import-aware call graph has a declared measure; structural call
      sites are discharged by the rule engine, the others are listed as NOT discharged (bounded only).
Stand-in (bounded, never counted as proved): a watchdog on the real parsers/emitters/doctrans over token
strings and interface descriptions.
"""

import itertools
import json
import multiprocessing
import os
import signal
import sys
import tempfile
import time

from cddvc import callgraph, termination
from cddvc.report import PROVED, REFUTED, UNDECIDED, Run, compare_baseline
from cddvc.solve import Solver
from cddvc.symexec import Engine
from cddvc.values import OutOfSubset
from checks import common

TOKENS = [
    "\n", "    ", " ", "  \n", ":param a:", ":type a: ```int```", ":return:", ":rtype: ```int```", "Args:", "Returns:", "Raises:",
    "Parameters\n----------", "Returns\n-------", "a : int", "a (int): doc", "foo bar", "Defaults to 5", "`x` or `y`", " ", "One of `a`\x1for `b`.",
]


def _prove_loop(args):
    qual, key = args
    import importlib

    C = importlib.import_module("contracts.C11")
    reg = {c.qual: c for c in C.CONTRACTS}
    sv = Solver()
    e = Engine(reg, sv, "C11")
    out = {"qual": qual, "key": key, "oos": None, "err": None}
    try:
        e.verify_loop(reg[qual], key)
    except OutOfSubset as ex:
        out["oos"] = str(ex)
    except Exception as ex:  # engine crash is never a violation
        import traceback

        out["err"] = traceback.format_exc()[-800:]
    out["obs"] = [dict(name=o.name.replace("/loop", "/%s/loop" % key.replace("/", "÷")), status=o.status, backend=o.backend, time=o.time, trace=o.trace[-10:], model=o.model,
                       smt2=o.smt2 if o.status != PROVED else None, notes=o.notes, lineno=o.lineno) for o in e.obligations]
    out["assumptions"] = sorted(e.assumptions) + ["%s: %s" % (qual.split(":")[-1], a) for a in sorted(e.abstracted)] + \
        ["%s: statement outside the subset, write set havocked — %s" % (qual.split(":")[-1], u) for u in e.unsupported]
    return out


# ------------------------------------------------------------------ watchdog (bounded stand-in)

# descriptions with unbalanced delimiters and other prose a scanner with hand-kept indices can trip over
AWKWARD = [
    "The dataset. Defaults to 'mnist", "Defaults to the user's home directory.", 'Defaults to "unterminated', "Default value is 'a.b'.", "Default: `x", "Defaults to ```(None", "Defaults to (1, 2",
    "Defaults to [", "Defaults to {'a': 1", "one of `a or b`", "e.g. 5' 10\" tall", "ends with a backslash \\", "Defaults to", "Defaults to .", "Defaults to ...", "default", "Defaults to Defaults to 5",
    "a" * 300, ". " * 60, "`" * 7, "'" * 5, "\t\ttabs\tinside", "non\u00a0breaking and\u2003wide spaces or `x`", "List of `a`, `b` or `c`; Tuple of (int, str). Defaults to ('a', 1)",
]


def _wd_inputs(tier):
    n = 3 if tier == "quick" else 4
    docs = [""]
    for k in range(1, n + 1):
        docs.extend("".join(t) for t in itertools.product(TOKENS, repeat=k))
    for a in AWKWARD:
        docs.append(":param a: %s\n:type a: ```str```\n\n:param b: %s\n\n:return: %s\n:rtype: ```str```\n" % (a, a, a))
        docs.append("Doc\n\nArgs:\n  a (str): %s\n  b: %s\n\nReturns:\n  str: %s\n" % (a, a, a))
        docs.append("Doc\n\nParameters\n----------\na : str\n    %s\nb\n    %s\n\nReturns\n-------\nr : str\n    %s\n" % (a, a, a))
    return docs


def _call_all(doc):
    """Everything C11 names, on one docstring text: parse, emit in 3 styles, re-parse own output, split"""
    from collections import OrderedDict

    import cdd.docstring.emit
    import cdd.docstring.parse
    import cdd.shared.docstring_utils as du

    try:
        du.parse_docstring_into_header_args_footer(doc, doc)
    except Exception:
        pass
    try:
        ir = cdd.docstring.parse.docstring(doc)
    except Exception:
        return
    for style in ("rest", "google", "numpydoc"):
        for indent in (0, 2):
            try:
                out = cdd.docstring.emit.docstring(ir, docstring_format=style, indent_level=indent)
                cdd.docstring.parse.docstring(out)
            except Exception:
                pass


def _emit_inputs():
    from collections import OrderedDict

    docs = ["", " ", "\n", "  \nfoo bar", "\t\n \nfoo", "foo\n  \n bar", "foo", "  \n  x", "\n\n", " \n"]
    params = [OrderedDict(), OrderedDict([("a", {"typ": "int", "doc": "x"})]), OrderedDict([("a", {"doc": " \n y", "default": 5}), ("b", {"typ": "str", "doc": ""})])]
    for d in docs:
        for p in params:
            for ret in (None, {"return_type": {"typ": "int", "doc": " \nr"}}):
                for orig in (None, d, "  \n" + d):
                    ir = {"name": "f", "doc": d, "params": p, "returns": ret}
                    if orig is not None:
                        ir["_internal"] = {"original_doc_str": orig}
                    yield ir


def _call_emit(ir):
    import copy

    import cdd.docstring.emit

    for style in ("rest", "google", "numpydoc"):
        for indent in (0, 1, 2):
            for ws in (False, True):
                try:
                    cdd.docstring.emit.docstring(copy.deepcopy(ir), docstring_format=style, indent_level=indent, emit_original_whitespace=ws)
                except Exception:
                    pass


def _call_doctrans(doc):
    import cdd.compound.doctrans as dt

    src = 'def f(a, b=1):\n    """%s"""\n    return a\n\n\nclass K(object):\n    """%s"""\n    x: int = 1\n' % (doc.replace('"""', "'''").replace("\\", ""), doc.replace('"""', "'''").replace("\\", ""))
    fd, fn = tempfile.mkstemp(suffix=".py")
    os.write(fd, src.encode("utf-8"))
    os.close(fd)
    try:
        for style in ("google", "numpydoc", "rest"):
            for _ in range(3):
                try:
                    dt.doctrans(filename=fn, docstring_format=style, type_annotations=True, no_word_wrap=None)
                except BaseException:
                    break
    finally:
        os.unlink(fn)


CODE_SRCS = [
    # signature shapes the parsers and doctrans walk with their own index arithmetic (defaults are shared between
    # positional-only and ordinary parameters; kw-only defaults may be holes; self / cls are stripped)
    "def f():\n    pass\n",
    "def f(a):\n    \"\"\"\n    :param a: the a\n    \"\"\"\n    return a\n",
    "def f(a=1, /, b=2):\n    return a\n",
    "def scale(factor=2.0, /):\n    \"\"\"\n    :param factor: the factor\n    :type factor: ```float```\n    \"\"\"\n    return factor\n",
    "def g(x, y=0, /, z=0, *args, key=None, **kwargs):\n    return x\n",
    "def h(a, /, b, *, c, d=4):\n    return a\n",
    "def k(*, a, b=1, c):\n    return a\n",
    "def v(*args, **kwargs):\n    return args\n",
    "async def co(a, b=1):\n    return a\n",
    "class K(object):\n    \"\"\"K\"\"\"\n\n    def __init__(self, a=1, /, b=2, *, c=3):\n        \"\"\"\n        :param a: the a\n        \"\"\"\n        self.a = a\n\n    def m(self=None):\n        return self\n\n    @classmethod\n    def make(cls, x, y=1, /):\n        return cls\n\n    @staticmethod\n    def s(p=1, /, q=2):\n        return p\n",
    "class E(object):\n    pass\n",
    "class D(object):\n    x: int = 1\n    y: str\n\n    def __init__(self):\n        pass\n",
    "def outer(a, b=(1, 2), c={'k': [1]}, d=lambda q=1, /: q):\n    def inner(z=1, /):\n        return z\n    return inner\n",
    "def deco(a: 'int' = 1, b: 'List[str]' = None, /, *c: int, d: int = 2, **e: str) -> 'int':\n    return a\n",
]


def _call_code(src):
    """The code-side entry points C11 names, on one module text: function / class parsers on every definition, then doctrans on the file"""
    import ast as _ast

    import cdd.class_.parse
    import cdd.compound.doctrans as dt
    import cdd.function.parse

    mod = _ast.parse(src)
    for node in _ast.walk(mod):
        try:
            if isinstance(node, (_ast.FunctionDef, _ast.AsyncFunctionDef)):
                cdd.function.parse.function(node)
            elif isinstance(node, _ast.ClassDef):
                cdd.class_.parse.class_(node)
                cdd.class_.parse.class_(node, merge_inner_function="__init__")
        except Exception:
            pass
    fd, fn = tempfile.mkstemp(suffix=".py")
    os.write(fd, src.encode("utf-8"))
    os.close(fd)
    try:
        for style in ("google", "rest"):
            for ta in (True, False):
                try:
                    dt.doctrans(filename=fn, docstring_format=style, type_annotations=ta, no_word_wrap=None)
                except BaseException:
                    pass
    finally:
        os.unlink(fn)


def _worker(kind, items, progress_path, q):
    devnull = open(os.devnull, "w")
    sys.stdout = sys.stderr = devnull
    fn = {"doc": _call_all, "emit": _call_emit, "doctrans": _call_doctrans, "code": _call_code}[kind]
    with open(progress_path, "wt") as pf:
        for i, it in enumerate(items):
            pf.seek(0)
            pf.write("%d\n" % i)
            pf.flush()
            fn(it)
    q.put(len(items))


def _run_chunk(kind, items, budget_s):
    """-> (n_done, hanging item or None)"""
    ctx = multiprocessing.get_context("fork")
    q = ctx.Queue()
    fd, pp = tempfile.mkstemp(prefix="cddvc_wd_")
    os.close(fd)
    p = ctx.Process(target=_worker, args=(kind, items, pp, q))
    p.start()
    p.join(budget_s)
    hang = None
    if p.is_alive():
        p.kill()
        p.join()
        try:
            i = int(open(pp).read().split()[0])
        except Exception:
            i = 0
        hang = (i, items[i])
        done = i
    else:
        done = len(items)
    os.unlink(pp)
    return done, hang


def _confirm(kind, item, secs=8):
    """Does this single input really not return within `secs`?"""
    done, hang = _run_chunk(kind, [item], secs)
    return hang is not None


def _chunk_job(args):
    kind, items, budget = args
    done, hang = _run_chunk(kind, items, budget)
    confirmed = None
    ev = done
    while hang is not None:
        i, item = hang
        if _confirm(kind, item):
            confirmed = item
            break
        # slow chunk, not a hang: continue after it
        rest = items[i + 1:]
        items = rest
        if not rest:
            break
        d2, hang = _run_chunk(kind, rest, budget)
        ev += 1 + d2
    return ev, confirmed


def watchdog(tier):
    docs = _wd_inputs(tier)
    chunks = [("doc", docs[i:i + 400], 30) for i in range(0, len(docs), 400)]
    emits = list(_emit_inputs())
    chunks += [("emit", emits[i:i + 40], 30) for i in range(0, len(emits), 40)]
    dd = [d for d in docs if len(d) > 0][:: max(1, len(docs) // (150 if tier == "quick" else 1500))]
    chunks += [("doctrans", dd[i:i + 10], 60) for i in range(0, len(dd), 10)]
    chunks += [("code", [c_], 40) for c_ in CODE_SRCS]
    res = common.tmap(_chunk_job, chunks)
    ev = sum(r[0] for r in res)
    hangs = [(c[0], r[1]) for c, r in zip(chunks, res) if r[1] is not None]
    return {
        "name": "watchdog on the real parsers / emitters / doctrans (bounded, NOT counted as proved)",
        "bound": "all docstrings of <= %d tokens over a %d-token alphabet through split + parse + emit(3 styles x 2 indents) + re-parse; %d interface descriptions x 3 styles x 3 indents x 2 whitespace modes through emit.docstring; %d generated modules through doctrans 3 styles x 3 times; %d modules of awkward signatures (positional-only defaults, kw-only holes, self/cls, nested, async) through function.parse / class_.parse (+ merge_inner_function) / doctrans; a call that does not return within 8 s alone is a hang"
        % (3 if tier == "quick" else 4, len(TOKENS), len(emits), len(dd), len(CODE_SRCS)),
        "rule": "distinct inputs; non-trivial = non-empty text",
        "evaluations": ev,
        "distinct_nontrivial": max(0, ev - 1),
        "failures": [{"driver": k, "input": (i if isinstance(i, str) else repr(i))[:400]} for k, i in hangs[:5]],
        "_hangs": hangs,
    }


def main(tier, write_baseline=False):
    import importlib

    C = importlib.import_module("contracts.C11")
    run = Run("C11", tier, "proof", checker_cmd=common.checker_cmd("C11", tier))
    run.trusted_base.update([
        "cddvc E1 loop-local termination mode (/verif/cddvc/symexec.py: verify_loop) and E5 rules (/verif/cddvc/termination.py)",
        "import-aware static call graph (/verif/cddvc/callgraph.py) over-approximates the real calls between repo functions",
        "stdlib / black / ast.parse / textwrap calls terminate; AST inputs are finite trees; iterables received from callers are finite",
        "z3 5.1 (cvc5 / z3 4.8 fall-backs)",
    ])
    g = callgraph.Graph()
    reg = {c.qual: c for c in C.CONTRACTS}
    # (1) while loops
    jobs = []
    for fid, key, lineno in termination.while_loops(g):
        c = reg.get(fid)
        if c is None or key not in c.loops or "variant" not in c.loops[key]:
            run.add("C11/%s/%s/variant" % (fid, key), UNDECIDED, "rule-engine", detail="while loop at line %d has no variant in the sidecar contracts/C11.py" % lineno)
            continue
        jobs.append((fid, key))
    for c in C.CONTRACTS:
        for key in c.loops:
            if str(key).startswith("while@") and (c.qual, key) not in jobs:
                run.undecide("C11/%s/%s/variant" % (c.qual, key), "sidecar variant no longer attaches: the loop is not in the current source")
    refuted = []
    for r in common.pmap(_prove_loop, jobs, chunksize=1):
        for o in r["obs"]:
            run.add(o["name"], o["status"], o["backend"], o["time"], detail="path %s (line %s)" % (" ".join(o["trace"]), o["lineno"]), model=o["model"], smt2=o["smt2"], notes=o["notes"])
            if o["status"] == REFUTED:
                refuted.append(o)
        for a in r["assumptions"]:
            run.assumptions.add(a)
        if r["oos"]:
            run.undecide("C11/%s/%s/*" % (r["qual"], r["key"]), "out of subset: " + r["oos"])
        if r["err"]:
            run.undecide("C11/%s/%s/*" % (r["qual"], r["key"]), "engine error: " + r["err"].replace("\n", " | ")[-300:])
    # (2) iterables
    for name, ok, detail in termination.iterable_obligations(g):
        run.add("C11/" + name, PROVED if ok else REFUTED, "rule-engine", detail=detail)
        if not ok:
            refuted.append({"name": "C11/" + name, "backend": "rule-engine", "trace": [], "model": None, "smt2": None, "notes": [detail], "lineno": 0})
    # (3) recursion
    obs, assumed = termination.recursion_obligations(g, C.MEASURES)
    for name, ok, detail in obs:
        st = UNDECIDED if ok is None else (PROVED if ok else REFUTED)
        run.add("C11/" + name, st, "rule-engine", detail=detail)
        if ok is False:
            refuted.append({"name": "C11/" + name, "backend": "rule-engine", "trace": [], "model": None, "smt2": None, "notes": [detail], "lineno": 0})
    for a in assumed:
        run.assumptions.add(a)
    for fr in [f for f in sorted(g.funcs) if f.endswith(":<module>")][:0]:
        pass
    run.functions = [dict(function=c.qual, loops={k: v.get("variant", v.get("invariant")) for k, v in c.loops.items()}) for c in C.CONTRACTS]
    if write_baseline:
        common.write_baseline("C11", [n for n, o in run.obligations.items() if o["status"] == "proved"])
    compare_baseline(run, set(run.obligations))
    hangs = []
    if not os.environ.get("VERIF_NO_BOUNDED"):
        b = watchdog(tier)
        hangs = b.pop("_hangs")
        run.bounded.append(b)
    seen = set()
    for o in refuted:
        if o["name"] in seen:
            continue
        seen.add(o["name"])
        inp = {"driver": hangs[0][0], "input": hangs[0][1]} if hangs else None
        run.violation(o["name"], "termination obligation refuted by %s%s: %s" % (o["backend"], (" on path " + " ".join(o["trace"])) if o["trace"] else "", "; ".join(o["notes"][-2:])),
                      failing_input=inp, solver_output={"model": o["model"], "smt2": (o["smt2"] or "")[:5000], "notes": o["notes"]})
    if hangs and not refuted:
        run.violation("C11/watchdog/%s" % hangs[0][0], "a call does not return within 8 s on a concrete input (no deductive obligation was refuted: see UNDECIDED lines for loops without a variant)",
                      failing_input={"driver": hangs[0][0], "input": hangs[0][1]})
    common.apply_controls(run, tier)
    return run.finish(explanation="Termination: a variant per while loop proved loop-locally by E1; finite-iterable / no-growth / recursion-measure rules by the rule engine. "
                      "'time proportional to the size of the input' is NOT decided (a variant gives termination, not complexity). Recursive call sites marked 'assumed' are listed in assumptions, not counted.")


def replay(path):
    d = json.load(open(path))
    inp = d.get("failing_input")
    print("replaying %s: obligation %s" % (path, d["failed_obligation"]))
    if not inp:
        print("no failing input recorded (no-failing-input-found); verifier output:\n%s" % json.dumps(d.get("verifier_output"), indent=1)[:3000])
        return 1
    hang = _confirm(inp["driver"], inp["input"])
    print("driver %s on %r: %s" % (inp["driver"], inp["input"], "DOES NOT RETURN within 8 s" if hang else "returns"))
    return 1 if hang else 0

"""Helpers shared by the per-property checks"""

import itertools
import json
import multiprocessing
import os
import subprocess
import sys

VERIF = os.path.dirname(os.path.dirname(os.path.abspath(__file__)))
REPO = os.environ.get("CDD_REPO", "/repo")
NPROC = int(os.environ.get("VERIF_PROCS", os.cpu_count() or 4))


def pmap(fn, items, procs=None, chunksize=None):
    items = list(items)
    procs = min(procs or NPROC, max(1, len(items)))
    if procs <= 1:
        return [fn(i) for i in items]
    with multiprocessing.get_context("fork").Pool(procs) as pool:
        return pool.map(fn, items, chunksize=chunksize or max(1, len(items) // (procs * 8)))


def write_baseline(prop, names):
    p = os.path.join(VERIF, "baseline", "obligations.json")
    d = json.load(open(p)) if os.path.exists(p) else {}
    d[prop] = sorted(names)
    os.makedirs(os.path.dirname(p), exist_ok=True)
    json.dump(d, open(p, "wt"), indent=1, sort_keys=True)


def checker_cmd(prop, tier):
    return "cd /verif && ./check %s --tier %s   (cddvc E1 VC generator over ast of %s + z3 %s / cvc5 / rule engines)" % (
        prop, tier, REPO, __import__("z3").get_version_string())


def py_files(root=None):
    root = root or os.path.join(REPO, "cdd")
    out = []
    for d, ds, fs in os.walk(root):
        ds.sort()
        if "__pycache__" in d:
            continue
        out.extend(os.path.join(d, f) for f in sorted(fs) if f.endswith(".py"))
    return out


def tmap(fn, items, threads=None):
    """Thread map: for jobs that themselves start a child process (watchdogs, subprocess runs)"""
    from concurrent.futures import ThreadPoolExecutor

    items = list(items)
    with ThreadPoolExecutor(max_workers=min(threads or NPROC, max(1, len(items)))) as ex:
        return list(ex.map(fn, items))


def apply_controls(run, tier):
    """
    Thorough tier, and only when the run itself is clean (no violation, nothing undecided): every negative control must
    be killed by a named obligation and every benign control must stay quiet, else exit 3.  On a tree that already fails
    or does not attach, the controls would say nothing about the engine, so they are skipped (recorded in the evidence).
    A control whose edit no longer applies to the current source is recorded as stale -- a note, not an error: it says
    the control file is behind the code, nothing about the property.
    """
    if tier != "thorough" or os.environ.get("VERIF_NO_CONTROLS"):
        return
    from cddvc.report import PROVED

    if run.violations or run.undecided or any(o["status"] != PROVED for o in run.obligations.values()):
        run.negative_controls = {"applied": 0, "killed": 0, "table": [], "skipped": "the run itself is not clean (violation / undecided obligation): controls not run"}
        return
    from checks import controls

    r = controls.run_controls(run.prop)
    if r is None:
        return
    run.negative_controls = {k: r[k] for k in ("applied", "killed", "table")}
    run.negative_controls["stale"] = [s_["name"] for s_ in r["stale"]]
    for s_ in r["survivors"]:
        if s_.get("benign"):
            run.errors.append("benign control raised an alarm (false alarm of this check on a behaviour-preserving rewrite): %s (exit %s)" % (s_["name"], s_.get("exit")))
        else:
            run.errors.append("negative control survived (engine unsound or contract too weak): %s (exit %s)" % (s_["name"], s_.get("exit")))
    for s_ in r["stale"]:
        print("NOTE property=%s control no longer applies to the current source (controls/%s.py is behind the code): %s" % (run.prop, run.prop, s_["name"]))


def lean_theorems(run, prop, filename, theorems):
    """Run `lean <file>`; one obligation per theorem: accepted by the kernel, no `sorry`, no axiom beyond propext / Quot.sound / Classical.choice"""
    import re
    import subprocess
    import time

    from cddvc.report import PROVED, REFUTED, UNDECIDED

    src = os.path.join(VERIF, "lean", filename)
    t = time.time()
    try:
        r = subprocess.run(["lean", src], capture_output=True, text=True, timeout=600)
    except Exception as ex:
        for th in theorems:
            run.add("%s/lean/%s" % (prop, th), UNDECIDED, "lean-4", detail="lean could not be run: %s" % ex)
        return
    out = r.stdout + r.stderr
    dt = time.time() - t
    text = open(src).read()
    for th in theorems:
        m = re.search(r"'%s' (does not depend on any axioms|depends on axioms: \[([^\]]*)\])" % th, out)
        ok = r.returncode == 0 and "error" not in out and "sorry" not in out and m is not None and ("theorem %s" % th) in text
        axioms = (m.group(2) or "none") if m else "?"
        if ok and any(a.strip() not in ("propext", "Quot.sound", "Classical.choice", "") for a in axioms.replace("none", "").split(",")):
            ok = False
        run.add("%s/lean/%s" % (prop, th), PROVED if ok else (UNDECIDED if r.returncode == 0 else REFUTED), "lean-4.33", dt / max(1, len(theorems)),
                detail="accepted by the Lean kernel; axioms: %s" % axioms if ok else "lean output: %s" % out[-300:])
        run.assumptions.add("Lean theorem %s uses axioms: %s" % (th, axioms))


def model_replay(contracts_module, o):
    """Replay of a refuted E1 obligation's counter-model on the real code (see cddvc.replay_block.replay_any)"""
    from cddvc import replay_block

    if o.get("replayed") is not None:
        return o["replayed"]
    return replay_block.replay_any(contracts_module, o)


def set_default_doc_replay():
    """The contract of set_default_doc on the real function: a default is announced exactly when the description does not announce one yet"""
    import copy

    from cdd.shared.defaults_utils import set_default_doc

    for doc in ("Engine that replaces the default one", "the default backend", "Default engine", "the x", "The x of it.", "DEFAULT"):
        for dflt, typ in (("numpy", "str"), (5, "int"), (-2.5, "float"), (False, "bool")):
            p = {"doc": doc, "typ": typ, "default": dflt}
            try:
                _n, out = set_default_doc(("x", copy.deepcopy(p)), emit_default_doc=True)
            except Exception:
                continue
            if not (out["doc"].startswith(doc) and " Defaults to " in out["doc"]):
                return {"call": "cdd.shared.defaults_utils.set_default_doc(('x', %r), emit_default_doc=True)" % (p,),
                        "what": "the description comes back as %r: no 'Defaults to' clause was appended although it does not announce a default (the word 'Defaults' / 'defaults' is not in it), so the default cannot be read back from the docstring" % out["doc"]}
    for doc in ("The x. Defaults to 3", "x, defaults to 3"):
        p = {"doc": doc, "typ": "int", "default": 3}
        _n, out = set_default_doc(("x", copy.deepcopy(p)), emit_default_doc=True)
        if out["doc"] != doc:
            return {"call": "cdd.shared.defaults_utils.set_default_doc(('x', %r), emit_default_doc=True)" % (p,), "what": "a description that already announces its default was changed to %r" % out["doc"]}
    return None


def optional_iff_not_required_replay():
    """The contract on the Optional step of json_schema_property_to_param on the real function"""
    import copy

    from cdd.json_schema.utils.parse_utils import json_schema_property_to_param

    for prop in ({"type": "integer", "description": "the alpha", "default": 7}, {"type": "string", "description": "the s", "default": "x"}, {"type": "number", "description": "the f"},
                 {"type": "boolean", "description": "the b", "default": False}, {"type": "integer", "description": "the n", "default": None}):
        for required in (frozenset(), frozenset(("alpha",))):
            try:
                _n, out = json_schema_property_to_param(("alpha", copy.deepcopy(prop)), required)
            except Exception:
                continue
            want_optional = "alpha" not in required
            if out.get("typ", "").startswith("Optional[") != want_optional:
                return {"call": "cdd.json_schema.utils.parse_utils.json_schema_property_to_param(('alpha', %r), required=%r)" % (prop, sorted(required)),
                        "what": "the type comes back as %r: a property that is %s must come back %s" % (out.get("typ"), "not listed in `required`" if want_optional else "required", "as Optional[...]" if want_optional else "unwrapped")}
    return None


def infer_default_replay():
    """The contract on _infer_default's type step, on the real function parser: a declared annotation survives a negative default"""
    import ast as _ast

    import cdd.function.parse

    for ann, dflt in (("Optional[int]", "-4"), ("Optional[float]", "-2.5"), ("int", "-3"), ("Optional[int]", "+4"), ("float", "-1e-07"), ("Optional[complex]", "-2j")):
        src = "def conf(warmup: %s = %s):\n    \"\"\"\n    Conf\n\n    :param warmup: the warmup\n    \"\"\"\n    return warmup\n" % (ann, dflt)
        try:
            ir = cdd.function.parse.function(_ast.parse(src).body[0])
        except Exception:
            continue
        got = ir["params"]["warmup"].get("typ")
        if got != ann:
            return {"source": src, "what": "cdd.function.parse.function reads the parameter `warmup: %s = %s` with the type %r: the declared annotation was replaced by the run-time type of the default" % (ann, dflt, got)}
    return None

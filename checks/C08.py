"""
C08 — one conversion round reaches a fixpoint (the normal form is stable).

Deciding step (lemma, E1, all inputs): set_default_doc never appends a second 'Defaults to', and what it appends
carries the guard word, so it is idempotent; shared with C01: quote(quote(s)) == quote(s).
Bounded (stand-in, NOT proved): rt_f(rt_f(x)) == rt_f(x) (and a third round) on the real emitters/parsers over the
WIDER domain (trigger words, non-suffix defaults for ReST, unusual types) x formats.
"""

import ast
import json
import re
import os

from cddvc import e1, extract
from cddvc.report import PROVED, REFUTED, UNDECIDED, Run, compare_baseline
from checks import common, domain, roundtrip as R, rt_matrix as M

TYPES = ["int", "float", "str", "bool", "Optional[int]", "Optional[str]", "Literal['x', 'y']", "List[str]", "Union[int, str]", "dict", domain.LONG_LITERAL, domain.LONG_UNION]
SQL_TYPES = ["int", "float", "str", "bool", "Optional[int]", "Optional[str]", "Literal['x', 'y']"]
JSON_TYPES = ["int", "float", "str", "bool", "dict", "Optional[int]", "Optional[str]", "Literal['x', 'y']"]
DOCS = ["the {name}", "number of things, with a comma", "whether to do it", "list of names", "The {name} of it. Defaults to 3", "ends in an ellipsis etc...", "", "50% of the {name} (100%% escaped)"]


def help_rule():
    """
    Shape rule (both sites of the argparse help text): the emitter writes the description it got from extract_default,
    at most word-wrapped, into `help=`; the parser reads `help=` back with get_value and nothing else.  Any rewriting on
    one side only (escaping, stripping, case) is a normalisation the other side does not undo -- it repeats every round.
    -> (ok | None, detail)
    """
    f, _s, _p = extract.find_def("cdd.shared.ast_utils", "param2argparse_param")
    g, _s, _p = extract.find_def("cdd.argparse_function.utils.emit_utils", "parse_out_param")
    if f is None or g is None:
        return None, "param2argparse_param / parse_out_param not found"
    helps = [c for c in ast.walk(f) if isinstance(c, ast.Call) and getattr(c.func, "id", None) == "keyword"
             and any(k.arg == "arg" and isinstance(k.value, ast.Constant) and k.value.value == "help" for k in c.keywords)]
    if len(helps) != 1:
        return False, "expected exactly one keyword(arg='help', ...) in param2argparse_param, found %d" % len(helps)
    val = next((k.value for k in helps[0].keywords if k.arg == "value"), None)
    txt = ast.unparse(val) if val is not None else ""
    if txt not in ("set_value((fill if word_wrap else identity)(doc))", "set_value(fill(doc))", "set_value(identity(doc))", "set_value(doc)"):
        return False, "help= is written as %s, not as the (word-wrapped) description itself" % txt
    binds = []
    for n in ast.walk(f):
        tgt = n.targets[0] if isinstance(n, ast.Assign) else getattr(n, "target", None) if isinstance(n, (ast.AugAssign, ast.AnnAssign, ast.NamedExpr, ast.For, ast.comprehension)) else None
        if tgt is not None and any(isinstance(t, ast.Name) and t.id == "doc" for t in ast.walk(tgt)):
            binds.append(n)
    if len(binds) != 1 or ast.unparse(binds[0]).replace("(doc, _default)", "doc, _default") != "doc, _default = extract_default(_param['doc'], emit_default_doc=emit_default_doc)":
        return False, "`doc` is not bound exactly once, from extract_default(_param['doc'], ...): %s" % "; ".join(ast.unparse(b)[:80] for b in binds)
    reads = [ast.unparse(ge.elt) for ge in ast.walk(g) if isinstance(ge, ast.GeneratorExp) and "key_word.arg == 'help'" in ast.unparse(ge)]
    if reads != ["get_value(key_word.value)"]:
        return False, "parse_out_param reads help= as %r, not as get_value(key_word.value)" % reads
    return True, "help= is set_value(W(doc)) with W in {fill, identity}, doc bound once from extract_default; parse_out_param reads it back with get_value only"


def help_replay(_name=None):
    """The clause the rule carries, on the real two functions: the help text of an already round-tripped parameter is stable"""
    import string

    import cdd.argparse_function.utils.emit_utils as EU
    import cdd.shared.ast_utils as AU

    def emit(doc):
        node = AU.param2argparse_param(("alpha", {"typ": "str", "doc": doc}), word_wrap=False, emit_default_doc=False)
        return node, next((AU.get_value(k.value) for k in node.value.keywords if k.arg == "help"), None)

    for c in list(string.printable) + ["%%", "%s", "{}", "{0}", "\\n", "``", "'" * 3, '"' * 3]:
        doc = "the a%sb of it" % c
        try:
            n1, h1 = emit(doc)
            _name_, p1 = EU.parse_out_param(n1, emit_default_doc=False)
            n2, h2 = emit(p1.get("doc") or "")
            _name_, p2 = EU.parse_out_param(n2, emit_default_doc=False)
        except Exception:
            continue  # "whenever it returns"
        if (p1.get("doc") or "") != (p2.get("doc") or "") or h1 != h2:
            return {"description": doc, "what": "round 1 gives doc %r (help %r), round 2 gives doc %r (help %r)" % (p1.get("doc"), h1, p2.get("doc"), h2)}
    return None


def full(ir):
    """Everything a parser returns that takes part in the normal form"""
    def ent(p):
        return {k: ((type(v).__name__, v) if k == "default" else v) for k, v in p.items() if k in ("typ", "doc", "default")}
    return ([(n, ent(p)) for n, p in (ir.get("params") or {}).items()], [(n, ent(p)) for n, p in ((ir.get("returns") or {}) or {}).items()], " ".join((ir.get("doc") or "").split()))


def first_diff(a, b):
    (pa, ra, da), (pb, rb, db) = a, b
    if [n for n, _ in pa] != [n for n, _ in pb]:
        return "names", "parameter names %r vs %r" % ([n for n, _ in pa], [n for n, _ in pb])
    for (n, x), (_n, y) in zip(pa, pb):
        for k in sorted(set(x) | set(y)):
            if x.get(k) != y.get(k):
                return k, "%s.%s: %r vs %r" % (n, k, x.get(k, "<absent>"), y.get(k, "<absent>"))
    if ra != rb:
        return "returns", "return entry %r vs %r" % (ra, rb)
    if da != db:
        return "doc", "interface description %r vs %r" % (da, db)
    return None


def contract(cell, ir):
    fmt, style, edd, variant = cell
    hop = R.HOPS[fmt]
    kw = dict(style=style, emit_default_doc=edd, variant=variant)
    x1, _t = hop(ir, **kw)
    x1 = json.loads(json.dumps(x1, default=str))
    x1["name"] = ir["name"]
    from collections import OrderedDict

    def fix(x):
        x["params"] = OrderedDict(x.get("params") or {})
        x.pop("_internal", None)
        return x

    x1 = fix(x1)
    x2, t2 = hop(json.loads(json.dumps(x1)) and fix(json.loads(json.dumps(x1))), **kw)
    x2 = fix(json.loads(json.dumps(x2, default=str)))
    d = first_diff(full(x1), full(x2))
    rnd = 2
    if d is None:
        x3, t3 = hop(fix(json.loads(json.dumps(x2))), **kw)
        d = first_diff(full(x2), full(fix(json.loads(json.dumps(x3, default=str)))))
        rnd = 3
    if d is None:
        return []
    field, what = d
    docs = " ".join(p.get("doc", "") for p in ir["params"].values())
    doc_class = ("whether" if "whether" in docs else "number" if "number of" in docs else "listof" if "list of" in docs else "embedded-default" if "Defaults to" in docs
                 else "ellipsis" if "..." in docs else "pk" if "[PK]" in docs
                 else "paren-default-inline" if re.search(r"\(default[^)]*\)\s*[^\s.]", docs) else "plain")
    src = {}
    if field in ("typ", "doc", "default"):
        src = ir["params"].get(what.split(".")[0], {})
        if doc_class in ("whether", "number", "listof", "embedded-default"):
            # for the trigger-word family the position of the parameter matters (the ReST parser re-reads the default of the
            # last parameter only): keep it in the class so that a drift at a new position is a new class
            names_ = list(ir["params"])
            pname = what.split(".")[0]
            doc_class += "@last" if names_ and names_[-1] == pname else "@notlast"
    if not src and any(len(p.get("typ") or "") > 85 for p in ir["params"].values()):
        # failures not tied to one parameter (names, returns, doc) on an interface with a type the word-wrapper breaks
        return [(("fixpoint", fmt if fmt != "sqlalchemy" else variant, style, "default_doc=%s" % edd, "doc:" + doc_class, field, "wrapped-type", "-"),
                 "round %d differs from round %d: %s" % (rnd, rnd - 1, what), None)]
    return [(("fixpoint", fmt if fmt != "sqlalchemy" else variant, style, "default_doc=%s" % edd, "doc:" + doc_class, field, M.typ_class(src.get("typ")) if src else "-", M.default_class(src) if src else "-"),
             "round %d differs from round %d: %s" % (rnd, rnd - 1, what), None)]


def invented_default_rule():
    """
    Shape rule on the argparse parser (parse_out_param): the default it INVENTS for a required argument that has none (the zero
    of a simple type, else NoneStr) is derived from the raw `type=` keyword, i.e. BEFORE `choices=` / action='append' are folded
    into the type.  The emitter re-emits an invented 0 / '' verbatim, but treats NoneStr as "not required": deriving the
    default from the folded type (List[..], Literal[..]) makes round 2 differ from round 1.  -> (ok | None, detail)
    """
    f, _s, _p = extract.find_def("cdd.argparse_function.utils.emit_utils", "parse_out_param")
    if f is None:
        return None, "parse_out_param not found"
    invent = [n for n in f.body if isinstance(n, ast.If) and ast.unparse(n.test) == "default is None" and "simple_types[typ]" in ast.unparse(n)]
    folds = [n for n in f.body if (isinstance(n, ast.If) and ast.unparse(n.test) == "action == 'append'") or
             (isinstance(n, (ast.Assign, ast.AnnAssign)) and ast.unparse(n.targets[0] if isinstance(n, ast.Assign) else n.target) == "typ" and "'choices'" in ast.unparse(n))]
    if len(invent) != 1 or not folds:
        return None, "the default-inventing `if default is None:` (%d found) or the statements that fold choices / append into the type (%d found) were not recognised" % (len(invent), len(folds))
    ok = all(invent[0].lineno < x.lineno for x in folds)
    return ok, ("the default invented for a required argument is computed (line %d) before choices / append are folded into the type (lines %s)" % (invent[0].lineno, [x.lineno for x in folds]) if ok
                else "the default for a required argument is invented at line %d, AFTER the type was folded at line(s) %s" % (invent[0].lineno, [x.lineno for x in folds if x.lineno < invent[0].lineno]))


def invented_default_replay(_name=None):
    """three argparse rounds of required parameters whose type the emitter spells with choices= / action='append'"""
    for typ_ in ("List[int]", "List[str]", "Literal['a', 'b']"):
        ir = domain.make_ir(((typ_, domain.ABSENT, "the {name}"),))
        for cell in (("argparse", "rest", True, None), ("argparse", "google", False, None)):
            try:
                r = contract(cell, ir)
            except Exception:
                continue
            for key, what, _x in r:
                return {"cell": list(cell), "ir": json.loads(json.dumps(ir, default=str)), "what": what[:300]}
    return None


def main(tier, write_baseline=False):
    run = Run("C08", tier, "other", checker_cmd=common.checker_cmd("C08", tier))
    run.confirm_abstracted = (':set_default_doc/',)  # refutations of these exact contracts count only with an input that fails on the real code (report.Run.violation)
    M.RAISE_CTX.update(prop="C08", write=bool(write_baseline))
    run.trusted_base.update(["cddvc E1 (records with presence bits, string VCs)", "z3 5.1"])
    refuted = e1.run_contracts(run, "contracts.C08")
    ok, detail = help_rule()
    run.add("C08/structural/argparse-help-verbatim", PROVED if ok else (UNDECIDED if ok is None else REFUTED), "rule-engine", detail=detail)
    rule_refuted, rule_inputs = run.confirm_or_undecide([("C08/structural/argparse-help-verbatim", detail)] if ok is False else [], help_replay)
    ok2, detail2 = invented_default_rule()
    run.add("C08/structural/argparse-invented-default-from-the-raw-type", PROVED if ok2 else (UNDECIDED if ok2 is None else REFUTED), "rule-engine", detail=detail2)
    rr2, ri2 = run.confirm_or_undecide([("C08/structural/argparse-invented-default-from-the-raw-type", detail2)] if ok2 is False else [], invented_default_replay)
    rule_refuted += rr2
    rule_inputs.update(ri2)
    if write_baseline:
        common.write_baseline("C08", [n for n, o in run.obligations.items() if o["status"] == "proved"])
    compare_baseline(run, set(run.obligations))
    fails = {}
    if not os.environ.get("VERIF_NO_BOUNDED"):
        total, raised_all = 0, 0
        groups = []
        pool = domain.param_pool(TYPES, docs=DOCS)
        legal = list(domain.irs(1, pool, suffix_defaults=True)) + list(domain.irs(2, pool, sample=150 if tier == "quick" else 1500, seed=run.seed, suffix_defaults=True))
        nonsuffix = [ir for ir in domain.irs(2, pool, sample=150 if tier == "quick" else 1500, seed=run.seed + 1, suffix_defaults=False) if ir is not None]
        code_cells = [(f, s, e, None) for f in ("class", "pydantic", "function", "argparse") for s in ("rest", "google", "numpydoc") for e in (True, False)]
        groups.append((code_cells + [("docstring", s, e, None) for s in ("google", "numpydoc") for e in (True, False)], legal))
        groups.append(([("docstring", "rest", e, None) for e in (True, False)], legal + nonsuffix))
        # descriptions that BEGIN with the default announce (nothing in front of "Defaults to"): the clause is cut out at
        # position 0 (the defect repaired by the "fix: ... begins with 'Defaults to'" commit made the text double every round)
        announce_first = [domain.make_ir(((t_, domain.ABSENT, d_),)) for t_ in ("int", "str", "Optional[int]")
                          for d_ in ("Defaults to 5. More about the {name}", "Defaults to 5", "(default: 5) for the {name}", "defaults to 5, usually")]
        groups.append(([("docstring", s, e, None) for s in ("rest", "google", "numpydoc") for e in (True, False)] + [("function", "rest", e, None) for e in (True, False)], announce_first))
        jpool = domain.param_pool(JSON_TYPES, docs=DOCS[:4] + [""])
        groups.append(([("json_schema", "rest", True, None)], list(domain.irs(1, jpool)) + list(domain.irs(2, jpool, sample=100, seed=run.seed))))
        spool = domain.param_pool(SQL_TYPES, docs=["the {name}", "ends in an ellipsis etc...", "[PK] the key", ""])
        groups.append(([("sqlalchemy", "rest", True, v) for v in ("sqlalchemy", "sqlalchemy_table", "sqlalchemy_hybrid")], list(domain.irs(1, spool)) + list(domain.irs(2, spool, sample=100, seed=run.seed))))
        ncells = 0
        for cells, irs in groups:
            n, raised, f = M.run(cells, irs, contract)
            total += n
            raised_all += raised
            ncells += len(cells)
            for k, v in f.items():
                fails.setdefault(k, v)
        run.bounded.append({
            "name": "fixpoint contract rt(rt(x)) == rt(x) (and a third round) on the real emitters/parsers (bounded, NOT counted as proved)",
            "bound": "%d cells: class/pydantic/function/argparse x 3 styles x emit_default_doc; docstring google/numpydoc on the signature-legal domain, docstring rest also with non-suffix defaults; json_schema; sqlalchemy, sqlalchemy_table, sqlalchemy_hybrid; descriptions include the trigger words number / whether / list of, an embedded 'Defaults to', a trailing ellipsis; n <= 1 exhaustive, n = 2 sampled; %d evaluations raised" % (ncells, raised_all),
            "rule": "one evaluation = three rounds of one (cell, interface)",
            "evaluations": total, "distinct_nontrivial": total - raised_all,
            "failures": [{"class": "|".join(map(str, k)), "what": v[2][:300]} for k, v in list(fails.items())[:6]],
        })
    seen = set()
    for o in refuted:
        if o["name"] in seen:
            continue
        seen.add(o["name"])
        run.violation(o["name"], "obligation refuted by %s on path %s" % (o["backend"], " ".join(o["trace"])),
                      failing_input=(common.set_default_doc_replay() if ":set_default_doc/" in o["name"] else None) or common.model_replay("contracts.C08", o) or common.model_replay("contracts.C01", o), solver_output={"model": o["model"], "smt2": (o["smt2"] or "")[:4000]})
    for name, det in rule_refuted:
        run.violation(name, det + " -- " + rule_inputs[name]["what"], failing_input=rule_inputs.get(name), solver_output={"rule": det})
    M.report(run, "C08/bounded", fails)
    M.flush_raise_baseline()
    common.apply_controls(run, tier)
    return run.finish(explanation="PROVED (lemma): set_default_doc is idempotent in the sense that matters (never a second 'Defaults to'). BOUNDED only: the fixpoint property itself.")


def replay(path):
    d = json.load(open(path))
    inp = d.get("failing_input") or {}
    print("replaying %s: obligation %s" % (path, d["failed_obligation"]))
    if "ir" not in inp:
        return 1
    from collections import OrderedDict

    ir = inp["ir"]
    ir["params"] = OrderedDict(ir["params"])
    r = contract(tuple(inp["cell"]), ir)
    print(r)
    return 1 if r else 0

"""
C02 — class, pydantic, function and argparse emit -> parse round-trip.

Deciding step (lemma, E1 block contract, all signatures): the defaults-padding block of function.parse — afterwards
every parameter has a default slot and the real defaults are aligned with the LAST parameters.
Bounded (stand-in, NOT proved): pi(parse_f(reparse(to_code(emit_f(ir))))) == norm_f(pi(ir)) on the real code over
IR(n) x formats x docstring style x emit_default_doc (x type_annotations, kw-only for functions).
"""

import json
import os

from cddvc import e1
from cddvc.report import Run, compare_baseline
from checks import common, domain, roundtrip as R, rt_matrix as M

TYPES = ["int", "float", "str", "bool", "Optional[int]", "Optional[str]", "Literal['x', 'y']", "List[str]", "Union[int, str]"]


def contract(cell, ir):
    fmt, style, edd, ta, kwonly = cell
    back, text = R.HOPS[fmt](ir, style=style, emit_default_doc=edd, type_annotations=ta, kwonly=kwonly)
    want = json.loads(json.dumps(ir))
    for side in (want, back):
        for n, p in list(side["params"].items()) + list(((side.get("returns") or {}) or {}).items()):
            p["doc"] = M.strip_default_clause(p.get("doc"))
    if fmt == "function":
        for n, p in want["params"].items():
            if "default" not in p:
                p["default"] = domain.NONE  # documented normalisation: a parameter without default is shown as `=None`
    keep_ret = fmt != "argparse" or bool(((want.get("returns") or {}).get("return_type") or {}).get("default"))
    d = R.diff(R.interface(want, keep_returns=keep_ret), R.interface(back, keep_returns=keep_ret))
    if not d:
        return []
    field = "names" if d.startswith("parameter names") else ("returns" if d.startswith("return entry") else (d.split(":")[0] if d.startswith("returns.") else d.split(":")[0].split(".")[-1]))
    src = ir["params"].get(d.split(".")[0], {}) if field not in ("names", "returns") and not field.startswith("returns.") else {}
    opts = "annotations=%s,kwonly=%s" % (ta, kwonly) if fmt == "function" else "-"
    if field == "returns" or field.startswith("returns."):
        # failures on the return entry are keyed by the shape of the entry that went in
        shape = "+".join(k for k in ("typ", "doc", "default") if k in ((ir.get("returns") or {}).get("return_type") or {})) or "none"
        return [(("roundtrip", fmt, style, "default_doc=%s" % edd, opts, field, "ret", shape), "%s; emitted source:\n%s" % (d, text[-400:]), None)]
    return [(("roundtrip", fmt, style, "default_doc=%s" % edd, opts, field, M.typ_class(src.get("typ")) if src else "-", M.default_class(src) if src else "-"),
             "%s; emitted source:\n%s" % (d, text[-400:]), {"param_doc": src.get("doc")} if src else None)]


def cells_for(tier):
    out = []
    for style in ("rest", "google", "numpydoc"):
        for edd in (True, False):
            for fmt in ("class", "pydantic", "argparse"):
                out.append((fmt, style, edd, True, False))
            for ta in (True, False):
                for kw in (True, False):
                    out.append(("function", style, edd, ta, kw))
    return out


def optional_prose_replay():
    """The block contract on the Optional-from-prose step, on the real emitters / parsers: a description that does not START with
    the capitalised word leaves the type alone"""
    for doc in ("optional {name}, in seconds", "OPTIONAL {name}", "(optional) {name}", "the {name}, Optional", "the Optional {name}", "optionally the {name}", "Option {name}", " Optional {name}"):
        for typ_, dflt in (("float", 1.5), ("str", domain.ABSENT), ("List[str]", domain.ABSENT)):
            for cell in (("class", "rest", False, True, False), ("function", "google", False, True, False), ("pydantic", "rest", False, True, False)):
                ir = domain.make_ir(((typ_, dflt, doc),))
                try:
                    r = [x for x in contract(cell, ir) if "typ" in x[0]]
                except Exception:
                    r = []
                if r:
                    return {"cell": list(cell), "ir": json.loads(json.dumps(ir, default=str)), "what": r[0][1][:300]}
    return None


def main(tier, write_baseline=False):
    run = Run("C02", tier, "other", checker_cmd=common.checker_cmd("C02", tier))
    run.confirm_abstracted = ('interpolate_defaults', '_infer_default')  # refutations of these exact contracts count only with an input that fails on the real code (report.Run.violation)
    M.RAISE_CTX.update(prop="C02", write=bool(write_baseline))
    run.trusted_base.update(["cddvc E1 block contracts (access paths via getattr/setattr, Seq views)", "z3 5.1 sequences"])
    refuted = e1.run_contracts(run, "contracts.C02")
    if write_baseline:
        common.write_baseline("C02", [n for n, o in run.obligations.items() if o["status"] == "proved"])
    compare_baseline(run, set(run.obligations))
    fails = {}
    if not os.environ.get("VERIF_NO_BOUNDED"):
        pool = domain.param_pool(TYPES, docs=["the {name}", "The {name} of it.", "first line\nsecond line of the {name}", "ratio: a to b", "Gr\u00f6\u00dfe des {name} (Ma\u00df)",
                                                  # prose about optionality: only a description that STARTS with the capitalised word is
                                                  # (by a documented heuristic, a known finding) allowed to change the type
                                                  "optional {name}, in seconds", "the {name}, optional", "Optional {name} of it"])
        irs = list(domain.irs(1, pool, suffix_defaults=True)) + list(domain.irs(3 if tier == "thorough" else 2, pool, sample=250 if tier == "quick" else 2500, seed=run.seed, suffix_defaults=True))
        irs += [ir for ir in domain.irs(1, pool[:8], suffix_defaults=True, returns=(("typ", "int"), ("doc", "the result"), ("default", 5)))]
        irs += [ir for ir in domain.irs(1, pool[:4], suffix_defaults=True, returns=(("typ", "Tuple[int, int]"), ("doc", "the pair"), ("default", "```(alpha, beta)```")))]
        # return entries without a description, interleaved: value-and-type, type only (state carried from one parse
        # to the next in the same process shows up as a foreign default / type on the second)
        for ir_a, ir_b in zip(domain.irs(1, pool[:4], suffix_defaults=True, returns=(("typ", "int"), ("default", 5))),
                              domain.irs(1, pool[:4], suffix_defaults=True, returns=(("typ", "str"),))):
            irs += [ir_a, ir_b]
        cells = cells_for(tier)
        n, raised, fails = M.run(cells, irs, contract)
        run.bounded.append({
            "name": "round-trip contract on the real class / pydantic / function / argparse emitters and parsers (bounded, NOT counted as proved)",
            "bound": "%d interface descriptions (n <= 1 exhaustive over %d shapes, n <= %d seeded sample, 20 with return entries) x %d cells (formats x 3 styles x emit_default_doc x {annotations, kw-only} for functions); %d evaluations raised" % (len(irs), len(pool), 3 if tier == "thorough" else 2, len(cells), raised),
            "rule": "one evaluation per (interface, cell)",
            "evaluations": n, "distinct_nontrivial": len({json.dumps(domain.project(i), default=str) for i in irs if i["params"]}) * len(cells),
            "failures": [{"class": "|".join(map(str, k)), "what": v[2][:300]} for k, v in list(fails.items())[:6]],
        })
    seen = set()
    for o in refuted:
        if o["name"] in seen:
            continue
        seen.add(o["name"])
        run.violation(o["name"], "obligation refuted by %s on path %s" % (o["backend"], " ".join(o["trace"])), failing_input=(optional_prose_replay() if "optional-from-prose" in o["name"] else (interpolate_replay() if "interpolate_defaults" in o["name"] else (common.infer_default_replay() if "_infer_default" in o["name"] else None))) or common.model_replay("contracts.C02", o),
                      solver_output={"model": o["model"], "smt2": (o["smt2"] or "")[:4000]})
    M.report(run, "C02/bounded", fails)
    M.flush_raise_baseline()
    common.apply_controls(run, tier)
    return run.finish(explanation="PROVED (lemma): defaults stay aligned with the last parameters through function.parse's padding. BOUNDED only: the round-trip itself.")


def interpolate_replay():
    """The contract on interpolate_defaults on the real function: an announced default replaces a provisional one; none leaves the key alone"""
    import copy

    from cdd.docstring.utils.emit_utils import interpolate_defaults

    for p in ({"doc": "the x. Defaults to 5", "typ": "int", "default": 7}, {"doc": "the label. Defaults to all done, enjoy", "typ": "str", "default": "all\n    done, enjoy"},
              {"doc": "the x", "typ": "int", "default": 7}, {"doc": "the x", "typ": "int"}, {"doc": "the x. Defaults to 5", "typ": "int"}):
        for edd in (True, False):
            mine = copy.deepcopy(p)
            try:
                interpolate_defaults(("x", mine), emit_default_doc=edd)
            except Exception:
                continue
            announced = "Defaults to" in p["doc"]
            want = ({"int": 5}.get(p["typ"], "all done, enjoy") if announced else p.get("default", "<absent>"))
            got = mine.get("default", "<absent>")
            if got != want:
                return {"call": "cdd.docstring.utils.emit_utils.interpolate_defaults(('x', %r), emit_default_doc=%r)" % (p, edd),
                        "what": "the entry's default is %r afterwards; %s" % (got, "the description announces %r (a later reading has to replace an earlier, provisional one)" % (want,) if announced else "the description announces none, so it should have stayed %r" % (want,))}
    return None


def replay(path):
    d = json.load(open(path))
    inp = d.get("failing_input") or {}
    print("replaying %s: obligation %s" % (path, d["failed_obligation"]))
    if "ir" not in inp:
        return 1
    from collections import OrderedDict

    ir = inp["ir"]
    ir["params"] = OrderedDict(ir["params"])
    if ir.get("returns"):
        ir["returns"] = OrderedDict((k, OrderedDict(v)) for k, v in ir["returns"].items())
    r = contract(tuple(inp["cell"]), ir)
    print(r)
    return 1 if r else 0

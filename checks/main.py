"""CLI: python -m checks.main <ID> [--tier quick|thorough] [--replay FILE] [--write-baseline]"""

import argparse
import importlib
import json
import os
import sys
import traceback


def main():
    ap = argparse.ArgumentParser()
    ap.add_argument("prop")
    ap.add_argument("--tier", default=os.environ.get("VERIF_TIER", "quick"), choices=["quick", "thorough"])
    ap.add_argument("--replay", default=None)
    ap.add_argument("--write-baseline", action="store_true")
    a = ap.parse_args()
    try:
        mod = importlib.import_module("checks.%s" % a.prop)
    except ImportError:
        traceback.print_exc()
        print("no check for %s" % a.prop)
        return 3
    if a.replay:
        return mod.replay(a.replay)
    try:
        code = mod.main(a.tier, write_baseline=a.write_baseline)
    except SystemExit:
        raise
    except Exception:
        traceback.print_exc()
        print("ENGINE-ERROR property=%s the check crashed (never a violation)" % a.prop)
        return 3
    return code


if __name__ == "__main__":
    sys.exit(main())

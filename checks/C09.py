"""
C09 — the concrete syntax tree is lossless and its nodes tile the file.

Deciding step: E1 discharges every obligation of the contracts in contracts/C09.py on the
functions extracted from /repo's current source (unbounded: all strings).
Stand-in (labelled bounded, never counted as proved): the same postcondition evaluated on the
real `cst_parse` / `cst_scan` over all strings of <= N lexical symbols plus every *.py of the repo;
it is also where a refuted obligation gets its concrete failing input.
"""

import itertools
import json
import os
import random

from cddvc import e1
from cddvc.report import REFUTED, Run, compare_baseline
from checks import common

ALPHABET = [
    "\n", "    ", '"', "'", '"""', "'''", "#", "\\", "(", ")", "[", "]", "{", "}", ":", "=", "@", ";", "def ", "class ", "x", " ",
]


def property_holds(src, nodes):
    """The property statement, evaluated on a concrete result.  -> None or a description"""
    vals = [n.value for n in nodes]
    if "".join(vals) != src:
        return "concatenation of node texts differs from the input: %r" % ("".join(vals)[:120],)
    prev_end = None
    for i, n in enumerate(nodes):
        if i == 0 and n.line_no_start != 1:
            return "first node starts at line %r, not 1" % (n.line_no_start,)
        if prev_end is not None and n.line_no_start != prev_end:
            return "node %d starts at line %r but the previous one ended at %r" % (i, n.line_no_start, prev_end)
        if n.line_no_end - n.line_no_start != n.value.count("\n"):
            return "node %d spans %r lines but its text has %d line breaks" % (i, n.line_no_end - n.line_no_start, n.value.count("\n"))
        prev_end = n.line_no_end
    return None


def check_one(src):
    """Runtime evaluation of the function-level contracts and the top-level property on one input"""
    import cdd.shared.cst
    import cdd.shared.cst_utils as cu

    # cst_scan contract (conservation) on (scanned=[], stack=list(src))
    scanned, stack = [], list(src)
    try:
        cu.cst_scan(scanned, stack)
        if "".join(scanned) + "".join(stack) != src:
            return ("cdd.shared.cst_utils:cst_scan", "ensures[0] (conservation) fails: scanned=%r stack=%r" % (scanned, "".join(stack)))
        sc = cu.cst_scanner(src)
        if "".join(sc) != src:
            return ("cdd.shared.cst_utils:cst_scanner", "ensures[0] joined(result) == source fails: %r" % (sc,))
        nodes = cdd.shared.cst.cst_parse(src)
    except Exception as ex:  # "for every string whatsoever": an exception means no node list reproduces the input
        return ("cdd.shared.cst:cst_parse", "raised %s: %s" % (type(ex).__name__, str(ex)[:120]))
    bad = property_holds(src, nodes)
    if bad:
        return ("cdd.shared.cst:cst_parse", bad)
    return None


def _chunk(args):
    n, first = args
    ev, fails = 0, []
    for rest in itertools.product(ALPHABET, repeat=n - 1) if n > 0 else [()]:
        src = first + "".join(rest) if n > 0 else ""
        ev += 1
        r = check_one(src)
        if r and r[0] != "raise":
            fails.append((src, r))
            if len(fails) > 3:
                break
    return ev, fails


MULTI_SPLIT = [
    'def g(): """foo : bar ; can"""; pass\n',
    "def f(): '''doc''' # c\n",
    "class A: pass; class B: pass; x = 1\n",
    "def f(a): '''d'''; return a; # tail\nx = 2\n",
    "class K:\n    @staticmethod\n    def m(): return 1  # one-liner\n\n    def n(self):\n        pass\n",
    "class K:\n    @dec  # why\n    def m(self): '''doc'''; x = 1; return x\n    y = 2\n",
    "if a: b = 1; c = 2; d = 3\nelse: e = 4; f = 5\n",
    "def :''''''a", "def :def :a", "x = 1; y = 2; z = 3; w = 4\n",
    'def h():\n    """multi\n    line"""; a = 1; b = 2  # c\n    return a\n',
]


def bounded(tier):
    n_max = 3 if tier == "quick" else 4
    jobs = [(0, "")] + [(n, a) for n in range(1, n_max + 1) for a in ALPHABET]
    res = common.pmap(_chunk, jobs, chunksize=1)
    ev = sum(r[0] for r in res)
    fails = [f for r in res for f in r[1]]
    # every python file of the repository, twice in one process (catches cross-call state)
    files = [f for f in common.py_files() if tier == "thorough" or os.path.getsize(f) <= 16000]
    file_fails = common.pmap(_file, sorted(files, key=os.path.getsize, reverse=True), chunksize=1)
    ev += len(files)
    fails += [f for f in file_fails if f]
    # hand-written lines in which ONE scanned statement is split several times (one-line definitions with docstrings,
    # trailing comments, several statements on a line, decorated definitions): out of reach of the short enumeration
    multi = common.pmap(_src, MULTI_SPLIT)
    ev += len(MULTI_SPLIT)
    fails += [f for f in multi if f]
    # seeded random mutations of repo files (thorough)
    if tier == "thorough":
        rnd = random.Random(int(os.environ.get("VERIF_SEED", "0") or 0))
        muts = []
        for f in files:
            s = open(f, encoding="utf-8").read()
            for _ in range(3 if len(s) <= 16000 else 0):
                if not s:
                    continue
                i = rnd.randrange(len(s))
                muts.append(s[:i] + rnd.choice(ALPHABET) + s[i + rnd.randrange(3):])
        mf = common.pmap(_src, muts)
        ev += len(muts)
        fails += [f for f in mf if f]
    return {
        "name": "bounded cross-check of the C09 contracts on the real functions (NOT counted as proved)",
        "bound": "all strings of <= %d symbols over a %d-symbol lexical alphabet; %s *.py files under cdd/ (quick: those <= 16 kB; cst_scan is quadratic); thousands of calls per process, so cross-call state shows; %d hand-written multi-split lines%s"
        % (n_max, len(ALPHABET), len(files), len(MULTI_SPLIT), "; 3 seeded single-symbol mutations per file" if tier == "thorough" else ""),
        "rule": "distinct input strings; non-trivial = non-empty",
        "evaluations": ev,
        "distinct_nontrivial": ev - 1 - len(files),
        "exhaustive": True,
        "failures": [{"input": f[0][:400], "function": f[1][0], "what": f[1][1][:300]} for f in fails[:5]],
    }


def _file(path):
    src = open(path, encoding="utf-8").read()
    r = check_one(src)
    if r and r[0] != "raise":
        return (src if len(src) < 400 else "<contents of %s>" % path, r)
    return None


def _src(src):
    r = check_one(src)
    if r and r[0] != "raise":
        return (src, r)
    return None


def main(tier, write_baseline=False):
    run = Run("C09", tier, "proof", checker_cmd=common.checker_cmd("C09", tier))
    run.trusted_base.update(
        [
            "cddvc E1 VC generator (/verif/cddvc/symexec.py) and its model of Python semantics (DESIGN.md §3)",
            "z3 5.1 (string/sequence theory), cvc5 1.0.3 and z3 4.8.12 as fall-backs",
            "abstract list views (len, joined / node-list ghosts) faithfully summarise list.append/clear/''.join",
            "CPython executes the extracted functions as the ast says (no monkey-patching of cdd.shared.cst_utils at run time)",
        ]
    )
    refuted = e1.run_contracts(run, "contracts.C09")
    # totality of the helper the parser calls on every statement (discharges "get_construct_name is a total function")
    refuted += e1.run_contracts(run, "contracts.C09_total")

    def struct_replay(_name):
        # the clause the decorator / wrapper side conditions carry: the contracts of cst_parse on real inputs
        b_ = bounded("quick")
        f_ = b_["failures"]
        return {"call": f_[0]["function"], "source": f_[0]["input"], "what": f_[0]["what"]} if f_ else None

    refuted, s_inputs = run.confirm_or_undecide(refuted, struct_replay)
    if write_baseline:
        common.write_baseline("C09", [n for n, o in run.obligations.items() if o["status"] == "proved"])
    compare_baseline(run, set(run.obligations))
    if os.environ.get("VERIF_NO_BOUNDED"):
        fails = []
    else:
        b = bounded(tier)
        run.bounded.append(b)
        fails = b["failures"]
    seen = set()
    for o in refuted:
        if o["name"] in seen:
            continue
        seen.add(o["name"])
        fn = o["name"].split("/")[1]
        # concrete input: first bounded failure on the same function, else any failure
        cand = [f for f in fails if f["function"] == fn] or fails
        run.violation(
            o["name"],
            "obligation refuted by %s on path %s%s" % (o["backend"], " ".join(o["trace"]), "; concrete failing input found by the bounded stand-in: " + cand[0]["what"] if cand else ""),
            failing_input=s_inputs.get(o["name"]) or ({"call": cand[0]["function"], "source": cand[0]["input"]} if cand else None),
            solver_output={"model": o["model"], "smt2": (o["smt2"] or "")[:6000], "notes": o["notes"]},
        )
    if fails and not refuted:
        f = fails[0]
        run.violation(
            "C09/%s/bounded-contract" % f["function"],
            "runtime contract fails on a concrete input although no deductive obligation was refuted "
            "(effect outside the verified functions, e.g. cross-call state): " + f["what"],
            failing_input={"call": f["function"], "source": f["input"]},
        )
    common.apply_controls(run, tier)
    return run.finish(
        explanation="Deductive: every obligation of contracts/C09.py discharged on the current source, for all strings. "
        "The bounded stand-in is a cross-check only."
    )


def replay(path):
    d = json.load(open(path))
    inp = d.get("failing_input")
    print("replaying %s: obligation %s" % (path, d["failed_obligation"]))
    if not inp:
        print("no failing input recorded (no-failing-input-found); verifier output:\n%s" % json.dumps(d.get("verifier_output"), indent=1)[:3000])
        return 1
    r = check_one(inp["source"])
    print("input %r -> %s" % (inp["source"][:200], r))
    return 1 if r else 0

"""
C05 — SQLAlchemy class, Table and hybrid forms round-trip and agree.

Deciding step (lemma, E1 block contract, all inputs): in ensure_has_primary_key, when no column carries '[PK]',
exactly one column is written / updated and its description then starts with '[PK]' (so every emission has a
primary key, and the inference never marks two).
Bounded (stand-in, NOT proved): round-trip of each variant, agreement of the three, exactly one primary key — on the
real emitters/parsers over the SQL-representable slice of IR(n).
"""

import json
import os
import re

from cddvc import e1
from cddvc.report import Run, compare_baseline
from checks import common, domain, roundtrip as R, rt_matrix as M

TYPES = ["int", "float", "str", "bool", "Optional[dict]", "Optional[int]", "Optional[str]", "Literal['x', 'y']", "Literal[0, 1, 2]"]
DOCS = ["the {name}", "[PK] Product stock keeping unit", "[PK] the key", "[FK(other_tbl.id)] ref to other", "ends in an ellipsis etc...", ""]
VARIANTS = ("sqlalchemy", "sqlalchemy_table", "sqlalchemy_hybrid")


def legal(ir):
    pks = sum(1 for p in ir["params"].values() if p.get("doc", "").startswith("[PK]"))
    if pks > 1:
        return False
    for n, p in ir["params"].items():
        if p.get("typ", "").startswith("Optional[") and p.get("default", domain.NONE) not in (domain.NONE,):
            return False  # domain: Optional[..] without non-None default
    return True


def cols(ir):
    out = []
    for n, p in (ir.get("params") or {}).items():
        out.append((n, p.get("typ"), (type(p["default"]).__name__, p["default"]) if "default" in p and p["default"] != domain.NONE else None, domain.norm_doc(p.get("doc")).rstrip(".")))  # the emitter writes comments without trailing full stops
    return out


def contract(cell, ir):
    style, force = cell
    out = []
    results = {}
    want = cols(ir)
    for v in VARIANTS:
        try:
            back, text = R.hop_sqlalchemy(ir, variant=v, style=style, force_pk_id=force)
        except Exception as ex:
            out.append((("raises-" + v, style, "force_pk_id=%s" % force, "-", "-"), "%s: %s" % (type(ex).__name__, str(ex)[:120]), None))
            continue
        got = cols(back)
        results[v] = got
        npk = len(re.findall(r"primary_key=True", text))
        if npk != 1:
            out.append((("pk-count", v, style, "force_pk_id=%s" % force, str(npk)), "%d primary keys in the emission:\n%s" % (npk, text[-400:]), None))
        # columns added by the emitter (the inferred `id` key) are not part of the comparison
        got_cmp = [c for c in got if c[0] in ir["params"]]
        if [c[0] for c in got_cmp] != [c[0] for c in want]:
            out.append((("roundtrip", v, style, "names", "-", "-"), "columns %r vs %r" % ([c[0] for c in got_cmp], [c[0] for c in want]), None))
            continue
        for (n, t, d, doc), (_n, t2, d2, doc2) in zip(want, got_cmp):
            src = ir["params"][n]
            for field, a, b in (("typ", t, t2), ("default", d, d2), ("doc", doc, doc2)):
                if a != b:
                    pk_inferred = field == "doc" and b == ("[PK] " + a).strip() if a is not None else False
                    if pk_inferred:
                        continue  # the inferred primary-key marker is the documented behaviour
                    out.append((("roundtrip", v, style, field, M.typ_class(src.get("typ")), M.default_class(src), "doc:" + ("pk" if "[PK]" in src.get("doc", "") else "fk" if "[FK" in src.get("doc", "") else "ellipsis" if "..." in src.get("doc", "") else "empty" if not src.get("doc") else "plain")),
                                "%s.%s: %r came back as %r" % (n, field, a, b), None))
                    break
    # the public hybrid parser on the hybrid emission
    try:
        import ast as _ast

        import cdd.sqlalchemy.emit
        import cdd.sqlalchemy.parse

        node = cdd.sqlalchemy.emit.sqlalchemy_hybrid(json.loads(json.dumps(ir)) and ir, class_name="Conf", table_name="conf_tbl", emit_repr=False, emit_create_from_attr=False, docstring_format=style, force_pk_id=force)
        with R.quiet():
            hb = cdd.sqlalchemy.parse.sqlalchemy_hybrid(_ast.parse(R.to_src(node)).body[0])
        if "sqlalchemy_table" in results and [c for c in cols(hb) if c[0] in ir["params"]] != [c for c in results["sqlalchemy_table"] if c[0] in ir["params"]]:
            out.append((("hybrid-parser-disagrees", style, "-", "-", "-"), "parse.sqlalchemy_hybrid gives %r" % cols(hb), None))
    except Exception as ex:
        out.append((("hybrid-parser-raises", type(ex).__name__, "-", "-", "-"), "parse.sqlalchemy_hybrid on the hybrid emission raises %s: %s" % (type(ex).__name__, str(ex)[:100]), None))
    if len(results) == 3 and not (results["sqlalchemy"] == results["sqlalchemy_table"] == results["sqlalchemy_hybrid"]):
        diffv = [v for v in VARIANTS if results[v] != results["sqlalchemy_table"]]
        out.append((("variants-disagree", "+".join(diffv), style, "force_pk_id=%s" % force, "-"), "class %r\ntable %r\nhybrid %r" % (results["sqlalchemy"], results["sqlalchemy_table"], results["sqlalchemy_hybrid"]), None))
    return out


def main(tier, write_baseline=False):
    run = Run("C05", tier, "other", checker_cmd=common.checker_cmd("C05", tier))
    run.confirm_abstracted = ('default-emitted-as-given',)  # refutations of these exact contracts count only with an input that fails on the real code (report.Run.violation)
    M.RAISE_CTX.update(prop="C05", write=bool(write_baseline))
    run.trusted_base.update(["cddvc E1 block contracts with symbolic-key maps whose unknown base entries are materialised on read", "z3 5.1"])
    run.assumptions.add("idiom: any(filter(rpartial(str.startswith, '[PK]'), map(methodcaller('get', 'doc', ''), params.values()))) is true iff some column description starts with '[PK]' (the branch condition of the verified block)")
    refuted = e1.run_contracts(run, "contracts.C05")
    def enum_replay(_name):
        # the clause the Literal -> Enum rule carries, on the real emitters / parsers: Literals of ints / mixed members round-trip
        for typ_ in ("Literal[0, 1, 2]", "Literal['x', 'y']", "Optional[Literal[0, 5, 10]]", "Literal[1, 'a']", "Literal[-1, 1]"):
            ir = domain.make_ir(((typ_, domain.ABSENT, "the {name}"),))
            for cell in (("rest", False), ("google", True)):
                try:
                    r = [x for x in contract(cell, ir) if "typ" in x[0]]
                except Exception:
                    r = []
                if r:
                    return {"cell": list(cell), "ir": json.loads(json.dumps(ir, default=str)), "what": r[0][1][:300]}
        return None

    refuted, rule_inputs = run.confirm_or_undecide(refuted, enum_replay, is_rule=lambda n: "/structural/literal-enum/" in n)

    def default_replay():
        # the clause the block contract on `default=` carries, on the real emitters / parsers: defaults of every kind of column
        # (incl. a JSON column whose default is the text of a dict literal) come back, from all three variants
        for typ_, dflt in (("dict", "{}"), ("dict", '{"seats": 3}'), ("str", "x"), ("int", 3), ("Optional[int]", domain.NONE), ("bool", False)):
            ir = domain.make_ir((("str", domain.ABSENT, "[PK] the {name}"), (typ_, dflt, "the {name}")))
            for cell in (("rest", False), ("google", True)):
                try:
                    r = contract(cell, ir)
                except Exception as ex:
                    r = [(("raises",), "%s: %s" % (type(ex).__name__, str(ex)[:200]), None)]
                r = [x for x in r if run.match_finding({"class": "|".join(str(k) for k in x[0]), "obligation": "C05/bounded/%s" % x[0][0]}) is None]
                if r:
                    return {"cell": list(cell), "ir": json.loads(json.dumps(ir, default=str)), "what": r[0][1][:300]}
        return None
    if write_baseline:
        common.write_baseline("C05", [n for n, o in run.obligations.items() if o["status"] == "proved"])
    compare_baseline(run, set(run.obligations))
    fails = {}
    if not os.environ.get("VERIF_NO_BOUNDED"):
        pool = domain.param_pool(TYPES, docs=DOCS)
        irs = [i for i in list(domain.irs(1, pool)) + list(domain.irs(2, pool, sample=200 if tier == "quick" else 2000, seed=run.seed)) if i["params"] and legal(i)]
        # underscore-prefixed and id-like column names
        extra = []
        for names in (("_rev", "title"), ("thing_id", "label"), ("first_name", "last_name")):
            ir = domain.make_ir((("str", domain.ABSENT, "the {name}"), ("int", 3, "the {name}")))
            from collections import OrderedDict

            ir["params"] = OrderedDict(zip(names, ir["params"].values()))
            extra.append(ir)
        cells = [(s, f) for s in ("rest", "google", "numpydoc") for f in (False, True)]
        n, raised, fails = M.run(cells, irs + extra, contract)
        run.bounded.append({
            "name": "round-trip + three-way agreement + primary-key count on the real SQLAlchemy emitters/parsers (bounded, NOT counted as proved)",
            "bound": "%d interface descriptions (SQL-representable slice: %d shapes with [PK] / [FK(..)] markers, n <= 1 exhaustive, n = 2 sampled, 3 with id-like / underscore names) x 3 styles x force_pk_id; each evaluation emits and parses all three variants (hybrid read through its __table__)" % (len(irs) + 3, len(pool)),
            "rule": "one evaluation = three emissions and parses of one (interface, style, force_pk_id)",
            "evaluations": n, "distinct_nontrivial": n,
            "failures": [{"class": "|".join(map(str, k)), "what": v[2][:300]} for k, v in list(fails.items())[:6]],
        })
    seen = set()
    for o in refuted:
        if o["name"] in seen:
            continue
        seen.add(o["name"])
        run.violation(o["name"], "obligation refuted by %s on path %s%s" % (o["backend"], " ".join(o["trace"]), "; ".join((o.get("notes") or [])[:1])), failing_input=rule_inputs.get(o["name"]) or (default_replay() if "default-emitted-as-given" in o["name"] else None) or common.model_replay("contracts.C05", o), solver_output={"model": o["model"], "smt2": (o["smt2"] or "")[:4000]})
    M.report(run, "C05/bounded", fails)
    M.flush_raise_baseline()
    common.apply_controls(run, tier)
    return run.finish(explanation="PROVED (lemma): primary-key inference marks exactly one column when none is marked. BOUNDED only: the round-trips and the agreement of the three variants.")


def replay(path):
    d = json.load(open(path))
    inp = d.get("failing_input") or {}
    print("replaying %s: obligation %s" % (path, d["failed_obligation"]))
    if "ir" not in inp:
        return 1
    from collections import OrderedDict

    ir = inp["ir"]
    ir["params"] = OrderedDict(ir["params"])
    r = contract(tuple(inp["cell"]), ir)
    print(r)
    return 1 if r else 0

"""
C19 — gen writes a valid module that exports exactly what it generated, and never overwrites.

Deciding steps (rule engine over the real ast; all inputs):
  G1  in __main__.main the call gen(**args_dict) is dominated by `if isfile(output_filename) and phase == 0: raise`
      (nothing between the test and the call);
  G2  gen / gen_file never rebind `output_filename` (or `input_mapping` before the isfile test), so the path written is
      the path main tested; gen_file opens it with mode "a";
  G3  get_functions_and_classes appends name_tpl.format(name=name) to __all__ exactly once per input item, in order, and
      returns one emitted element per item (shape of the generator expression).
Bounded (stand-in, NOT proved): compile / __all__ / parse-back / refusal on existing file over a matrix of gen options.
"""

import ast
import contextlib
import io
import itertools
import json
import os
import shutil
import subprocess
import sys
import tempfile

from cddvc import extract
from cddvc.report import PROVED, REFUTED, UNDECIDED, Run, compare_baseline
from checks import common


def rule_obligations():
    obs = []
    m, _s, _p = extract.find_def("cdd.__main__", "main")
    ok, detail = False, "main not found"
    if m is not None:
        branch = None
        for n in ast.walk(m):
            if isinstance(n, ast.If) and ast.unparse(n.test) == "command == 'gen'":
                branch = n.body
        if branch is None:
            detail = "the `command == 'gen'` branch was not found"
        else:
            ok = (len(branch) == 2 and isinstance(branch[0], ast.If) and ast.unparse(branch[0].test) == "path.isfile(args.output_filename) and args.phase == 0"
                  and len(branch[0].body) == 1 and isinstance(branch[0].body[0], ast.Raise) and not branch[0].orelse
                  and isinstance(branch[1], ast.Expr) and ast.unparse(branch[1].value) == "gen(**args_dict)")
            detail = "gen(**args_dict) is reached only when not (isfile(output_filename) and phase == 0)" if ok else "the gen branch is: %s" % [ast.unparse(s)[:80] for s in branch]
    obs.append(("main/gen-call-dominated-by-exists-guard", ok, detail))
    # args_dict carries output_filename unchanged from args
    ok2 = False
    if m is not None:
        txt = ast.unparse(m)
        stores = [n for n in ast.walk(m) if isinstance(n, (ast.Subscript,)) and isinstance(n.ctx, ast.Store) and ast.unparse(n.value) == "args_dict" and "output_filename" in ast.unparse(n.slice)]
        ok2 = not stores and "args_dict" in txt
    obs.append(("main/args_dict-output_filename-not-rewritten", ok2, "main never stores args_dict['output_filename']"))
    for mod, fn, params in (("cdd.compound.gen", "gen", ("output_filename",)), ("cdd.compound.gen_utils", "gen_file", ("output_filename",))):
        f, _s, _p = extract.find_def(mod, fn)
        if f is None:
            obs.append(("%s/present" % fn, None, "not found"))
            continue
        reb = [n.lineno for n in ast.walk(f) if isinstance(n, ast.Name) and isinstance(n.ctx, (ast.Store, ast.Del)) and n.id in params]
        obs.append(("%s/output_filename-never-rebound" % fn, not reb, "the parameter is never assigned: the path written is the path main tested" if not reb else "output_filename is re-bound at lines %s (e.g. expanded after the guard looked at the raw string)" % reb))
    gf, _s, _p = extract.find_def("cdd.compound.gen_utils", "gen_file")
    if gf is not None:
        opens = [n for n in ast.walk(gf) if isinstance(n, ast.Call) and isinstance(n.func, ast.Name) and n.func.id == "open"]
        ok = len(opens) == 1 and ast.unparse(opens[0].args[0]) == "output_filename" and len(opens[0].args) > 1 and isinstance(opens[0].args[1], ast.Constant) and opens[0].args[1].value == "a"
        obs.append(("gen_file/appends-to-output_filename", ok, "the only open is open(output_filename, 'a')" if ok else "opens: %s" % [ast.unparse(o) for o in opens]))
    g, _s, _p = extract.find_def("cdd.compound.gen_utils", "get_functions_and_classes")
    ok, detail = False, "not found"
    if g is not None:
        ret = [n for n in ast.walk(g) if isinstance(n, ast.Return)]
        if len(ret) == 1 and isinstance(ret[0].value, ast.Call) and ast.unparse(ret[0].value.func) == "tuple" and len(ret[0].value.args) == 1 and isinstance(ret[0].value.args[0], ast.GeneratorExp):
            ge = ret[0].value.args[0]
            shape = (len(ge.generators) == 1 and not ge.generators[0].ifs and ast.unparse(ge.generators[0].target) == "(name, obj)" and ast.unparse(ge.generators[0].iter) == "input_mapping_it"
                     and isinstance(ge.elt, ast.BoolOp) and isinstance(ge.elt.op, ast.Or) and len(ge.elt.values) == 3)
            if shape:
                a, b, c = ge.elt.values
                ok = (isinstance(a, ast.Call) and ast.unparse(a.func) == "print"
                      and ast.unparse(b) == "global__all__.append(name_tpl.format(name=name))"
                      and isinstance(c, ast.Call) and ast.unparse(c.func) == "emitter")
            detail = "return tuple(print(..) or global__all__.append(name_tpl.format(name=name)) or emitter(..) for name, obj in input_mapping_it): one __all__ entry and one element per item, in order" if ok else "generator has a different shape: %s" % ast.unparse(ge)[:160]
        else:
            detail = "return is not tuple(<generator>)"
    obs.append(("get_functions_and_classes/one-__all__-entry-and-one-element-per-item", ok, detail))
    obs.append(hoist_obligation())
    # G5: the symbol is named ensure_valid_identifier(<the very expression that goes into __all__>)
    ge, _s, _p = extract.find_def("cdd.compound.gen_utils", "get_emit_kwarg")
    ok5, detail5 = None, "get_emit_kwarg not found"
    if ge is not None:
        calls = [n for n in ast.walk(ge) if isinstance(n, ast.Call) and ast.unparse(n.func) == "ensure_valid_identifier"]
        ok5 = len(calls) == 1 and len(calls[0].args) == 1 and ast.unparse(calls[0].args[0]) == "name_tpl.format(name=name)"
        detail5 = ("the emitted symbol is named ensure_valid_identifier(name_tpl.format(name=name)); with the contract of ensure_valid_identifier (identifiers that are not keywords come back unchanged) "
                   "that is the name listed in __all__") if ok5 else "get_emit_kwarg names the symbol by: %s" % [ast.unparse(c)[:80] for c in calls]
    obs.append(("get_emit_kwarg/symbol-named-by-the-template-through-ensure_valid_identifier", ok5, detail5))
    # G6: with a directory as input mapping EVERY entry of the listing is handed to file_to_input_mapping -- the listing goes
    # through path.join only (no filter on names): "one symbol per entry of the input mapping"
    gf, _s, _p = extract.find_def("cdd.compound.gen", "gen")
    ok6, detail6 = None, "gen not found"
    if gf is not None:
        lds = [n for n in ast.walk(gf) if isinstance(n, ast.Call) and ast.unparse(n.func) in ("listdir", "os.listdir")]
        par = {}
        for n in ast.walk(gf):
            for ch in ast.iter_child_nodes(n):
                par[id(ch)] = n
        ups = [ast.unparse(par[id(l)]) for l in lds if id(l) in par]
        ok6 = len(lds) == 1 and ups == ["map(partial(path.join, input_mapping), listdir(input_mapping))"] and "partial(file_to_input_mapping, parse_name=parse_name)" in ast.unparse(gf)
        detail6 = ("the directory listing is consumed as map(partial(path.join, input_mapping), listdir(input_mapping)) and mapped through file_to_input_mapping: every file contributes" if ok6
                   else "the directory listing is consumed as: %s" % [u[:160] for u in ups])
    obs.append(("gen/directory-mode-hands-every-listed-file-to-file_to_input_mapping", ok6, detail6))
    # G7: parse kind `infer` (the CLI default) picks the parser of each entry: a class is a SQLAlchemy model when ANY of its named
    # bases is `Base` -- the test quantifies over all of node.bases (any(...)), it does not stop at the first one
    inf, _s, _p = extract.find_def("cdd.shared.parse.utils.parser_utils", "infer")
    ok7, detail7 = None, "infer not found"
    if inf is not None:
        branches = [n for n in ast.walk(inf) if isinstance(n, ast.If) and "ClassDef" in ast.unparse(n.test) and ast.unparse(n.test).startswith("isinstance(node")]
        ok7, detail7 = None, "the ClassDef branch of infer was not found"
        if len(branches) == 1:
            inner = [n for n in branches[0].body if isinstance(n, ast.If)]
            tests = [n.test for n in inner if any(isinstance(r, ast.Return) and isinstance(r.value, ast.Constant) and r.value.value == "sqlalchemy" for r in n.body)]
            ok7 = len(tests) == 1 and isinstance(tests[0], ast.Call) and ast.unparse(tests[0].func) == "any" and "node.bases" in ast.unparse(tests[0]) and "'Base'" in ast.unparse(tests[0])
            detail7 = ("infer answers 'sqlalchemy' under any(... 'Base' ... node.bases ...): every named base is looked at" if ok7
                       else "infer answers 'sqlalchemy' under: %s" % [ast.unparse(t)[:160] for t in tests])
    obs.append(("infer/sqlalchemy-when-any-base-is-Base", ok7, detail7))
    return obs


def hoist_obligation():
    """
    G4: gen_module re-assembles the body as [what stays on top] + imports (`from __future__` first) + the rest.  The
    module compiles only if nothing but the module docstring stays above a `from __future__` import, i.e. the element
    kept on top is kept under a test that it IS the docstring (ast.get_docstring(parsed_ast)).
    """
    name = "gen_module/only-the-docstring-stays-above-the-hoisted-imports"
    gm, _s, _p = extract.find_def("cdd.compound.gen_utils", "gen_module")
    if gm is None:
        return (name, None, "gen_module not found")
    store = [n for n in ast.walk(gm) if isinstance(n, ast.Assign) and len(n.targets) == 1 and ast.unparse(n.targets[0]) == "parsed_ast.body"]
    if len(store) != 1:
        return (name, None, "expected exactly one store to parsed_ast.body, found %d" % len(store))
    tup = [n for n in ast.walk(store[0].value) if isinstance(n, ast.Tuple) and len(n.elts) == 3]
    first = tup[0].elts[0] if tup else None
    if not (isinstance(first, ast.IfExp) and ast.unparse(first.body) == "parsed_ast.body[:1]" and ast.unparse(first.orelse) == "iter(())" and isinstance(first.test, ast.Name)):
        return (name, None, "the element kept on top is not `parsed_ast.body[:1] if <name> else iter(())`: %s" % (ast.unparse(first)[:100] if first is not None else "not found"))
    t = first.test.id
    defs = [n for n in ast.walk(gm) if isinstance(n, (ast.Assign, ast.AnnAssign)) and any(isinstance(x, ast.Name) and x.id == t for x in ([n.target] if isinstance(n, ast.AnnAssign) else n.targets))]
    if len(defs) == 1 and isinstance(defs[0].value, ast.Call) and ast.unparse(defs[0].value.func) in ("ast.get_docstring", "get_docstring") and defs[0].value.args and ast.unparse(defs[0].value.args[0]) == "parsed_ast":
        return (name, True, "body[:1] is kept on top only when ast.get_docstring(parsed_ast) is non-empty, i.e. it is the module docstring; everything else follows the imports, `from __future__` first")
    # the guard is something else: decide by running the real function (a refutation must replay on the real code)
    why = hoist_replay()
    if why:
        return (name, False, "`%s` is bound to `%s`, not to ast.get_docstring(parsed_ast); replayed: %s" % (t, ast.unparse(defs[0].value)[:100] if defs else "?", why))
    return (name, None, "`%s` is not bound to ast.get_docstring(parsed_ast) and the replay found no failing input" % t)


def rule_replay(name):
    """Targeted run of the real code for the clause a shape rule carries -> failing input dict or None"""
    if name.startswith("main/") or "output_filename" in name or name.startswith("gen_file/"):
        r = guard_case(0)  # the CLI onto an existing file, three spellings of the path
        bad = [w for k, w in r if k != "raises"]
        return {"case": ["cli", "gen", 1, None, False], "what": bad[0]} if bad else None
    if name.startswith("gen/directory-mode"):
        for case in (("class", "{name}Gen", 2, None, False, False, "dir"), ("class", "{name}Gen", 8, None, False, False, "dir"), ("json_schema", "{name}Gen", 5, None, False, False, "dir")):
            bad = [w for k, w in gen_case(case) if k != "raises"]
            if bad:
                return {"case": list(case), "what": bad[0]}
        return None
    if name.startswith("infer/"):
        from cdd.shared.parse.utils.parser_utils import infer

        for src, want in (("class Session(TimestampMixin, Base):\n    __tablename__ = 's'\n    id = Column(Integer, primary_key=True)\n", "sqlalchemy"),
                          ("class Session(Base, TimestampMixin):\n    __tablename__ = 's'\n    id = Column(Integer, primary_key=True)\n", "sqlalchemy"),
                          ("class A(mixins.Audit, Other, Base):\n    __tablename__ = 'a'\n    id = Column(Integer, primary_key=True)\n", "sqlalchemy"),
                          ("class Plain(object):\n    x: int = 1\n", "class_"), ("class Plain(Mixin):\n    x: int = 1\n", "class_")):
            got = infer(ast.parse(src).body[0])
            if got != want:
                return {"case": ["infer", src.split(":")[0]], "what": "infer(<%s>) answers %r, the entry is a %s: gen --parse infer then runs the wrong parser over it and the generated symbol no longer has the entry's interface" % (src.split(":")[0], got, want)}
        return None
    if name.startswith("get_functions_and_classes/") or name.startswith("get_emit_kwarg/"):
        # up to 8 entries: the last three have a private, a lower-case and a one-letter name
        for case in (("class", "{name}Gen", 2, None, False), ("class", "{name}Gen", 2, None, False, True), ("json_schema", "{name}", 12, None, False), ("class", "Cfg{name}", 12, None, False), ("class", "{name}", 12, None, False), ("argparse", "{name}Gen", 2, None, False)):
            bad = [w for k, w in gen_case(case) if k != "raises"]
            if bad:
                return {"case": list(case), "what": bad[0]}
    return None


HOIST_CASE = ("class", "{name}Gen", 1, "print('generated')\n", "future")


def hoist_replay():
    r = gen_case(HOIST_CASE)
    bad = [w for k, w in r if k != "raises"]
    return bad[0][:300] if bad else None


# ---------------------------------------------------------------------------------------------------- bounded

def class_src(i):
    # the last names are a private one, a lower-case one, a one-letter one, and names of builtins (legal class names)
    n = ("Alpha", "Beta", "Gamma", "Delta", "Eps", "_Hidden", "lower_case", "X", "Warning", "format", "id", "type")[i]
    return 'class %s(object):\n    """\n    %s conf\n\n    :cvar a%d: the a\n    :cvar b: the b\n    """\n\n    a%d: int = %d\n    b: Optional[str] = None\n' % (n, n, i, i, i + 1), n


def gen_case(case):
    from cdd.compound.gen import gen

    emit, tpl, nsym, prepend, imports_ff = case[:5]
    infer_imports = bool(case[5]) if len(case) > 5 else False  # --emit-and-infer-imports
    dir_mode = len(case) > 6 and case[6] == "dir"  # the input mapping is a DIRECTORY: every file in it contributes its entries
    d = tempfile.mkdtemp(prefix="cddvc_c19_")
    try:
        srcs = [class_src(i) for i in range(nsym)]
        inp = os.path.join(d, "inp.py")
        open(inp, "wt").write("from typing import Optional\n\n\n" + "\n\n".join(s for s, _n in srcs) + "\n\n__all__ = %r\n" % [n for _s, n in srcs])
        if dir_mode:
            # one file per entry; file names a directory of sources really has: versioned, generated, with dashes
            os.unlink(inp)
            inp = os.path.join(d, "inputs")
            os.mkdir(inp)
            for i_, (s_, n_) in enumerate(srcs):
                fname = ("users.py", "orders.v2.py", "items.py", "models.generated.py", "legacy-api.py", "x.py", "a.b.c.py", "z_last.py")[i_ % 8]
                open(os.path.join(inp, fname if i_ < 8 else "f%d.py" % i_), "wt").write("from typing import Optional\n\n\n" + s_ + "\n\n__all__ = %r\n" % [n_])
        imp = None
        if imports_ff:
            imp = os.path.join(d, "imports.py")
            open(imp, "wt").write("from __future__ import annotations\n" if imports_ff == "future" else "from typing import Optional\n")
        out = os.path.join(d, "out.json" if emit == "json_schema" else "out.py")
        try:
            with contextlib.redirect_stdout(io.StringIO()), contextlib.redirect_stderr(io.StringIO()):
                gen(name_tpl=tpl, input_mapping=inp, parse_name="class", emit_name=emit, output_filename=out, prepend=prepend, imports_from_file=imp,
                    emit_call=False, emit_default_doc=True, emit_and_infer_imports=infer_imports, no_word_wrap=None, decorator_list=None)
        except Exception as ex:
            if os.path.exists(out):
                return [("raises-after-writing", "gen raised %s: %s but left %d bytes in the output file" % (type(ex).__name__, str(ex)[:80], os.path.getsize(out)))]
            return [("raises", "%s: %s" % (type(ex).__name__, str(ex)[:100]))]
        txt = open(out).read()
        names = [tpl.format(name=n) for _s, n in srcs]
        if emit == "json_schema":
            dec, pos, docs = json.JSONDecoder(), 0, []
            try:
                while pos < len(txt.strip()):
                    obj, pos2 = dec.raw_decode(txt.strip(), pos)
                    docs.append(obj)
                    pos = pos2
                    while pos < len(txt.strip()) and txt.strip()[pos].isspace():
                        pos += 1
            except ValueError as ex:
                return [("invalid-output", "json_schema output is not JSON: %s" % ex)]
            schemas = [x for d_ in docs for x in (d_["schemas"] if isinstance(d_, dict) and "schemas" in d_ else [d_])]
            ids = [x.get("$id") for x in schemas]
            if dir_mode:
                ids, names = sorted(map(str, ids)), sorted(names)  # the order of a directory listing is not specified
            return [] if ids == names else [("symbol-count", "JSON-schema $ids %r for entries %r" % (ids, names))]
        probs = []
        try:
            compile(txt, out, "exec")
            mod = ast.parse(txt)
        except SyntaxError as ex:
            return [("invalid-output", "generated module does not compile: %s\n%s" % (ex, txt[:300]))]
        alls = None
        defined = []
        for n in mod.body:
            if isinstance(n, ast.Assign) and any(isinstance(t, ast.Name) and t.id == "__all__" for t in n.targets):
                alls = ast.literal_eval(n.value)
            elif isinstance(n, (ast.ClassDef, ast.FunctionDef)):
                defined.append(n.name)
            elif isinstance(n, ast.Assign):
                defined.extend(t.id for t in n.targets if isinstance(t, ast.Name))
        if dir_mode and alls is not None:
            alls, names_cmp = sorted(alls), sorted(names)
        else:
            names_cmp = names
        if alls != names_cmp:
            probs.append(("__all__", "__all__ is %r, expected exactly %r" % (alls, names)))
        miss = [x for x in names if x not in defined]
        if miss:
            probs.append(("symbol-undefined", "the module does not define %r (it defines %r) although __all__ / the name template promise them" % (miss, defined)))
        if emit == "class" and not miss:
            import cdd.class_.parse

            for (src, n), gname in zip(srcs, names):
                node = next((x for x in mod.body if isinstance(x, ast.ClassDef) and x.name == gname), None)
                if node is None:
                    continue
                try:
                    with contextlib.redirect_stdout(io.StringIO()), contextlib.redirect_stderr(io.StringIO()):
                        a = cdd.class_.parse.class_(node)
                        b = cdd.class_.parse.class_(ast.parse(src).body[0])
                except Exception as ex:
                    probs.append(("parse-back-raises", "%s: %s" % (type(ex).__name__, ex)))
                    continue
                pa = [(k, v.get("typ"), v.get("default")) for k, v in a["params"].items()]
                pb = [(k, v.get("typ"), v.get("default")) for k, v in b["params"].items()]
                if pa != pb:
                    probs.append(("parse-back", "generated %s has interface %r, its source entry %r" % (gname, pa, pb)))
        if prepend and prepend.strip() not in txt:
            probs.append(("prepend-missing", "the --prepend text is not in the output"))
        return probs
    finally:
        shutil.rmtree(d, ignore_errors=True)


def guard_case(phase):
    """CLI: gen onto an existing file refuses and leaves it untouched"""
    d = tempfile.mkdtemp(prefix="cddvc_c19_")
    try:
        inp = os.path.join(d, "inp.py")
        open(inp, "wt").write("from typing import Optional\n\n\n" + class_src(0)[0] + "\n\n__all__ = ['Alpha']\n")
        out = os.path.join(d, "out.py")
        open(out, "wt").write("PRECIOUS = 1\n")
        env = dict(os.environ, PYTHONPATH=common.REPO, HOME=d)
        for spelled in (out, os.path.join(d, ".", "out.py"), "~/out.py"):
            r = subprocess.run([sys.executable, "-m", "cdd", "gen", "--name-tpl", "{name}Gen", "--input-mapping", inp, "--parse", "class", "--emit", "class", "--output-filename", spelled],
                               capture_output=True, text=True, env=env, cwd=d, timeout=120)
            if open(out).read() != "PRECIOUS = 1\n":
                return [("overwrote", "gen --output-filename %s (an existing file) changed it: now %r" % (spelled.replace(d, "<tmp>"), open(out).read()[:80]))]
        return []
    finally:
        shutil.rmtree(d, ignore_errors=True)


def bounded(tier):
    emits = ["class", "argparse", "json_schema", "sqlalchemy", "sqlalchemy_table"]
    cases = list(itertools.product(emits, ("{name}Gen", "Cfg{name}"), (1, 2, 4) if tier == "quick" else (1, 2, 3, 4, 5, 8), (None, "import os\n", '"""Module doc"""\n', "print('generated')\n"), (False, True, "future")))
    cases = [c for c in cases if not (c[3] and not c[4])]  # --prepend only matters together with --imports-from-file
    # import inference on (the generated classes need typing.Optional only: more than one inferred import line crashes on the pinned tree)
    cases += [("class", "{name}Gen", n_, None, False, True) for n_ in (1, 2, 4)]
    # directory mode: one source file per entry, realistic file names (several dots, dashes)
    cases += [(e_, "{name}Gen", n_, None, False, False, "dir") for e_ in ("class", "json_schema") for n_ in (2, 5, 8)]
    # the identity template over every kind of name (private, lower-case, one letter, names of builtins)
    cases += [(e_, "{name}", 12, None, False) for e_ in (emits if tier == "thorough" else ["class", "json_schema"])]
    res = common.pmap(gen_case, cases)
    fails, raised = {}, 0
    for c, r in zip(cases, res):
        for kind, what in r:
            if kind == "raises":
                raised += 1
                continue
            fails.setdefault((kind, c[0]), (c, what))
    g = guard_case(0)
    for kind, what in g:
        fails.setdefault((kind, "cli"), (("cli", "gen", 1, None, False), what))
    return len(cases) + 3, raised, fails


def main(tier, write_baseline=False):
    run = Run("C19", tier, "other", checker_cmd=common.checker_cmd("C19", tier))
    run.trusted_base.update(["rule engine of checks/C19.py over the real ast (guard dominance, parameter frame, generator shape)", "cddvc E1 (regular-expression membership for the identifier alphabet; iskeyword / isdigit uninterpreted)"])
    refuted = []
    rule_inputs = {}
    from cddvc import e1

    for o in e1.run_contracts(run, "contracts.C19"):
        # ensure_valid_identifier no longer returns plain identifiers unchanged: replay the identity template over names of every kind
        fi = None
        for case in (("class", "{name}", 12, None, False), ("json_schema", "{name}", 12, None, False)):
            bad = [w for k, w in gen_case(case) if k != "raises"]
            if bad:
                fi = {"case": list(case), "what": bad[0][:300]}
                break
        run.violation(o["name"], "obligation refuted by %s on path %s" % (o["backend"], " ".join(o["trace"])), failing_input=common.model_replay("contracts.C19", o) or fi, solver_output={"model": o["model"], "smt2": (o["smt2"] or "")[:3000]})
    for name, ok, detail in rule_obligations():
        if ok is False and not name.startswith("gen_module/"):
            # a shape rule no longer matches.  That alone is not a violation (the code may have been rewritten in an
            # equivalent way): it is reported only when the clause the rule carries fails on the real code for a targeted input
            fi = rule_replay(name)
            if fi is None:
                ok, detail = None, "rule no longer matches (%s) and the targeted replay on the real code found no failing input: undecided, not a violation" % detail
            else:
                rule_inputs["C19/" + name] = fi
                detail = "%s; replayed on the real code: %s" % (detail, fi["what"][:200])
        st = UNDECIDED if ok is None else (PROVED if ok else REFUTED)
        run.add("C19/" + name, st, "rule-engine", detail=detail)
        if ok is False:
            refuted.append(("C19/" + name, detail))
    run.samples = [{"obligation": n, "detail": o["detail"]} for n, o in list(run.obligations.items())[:6]]
    if write_baseline:
        common.write_baseline("C19", [n for n, o in run.obligations.items() if o["status"] == "proved"])
    compare_baseline(run, set(run.obligations))
    fails = {}
    if not os.environ.get("VERIF_NO_BOUNDED"):
        n, raised, fails = bounded(tier)
        run.bounded.append({
            "name": "gen over an option matrix + the CLI guard on an existing file (bounded, NOT counted as proved)",
            "bound": "parse kind class x emit {class, argparse, json_schema, sqlalchemy, sqlalchemy_table} x 2 name templates x 1..%d symbols (+ the identity template over 12 names incl. private / lower-case / builtin names) x prepend {none, import, docstring, expression statement} x imports-from-file {off, typing import, __future__ import}, import inference off (+ 3 runs with --emit-and-infer-imports on inputs that need typing.Optional only); 6 runs with a DIRECTORY as input mapping (one file per entry, file names with several dots / dashes); 3 CLI runs onto an existing file (plain, ./-spelled and ~-spelled path). %d runs raised (out of domain: function/pydantic emit and import inference crash on the pinned tree)" % (4 if tier == "quick" else 5, raised),
            "rule": "one gen call per option combination; non-trivial = gen returns",
            "evaluations": n, "distinct_nontrivial": n - raised,
            "failures": [{"kind": k[0], "emit": k[1], "what": v[1][:300]} for k, v in list(fails.items())[:5]],
        })
    for name, detail in refuted:
        cand = next((v for k, v in fails.items() if k[0] == "overwrote"), None)
        if "gen_module/" in name:
            cand = (HOIST_CASE, detail)
        if name in rule_inputs:
            cand = (rule_inputs[name]["case"], rule_inputs[name]["what"])
        run.violation(name, detail, failing_input=({"case": list(cand[0]), "what": cand[1]} if cand else None), solver_output={"rule": detail})
    if not refuted:
        for (kind, emit), (case, what) in fails.items():
            run.violation("C19/bounded/%s" % kind, what, key={"kind": kind, "emit": emit}, failing_input={"case": list(case)})
    common.apply_controls(run, tier)
    return run.finish(explanation="PROVED (rule engine): the exists-guard dominates the gen call and looks at the very path that is later appended to; one __all__ entry and one element per generated item. "
                      "BOUNDED only: compile, __all__ vs defined symbols, parse-back, prepend, behaviour of the CLI on an existing file.")


def replay(path):
    d = json.load(open(path))
    inp = (d.get("failing_input") or {}).get("case")
    print("replaying %s: obligation %s" % (path, d["failed_obligation"]))
    if not inp:
        return 1
    r = guard_case(0) if inp[0] == "cli" else gen_case(tuple(inp))
    print(r)
    return 1 if [x for x in r if x[0] != "raises"] else 0

"""
Bounded stand-in for C17 (run in a sub-process: audit hooks cannot be removed).
Drives the real parsers / emitters / doctrans / sync_properties over adversarial inputs under
sys.addaudithook and evaluates the run-time form of the contracts:
  * every string handed to eval/exec is clean (charset.SAFE);
  * no import of a name taken from the analysed text, no process spawn, no network, no file written
    except the explicitly named output.
Prints one JSON object.
"""

import ast
import json
import os
import sys
import tempfile

from cddvc import charset

CANARY = "cddvc_canary_mod"
PAYLOADS = [
    "__import__('%s')" % CANARY,
    "().__class__.__base__.__subclasses__()",
    "open('/tmp/%s','w')" % CANARY,
    "__import__('os').system('true')",
    "(lambda:0).__globals__",
]


class _Boom(object):
    def __reduce__(self):
        return (os.mkdir, ("/tmp/%s_dir" % CANARY,))


def _pickled():
    import pickle

    return repr(pickle.dumps(_Boom()))


ARGPARSE_ARGS = [
    "'--x', type=pickle.loads, default=%s, help='x'" % _pickled(),
    "'--y', type=loads, default=%s, help='y'" % _pickled(),
    "'--z', type=eval, default='__import__(\"%s\")', help='z'" % CANARY,
    "'--w', type=str, default=__import__('%s'), help='w'" % CANARY,
    "'--v', choices=(eval('1'), 2), default=1, help='v'",
]


def doc_shapes(p):
    q = "`%s`" % p
    yield "%s or None" % q
    yield "One of %s or `x`" % q
    yield "List of %s" % p
    yield "%s or %s" % (p, p)
    yield "A thing. Defaults to %s" % p
    yield "A thing, defaults to %s" % p
    yield "A thing. Default: %s." % p
    yield "Tuple of %s; %s of `%s`" % (p, p, p)
    yield "%s/%s" % (p, p)
    yield "whether %s" % p


def docstrings():
    for p in PAYLOADS:
        for d in doc_shapes(p):
            yield ":param a: %s\n:type a: ```int```\n\n:param b: %s\n\n:return: %s\n:rtype: ```%s```\n" % (d, d, d, p)
            yield ":type a: ```%s```\n:param a: %s\n" % (p, d)
            yield "Doc\n\nArgs:\n  a (int): %s\n  b: %s\n  c (%s): x\n\nReturns:\n  %s\n" % (d, d, p, d)
            yield "Doc\n\nParameters\n----------\na : int\n    %s\nb : %s\n    %s\n\nReturns\n-------\nr : %s\n    %s\n" % (d, p, d, p, d)


def main():
    events = {"exec_unclean": [], "import_tainted": [], "spawn": [], "net": [], "write": []}
    state = {"last_src": None, "allowed_write": set(), "n_exec_string": 0, "on": False}

    def hook(ev, args):
        if not state["on"]:
            return
        try:
            if ev == "compile":
                src = args[0]
                if isinstance(src, bytes):
                    src = src.decode("utf-8", "replace")
                state["last_src"] = src if isinstance(src, str) else None
            elif ev == "exec":
                code = args[0]
                fn = getattr(code, "co_filename", "")
                if fn == "<string>" or fn.startswith("<"):
                    state["n_exec_string"] += 1
                    src = state["last_src"]
                    if src is None or charset.unsafe_chars(src):
                        events["exec_unclean"].append({"filename": fn, "source": (src or "<code object without source>")[:200]})
            elif ev == "import":
                name = args[0]
                if CANARY in str(name):
                    events["import_tainted"].append(str(name))
            elif ev == "pickle.find_class":
                # unpickling data taken from the analysed text: the data names the callable that is then imported and called
                events["exec_unclean"].append({"filename": "<pickle>", "source": "pickle.find_class%r" % (tuple(args[:2]),)})
            elif ev in ("subprocess.Popen", "os.system", "os.posix_spawn", "os.exec", "os.fork", "os.spawn", "pty.spawn"):
                events["spawn"].append("%s %r" % (ev, args[:1]))
            elif ev.startswith("socket.") or ev.startswith("urllib.") or ev.startswith("http."):
                events["net"].append(ev)
            elif ev == "open":
                path, mode = args[0], args[1]
                if isinstance(mode, str) and set(mode) & set("wax+") and isinstance(path, str):
                    rp = os.path.realpath(path)
                    if rp not in state["allowed_write"] and not rp.startswith("/dev/"):
                        events["write"].append("%s mode=%s" % (path, mode))
            elif ev in ("os.mkdir", "os.remove", "os.rename", "os.rmdir", "shutil.rmtree", "os.symlink"):
                rp = os.path.realpath(str(args[0]))
                if rp not in state["allowed_write"]:
                    events["write"].append("%s %r" % (ev, args[:1]))
        except Exception:
            pass

    import cdd.argparse_function.emit
    import cdd.argparse_function.parse
    import cdd.class_.emit
    import cdd.class_.parse
    import cdd.compound.doctrans
    import cdd.compound.sync_properties
    import cdd.docstring.emit
    import cdd.docstring.parse
    import cdd.function.emit
    import cdd.function.parse
    import cdd.json_schema.emit
    import cdd.shared.docstring_parsers as dp
    from cdd.shared.source_transformer import to_code

    tempfile.gettempdir()  # the probe file tempfile creates/removes on first use is the harness's, not cdd's
    sys.addaudithook(hook)
    calls = 0
    devnull = open(os.devnull, "w")
    real_err, real_out = sys.stderr, sys.stdout
    sys.stderr = sys.stdout = devnull
    state["on"] = True
    try:
        for doc in docstrings():
            irs = []
            for fn in (dp.parse_docstring, cdd.docstring.parse.docstring):
                for kw in ({}, {"infer_type": True}):
                    try:
                        calls += 1
                        irs.append(fn(doc, **kw))
                    except Exception:
                        pass
            src = 'def f(a=%s, b=1):\n    """\n%s\n    """\n    return a\n\n\nclass K(object):\n    """\n%s\n    """\n    a: int = %s\n' % (
                PAYLOADS[0], "\n".join("    " + l for l in doc.splitlines()), "\n".join("    " + l for l in doc.splitlines()), PAYLOADS[1])
            try:
                mod = ast.parse(src)
            except SyntaxError:
                mod = None
            if mod is not None:
                for parser, node in ((cdd.function.parse.function, mod.body[0]), (cdd.class_.parse.class_, mod.body[1])):
                    try:
                        calls += 1
                        irs.append(parser(node))
                    except Exception:
                        pass
            for ir in irs[:3]:
                for em in (cdd.docstring.emit.docstring, cdd.class_.emit.class_, cdd.function.emit.function, cdd.argparse_function.emit.argparse_function, cdd.json_schema.emit.json_schema):
                    try:
                        calls += 1
                        r = em(ir) if em is not cdd.function.emit.function else em(ir, function_name="f", function_type="static")
                        if isinstance(r, ast.AST):
                            to_code(r)
                    except Exception:
                        pass
            if mod is not None and calls % 7 == 0:
                fd, fn_ = tempfile.mkstemp(suffix=".py")
                os.write(fd, ("import os\nos.environ['CDDVC_RAN'] = '1'\n" + src).encode("utf-8"))
                os.close(fd)
                state["allowed_write"] = {os.path.realpath(fn_)}
                try:
                    calls += 1
                    cdd.compound.doctrans.doctrans(filename=fn_, docstring_format="google", type_annotations=True, no_word_wrap=None)
                except Exception:
                    pass
                try:
                    calls += 1
                    cdd.compound.sync_properties.sync_properties(
                        input_filename=fn_, input_params=("K.a",), input_eval=False, output_filename=fn_, output_params=("f.b",), output_param_wrap=None)
                except Exception:
                    pass
                state["on"] = False
                os.unlink(fn_)
                state["on"] = True
                state["allowed_write"] = set()
        # argparse functions whose add_argument calls carry data a parser might be tempted to decode
        for arg_src in ARGPARSE_ARGS:
            src = ('def set_cli_args(argument_parser):\n    """\n    Set CLI arguments\n\n    :param argument_parser: argument parser\n    :type argument_parser: ```ArgumentParser```\n\n'
                   '    :return: argument_parser\n    :rtype: ```ArgumentParser```\n    """\n    argument_parser.description = "d"\n    argument_parser.add_argument(%s)\n    return argument_parser\n' % arg_src)
            try:
                calls += 1
                cdd.argparse_function.parse.argparse_ast(ast.parse(src).body[0])
            except BaseException:
                pass
    finally:
        state["on"] = False
        sys.stderr, sys.stdout = real_err, real_out
    try:  # whatever a violating tree let the payloads create is the harness's to remove
        os.rmdir("/tmp/%s_dir" % CANARY)
    except OSError:
        pass
    ran = os.environ.get("CDDVC_RAN")
    print(json.dumps({"calls": calls, "exec_of_strings": state["n_exec_string"], "events": events, "analysed_module_code_ran": bool(ran)}))


if __name__ == "__main__":
    main()

"""
C12 — sync makes every target equivalent to the truth, then is a no-op.

Deciding steps (thin frame lemmas, rule engine over the real ast; all inputs):
  W1  _conform_filename writes only through cdd.shared.emit.file.file(.., filename, ..) with the path being its own
      `filename`; ground_truth opens the truth file for reading only;
  W2  the in-place rewrite (mode "wt") is dominated by `not cmp_ast(original_node, replacement_node)` and by
      `rewrite_at_query.replaced`: a target already equal to the truth is not written (second run is a no-op);
  W3  ground_truth hands EVERY listed file of every kind to _conform_filename (map without filter).
Bounded (stand-in, NOT proved; mostly known findings on the pinned tree): the real CLI on triples of files.
"""

import ast
import itertools
import json
import os
import shutil
import subprocess
import sys
import tempfile

from cddvc import extract
from cddvc.report import PROVED, REFUTED, UNDECIDED, Run, compare_baseline
from checks import common


def rule_obligations():
    obs = []
    f, _s, _p = extract.find_def("cdd.shared.conformance", "_conform_filename")
    if f is None:
        return [("_conform_filename/present", None, "not found")]
    writes = [c for c in ast.walk(f) if isinstance(c, ast.Call) and ast.unparse(c.func) == "cdd.shared.emit.file.file"]
    opens = [c for c in ast.walk(f) if isinstance(c, ast.Call) and isinstance(c.func, ast.Name) and c.func.id == "open"
             and not (len(c.args) > 1 and isinstance(c.args[1], ast.Constant) and c.args[1].value in ("rt", "r"))]

    def path_arg(c):
        for k in c.keywords:
            if k.arg == "filename":
                return ast.unparse(k.value)
        return ast.unparse(c.args[1]) if len(c.args) > 1 else None

    ok = len(writes) == 3 and not opens and all(path_arg(c) == "filename" for c in writes)
    obs.append(("_conform_filename/writes-only-its-own-filename", ok, "three emit.file.file calls, all on `filename`; no other write-open" if ok else "write sites: %s; opens: %s" % ([(path_arg(c)) for c in writes], [ast.unparse(o) for o in opens])))
    reb = [n for n in ast.walk(f) if isinstance(n, (ast.Assign, ast.AnnAssign)) and ast.unparse(getattr(n, "target", None) or n.targets[0]) == "filename"]
    ok = len(reb) == 1 and ast.unparse(reb[0].value) == "path.realpath(path.expanduser(filename))"
    obs.append(("_conform_filename/filename-is-the-normalised-argument", ok, "`filename` is re-bound once, to realpath(expanduser(filename))"))
    wt = [c for c in writes if any(k.arg == "mode" and isinstance(k.value, ast.Constant) and k.value.value == "wt" for k in c.keywords) and "parsed_ast" in ast.unparse(c)]
    ok = False
    if len(wt) == 1:
        # enclosing ifs
        chain = []

        def find(stmts, conds):
            for s_ in stmts:
                if any(x is wt[0] for x in ast.walk(s_)):
                    if isinstance(s_, ast.If):
                        if any(x is wt[0] for b in s_.body for x in ast.walk(b)):
                            find(s_.body, conds + [ast.unparse(s_.test)])
                        else:
                            find(s_.orelse, conds + ["not (%s)" % ast.unparse(s_.test)])
                    else:
                        chain.extend(conds)
                    return
        find(f.body, [])
        ok = chain == ["not cmp_ast(original_node, replacement_node)", "rewrite_at_query.replaced"]
    obs.append(("_conform_filename/rewrite-only-when-different-and-replaced", ok, "the mode='wt' rewrite is under `if not cmp_ast(original_node, replacement_node)` and `if rewrite_at_query.replaced`: an already conforming target is not written"))
    g, _s, _p = extract.find_def("cdd.shared.conformance", "ground_truth")
    ok1 = ok2 = None
    if g is not None:
        gopens = [c for c in ast.walk(g) if isinstance(c, ast.Call) and isinstance(c.func, ast.Name) and c.func.id == "open"]
        ok1 = len(gopens) == 1 and ast.unparse(gopens[0]) == "open(truth_file, 'rt')"
        # W3, structurally: inside `for .. in arg2parse_emit_type.items()` the statement effect.update(map(L, filenames)) where
        # L is a lambda whose body is ONE call of _conform_filename on the lambda's own parameter; no filter, no `continue`,
        # no conditional around it.  (Other keyword arguments of the call are free to change.)
        ok2 = False
        loops = [n for n in ast.walk(g) if isinstance(n, ast.For) and ast.unparse(n.iter) == "arg2parse_emit_type.items()"]
        if len(loops) == 1 and not any(isinstance(n, (ast.Continue, ast.Break)) for n in ast.walk(g)):
            direct = [st_ for st_ in loops[0].body if isinstance(st_, ast.Expr) and isinstance(st_.value, ast.Call) and ast.unparse(st_.value.func) == "effect.update"]
            if len(direct) == 1 and len(direct[0].value.args) == 1:
                mp = direct[0].value.args[0]
                if isinstance(mp, ast.Call) and ast.unparse(mp.func) == "map" and len(mp.args) == 2 and isinstance(mp.args[0], ast.Lambda) and isinstance(mp.args[1], ast.Name):
                    lam = mp.args[0]
                    lp = [a.arg for a in lam.args.args]
                    body = lam.body
                    fn_kw = [k for k in getattr(body, "keywords", []) if k.arg == "filename"]
                    src_ok = False
                    # the iterable is what `getattr(args, <kind>s)` / the namespace gave for this kind, bound once in the loop
                    binds = [n for n in loops[0].body if isinstance(n, (ast.Assign, ast.AnnAssign)) and ast.unparse(getattr(n, "target", None) or n.targets[0]) == mp.args[1].id]
                    src_ok = len(binds) == 1 and "filter" not in ast.unparse(binds[0].value)
                    ok2 = (isinstance(body, ast.Call) and ast.unparse(body.func) == "_conform_filename" and len(lp) == 1 and len(fn_kw) == 1
                           and isinstance(fn_kw[0].value, ast.Name) and fn_kw[0].value.id == lp[0] and src_ok)
    obs.append(("ground_truth/truth-file-opened-read-only", ok1, "the only open in ground_truth is open(truth_file, 'rt')"))
    obs.append(("ground_truth/every-listed-file-of-every-kind-is-conformed", ok2, "for every kind, effect.update(map(lambda filename: _conform_filename(...), filenames)) with no filter and no `continue`"))
    return obs


# ------------------------------------------------------------------------------------------ bounded

DOC = {"short": "the a", "long": "a very long description of the parameter that goes on and on well past the one hundred column limit of the word wrapper, yes"}


def src(kind, variant, doc="short"):
    """Source of one target; variant: 'truth' or 'other' (a different interface)"""
    p = [("a", "int", 5), ("b", "str", "'x'")] if variant == "truth" else [("zzz", "float", 0.5)]
    d = DOC[doc]
    if kind == "class":
        return 'class ConfigClass(object):\n    """\n    Conf\n\n%s    """\n\n%s' % ("".join("    :cvar %s: %s\n" % (n, d) for n, _t, _v in p), "".join("    %s: %s = %s\n" % (n, t, v) for n, t, v in p))
    if kind == "function":
        return 'class C(object):\n    """C class (mocked!)"""\n\n    def function_name(self, %s):\n        """\n        Conf\n\n%s        """\n        pass\n' % (
            ", ".join("%s=%s" % (n, v) for n, _t, v in p), "".join("        :param %s: %s\n        :type %s: ```%s```\n\n" % (n, d, n, t) for n, t, _v in p))
    return 'def set_cli_args(argument_parser):\n    """\n    Set CLI arguments\n\n    :param argument_parser: argument parser\n    :type argument_parser: ```ArgumentParser```\n\n    :return: argument_parser\n    :rtype: ```ArgumentParser```\n    """\n    argument_parser.description = "Conf"\n%s    return argument_parser\n' % (
        "".join("    argument_parser.add_argument('--%s', type=%s, help=%r, required=True, default=%s)\n" % (n, t, d, v) for n, t, v in p))


def interface(kind, path_):
    import cdd.argparse_function.parse
    import cdd.class_.parse
    import cdd.function.parse
    from cdd.shared.ast_utils import annotate_ancestry, find_in_ast

    mod = ast.parse(open(path_).read())
    if kind == "class":
        node = next((n for n in mod.body if isinstance(n, ast.ClassDef) and n.name == "ConfigClass"), None)
        ir = cdd.class_.parse.class_(node) if node is not None else None
    elif kind == "function":
        cls = next((n for n in mod.body if isinstance(n, ast.ClassDef) and n.name == "C"), None)
        node = next((n for n in (cls.body if cls else []) if isinstance(n, ast.FunctionDef) and n.name == "function_name"), None)
        ir = cdd.function.parse.function(node) if node is not None else None
    else:
        node = next((n for n in mod.body if isinstance(n, ast.FunctionDef) and n.name == "set_cli_args"), None)
        ir = cdd.argparse_function.parse.argparse_ast(node) if node is not None else None
    if ir is None:
        return None
    return [(n, p.get("typ"), p.get("default"), (p.get("doc") or "").strip().rstrip(".")) for n, p in ir["params"].items()]


def one_case(case):
    truth, states, doc = case
    names_variant = doc.endswith("+names")
    kinds = ("class", "function", "argparse_function")
    d = tempfile.mkdtemp(prefix="cddvc_c12_")
    out = []
    try:
        files = {}
        for k, stt in zip(kinds, states):
            fn = os.path.join(d, "%s_.py" % k)
            files[k] = fn
            # unrelated code in front of the target: a comment and a layout no code generator would produce
            pre = "# keep this comment (%s)\nUNRELATED_%s = 1\nTABLE = { 'k' :1 }\n\n\n" % (k, k.upper())
            if doc.endswith("+names"):
                # the targets' own names as string literals in front of them (an export list, a forward reference, a registry)
                pre += "__all__ = ['ConfigClass', 'C', 'function_name', 'set_cli_args', 'a', 'b']\nFORWARD: 'ConfigClass' = None\nREGISTRY = {'set_cli_args': 'C.function_name', 'C': 'ConfigClass'}\n\n\n"
            if k == truth or stt == "same":
                open(fn, "wt").write(pre + src(k if k != "argparse_function" else "argparse", "truth", doc.split("+")[0]))
            elif stt == "other":
                open(fn, "wt").write(pre + src(k if k != "argparse_function" else "argparse", "other", doc.split("+")[0]))
            elif stt == "empty":
                open(fn, "wt").write("")
        args = ["sync", "--class", files["class"], "--class-name", "ConfigClass", "--function", files["function"], "--function-name", "C.function_name",
                "--argparse-function", files["argparse_function"], "--argparse-function-name", "set_cli_args", "--truth", truth]
        env = dict(os.environ, PYTHONPATH=common.REPO)
        want = interface(truth, files[truth])
        initial = {k: (open(f, "rb").read() if os.path.exists(f) else None) for k, f in files.items()}
        snaps = []
        for run_no in (1, 2):
            r = subprocess.run([sys.executable, "-m", "cdd"] + args, capture_output=True, text=True, env=env, timeout=120)
            if r.returncode != 0:
                last = (r.stderr or r.stdout).strip().splitlines()[-1] if (r.stderr or r.stdout).strip() else ""
                out.append((("cli-fails", last.split(":")[0][:40], "function-file=" + states[1], "run%d" % run_no), "sync exits %d: %s" % (r.returncode, (r.stderr or r.stdout).strip().splitlines()[-1][:150] if (r.stderr or r.stdout).strip() else ""), None))
                return out
            snaps.append({k: (open(f, "rb").read() if os.path.exists(f) else None) for k, f in files.items()})
        if snaps[0] != snaps[1]:
            ch = [k for k in kinds if snaps[0][k] != snaps[1][k]]
            for k_ in ch:
                out.append((("second-run-not-noop", "changed=" + k_, "state=" + (states[kinds.index(k_)] if k_ != truth else "truth")), "the second identical sync changed the %s file (truth %s, initial states %s)" % (k_, truth, "|".join(states)), None))
        extra = sorted(set(os.listdir(d)) - {os.path.basename(f) for f in files.values()} - {"__pycache__"})
        if extra:
            out.append((("stray-file", "truth=" + truth), "sync left files it was not asked to write: %s" % extra, None))
        for k, stt in zip(kinds, states):
            if (k == truth or stt == "same") and snaps[0][k] != initial[k]:
                # the target already has the truth's interface: nothing had to change, so the file -- the truth itself, or
                # the code around an already conforming target (comments, layout) -- must come out byte-identical
                out.append((("conforming-file-rewritten", "truth=" + truth, "target=" + k, "state=" + (stt if k != truth else "truth")),
                            "the %s file already held the truth's interface but was rewritten: %r -> %r" % (k, (initial[k] or b"")[:60], (snaps[0][k] or b"")[:60]), None))
        for k, stt in zip(kinds, states):
            try:
                got = interface(k, files[k])
            except Exception as ex:
                out.append((("target-unparsable", "truth=" + truth, "target=" + k, "state=" + stt), "%s: %s" % (type(ex).__name__, str(ex)[:100]), None))
                continue
            if got != want:
                out.append((("target-differs", "truth=" + truth, "target=" + k, "state=" + (stt if k != truth else "truth"), "doc=" + doc.split("+")[0]), "after sync --truth %s the %s target has %r, the truth %r" % (truth, k, got, want), None))
            if stt in ("other", "same") and ("UNRELATED_%s = 1" % k.upper()).encode() not in (snaps[1][k] or b""):
                out.append((("unrelated-code-lost", "truth=" + truth, "target=" + k, "state=" + stt), "the unrelated definition in the %s file is gone" % k, None))
        return out
    except Exception as ex:
        return [("raises", "%s: %s" % (type(ex).__name__, str(ex)[:120]), None)]
    finally:
        shutil.rmtree(d, ignore_errors=True)


CMP_SRCS = [
    "class A:\n    a: int = 1\n    b: str = 'x'\n", "class A:\n    a: int = 1\n    b: str = 'x'\n    c: float = 2.0\n", "class A:\n    a: int = 1\n",
    "class A:\n    a: int = 2\n    b: str = 'x'\n", "class A:\n    '''doc'''\n    a: int = 1\n    b: str = 'x'\n",
    "def f(a, b=1):\n    return a\n", "def f(a, b=1, c=2):\n    return a\n", "def f(a, b=1):\n    x = 1\n    return a\n", "def f(a, b=2):\n    return a\n",
    "x = [1, 2]\n", "x = [1, 2, 3]\n", "x = (1, 2)\n", "x = {'a': 1}\n", "x = {'a': 1, 'b': 2}\n", "f(1, 2)\n", "f(1, 2, 3)\n", "f(1, k=2)\n", "f(1, k=2, j=3)\n",
    "import os\n", "import os, sys\n", "from a import b\n", "from a import b, c\n", "", "pass\n", "x: int\n", "x: int = 1\n",
]


def cmp_ast_differential():
    """
    sync rewrites a target only when `not cmp_ast(original, replacement)`: cmp_ast must be equality of syntax trees.  Checked
    against ast.dump equality on every ordered pair of a corpus that contains strict prefixes of each other (bodies, argument
    lists, list / dict displays, import lists).  -> [(key, what, None)]
    """
    import cdd.shared.ast_utils as au

    trees = [ast.parse(s_) for s_ in CMP_SRCS]
    out = []
    for (i, a), (j, b) in itertools.product(enumerate(trees), repeat=2):
        want = ast.dump(a) == ast.dump(b)
        try:
            got = bool(au.cmp_ast(a, b))
        except Exception as ex:
            got = "raises %s" % type(ex).__name__
        if got != want:
            out.append((("cmp_ast-differs", "equal" if want else "different"), "cmp_ast says %r for %r vs %r, whose trees are %s" % (got, CMP_SRCS[i][:60], CMP_SRCS[j][:60], "equal" if want else "different"), None))
            if len(out) > 3:
                break
    return out


def shared_case(truth="function"):
    """The truth's module is also listed as the file of another kind whose target is absent from it (layout of the project's own example)"""
    d = tempfile.mkdtemp(prefix="cddvc_c12s_")
    out = []
    try:
        kinds = ("class", "function", "argparse_function")
        other = "class" if truth != "class" else "function"
        shared = os.path.join(d, "shared_.py")
        open(shared, "wt").write("UNRELATED_SHARED = 1\n\n\n" + src(truth if truth != "argparse_function" else "argparse", "truth"))
        files = {k: os.path.join(d, "%s_.py" % k) for k in kinds}
        files[truth] = files[other] = shared
        third = next(k for k in kinds if k not in (truth, other))
        open(files[third], "wt").write(src(third if third != "argparse_function" else "argparse", "truth"))
        args = ["sync", "--class", files["class"], "--class-name", "ConfigClass", "--function", files["function"], "--function-name", "C.function_name",
                "--argparse-function", files["argparse_function"], "--argparse-function-name", "set_cli_args", "--truth", truth]
        want = interface(truth, shared)
        r = subprocess.run([sys.executable, "-m", "cdd"] + args, capture_output=True, text=True, env=dict(os.environ, PYTHONPATH=common.REPO), timeout=120)
        if r.returncode != 0:
            return [("raises", "sync exits %d" % r.returncode, None)]
        try:
            got = interface(other, shared)
        except Exception as ex:
            return [(("shared-module-target-missing", "truth=" + truth, "target=" + other), "the %s target was not created in the module it shares with the truth: %s: %s" % (other, type(ex).__name__, str(ex)[:80]), None)]
        if got != want:
            out.append((("shared-module-target-differs", "truth=" + truth, "target=" + other), "in the shared module the %s target has %r, the truth %r" % (other, got, want), None))
        return out
    except Exception as ex:
        return [("raises", "%s: %s" % (type(ex).__name__, str(ex)[:120]), None)]
    finally:
        shutil.rmtree(d, ignore_errors=True)


def argparse_frame_replay():
    """The frame contract of the argparse emitter on the real function: the 'default' key of the caller's dict is left as it was"""
    import copy

    import cdd.shared.ast_utils as AU

    for name, p in (("limit", {"typ": "Optional[int]", "doc": "the limit"}), ("weights", {"typ": "List[float]", "doc": "the weights"}), ("n", {"typ": "int", "doc": "the n. Defaults to 5"}),
                    ("kwargs", {"typ": "dict", "doc": "keyword arguments"}), ("mode", {"typ": "Literal['a', 'b']", "doc": "the mode", "default": "a"}), ("flag", {"doc": "a flag"}),
                    ("ratio", {"typ": "Optional[float]", "doc": "the ratio", "default": None})):
        for edd in (True, False):
            mine = copy.deepcopy(p)
            try:
                AU.param2argparse_param((name, mine), word_wrap=False, emit_default_doc=edd)
            except Exception:
                continue
            if ("default" in mine) != ("default" in p) or ("default" in p and mine["default"] != p["default"]):
                return {"call": "cdd.shared.ast_utils.param2argparse_param((%r, %r), emit_default_doc=%r)" % (name, p, edd),
                        "what": "the caller's parameter dict is left as %r: the 'default' key was %s (the class / function emitters that get the same interface description next read it)" % (mine, "added" if "default" not in p else "changed")}
    return None


def main(tier, write_baseline=False):
    run = Run("C12", tier, "other", checker_cmd=common.checker_cmd("C12", tier))
    run.confirm_abstracted = ('param2argparse_param#frame-on-default', ':_resolve_arg/')  # refutations of these exact contracts count only with an input that fails on the real code (report.Run.violation)
    run.trusted_base.update(["rule engine of checks/C12.py over the real ast (write frame, dominance, shape)", "cddvc E1 (Seq views) for the block contract on cmp_ast"])
    refuted = []
    from cddvc import e1

    e1_refuted = e1.run_contracts(run, "contracts.C12")
    for name, ok, detail in rule_obligations():
        st = UNDECIDED if ok is None else (PROVED if ok else REFUTED)
        run.add("C12/" + name, st, "rule-engine", detail=detail)
        if ok is False:
            refuted.append(("C12/" + name, detail))

    def rule_replay(_name):
        # the clauses the frame rules carry (targets conformed, nothing else touched, second run a no-op), on the real CLI
        for key, what, _x in cmp_ast_differential():
            return {"case": ["cmp_ast", ["differential"], "short"], "what": "[class %s] %s" % ("|".join(key), what[:300])}
        for truth in ("function", "argparse_function"):
            for key, what, _x in shared_case(truth):
                if key != "raises":
                    return {"case": ["shared-module", truth], "what": "[class %s] %s" % ("|".join(key), what[:300])}
        for truth in ("class", "function", "argparse_function"):
            for st3 in (("same", "same", "same"), ("other", "other", "other"), ("missing", "missing", "missing"), ("same", "other", "missing")):
                case = (truth, st3, "short")
                for key, what, _x in one_case(case):
                    if key == "raises":
                        continue
                    cls = "|".join(str(k) for k in key)
                    if run.match_finding({"class": cls, "obligation": "C12/bounded/%s" % key[0]}) is None:
                        return {"case": [case[0], list(case[1]), case[2]], "what": "[class %s] %s" % (cls, what[:300])}
        return None

    refuted, rule_inputs = run.confirm_or_undecide(refuted, rule_replay, is_rule=lambda n: True)
    if write_baseline:
        common.write_baseline("C12", [n for n, o in run.obligations.items() if o["status"] == "proved"])
    compare_baseline(run, set(run.obligations))
    fails = {}
    if not os.environ.get("VERIF_NO_BOUNDED"):
        states = ("same", "other", "missing", "empty")
        cases = []
        for truth in ("class", "function", "argparse_function"):
            for st3 in itertools.product(states, repeat=3):
                if tier == "quick" and hash((truth,) + st3) % 3:
                    continue
                cases.append((truth, st3, "short"))
            cases.append((truth, ("missing", "missing", "missing"), "long"))
            cases.append((truth, ("empty", "other", "empty"), "long"))
            cases.append((truth, ("other", "other", "other"), "short+names"))
            cases.append((truth, ("same", "other", "missing"), "short+names"))
        res = common.tmap(one_case, cases, threads=16)
        shared = [("shared-module", t) for t in ("function", "argparse_function")]
        res += [shared_case(t) for _s, t in shared]
        cases = cases + [(s_, (t,), "short") for s_, t in shared]
        res.append(cmp_ast_differential())
        cases = cases + [("cmp_ast", ("differential",), "short")]
        raised = 0
        for c, r in zip(cases, res):
            for key, what, _x in r:
                if key == "raises":
                    raised += 1
                    continue
                fails.setdefault(tuple(key), (c, what))
        run.bounded.append({
            "name": "the real CLI `python -m cdd sync` on triples of files, two consecutive runs (bounded, NOT counted as proved)",
            "bound": "%d cases: truth in {class, function, argparse_function} x initial state of each of the three targets in {same as truth, other interface, missing, empty} (quick: seeded third) + long (>100 column) descriptions + the targets' own names as string literals in front of them (export list, forward reference, registry) + 2 shared-module cases (the truth's module is also the file of another kind) + cmp_ast against ast.dump equality on all ordered pairs of a 26-tree corpus; oracle: re-parse with the matching parser, unrelated definitions kept, second run byte-identical" % len(cases),
            "rule": "one case = two CLI runs",
            "evaluations": len(cases), "distinct_nontrivial": len(cases) - raised,
            "failures": [{"class": "|".join(map(str, k)), "what": v[1][:250]} for k, v in list(fails.items())[:6]],
        })
    for name, detail in refuted:
        run.violation(name, detail, failing_input=rule_inputs.get(name), solver_output={"rule": detail})
    seen_ = set()
    for o in e1_refuted:
        if o["name"] in seen_:
            continue
        seen_.add(o["name"])
        if "param2argparse_param" in o["name"] or "_resolve_arg" in o["name"]:
            fi_ = argparse_frame_replay() or common.model_replay("contracts.C12", o)
        else:
            d_ = cmp_ast_differential()
            fi_ = {"case": ["cmp_ast", ["differential"], "short"], "what": d_[0][1][:300]} if d_ else None
        run.violation(o["name"], "obligation refuted by %s on path %s" % (o["backend"], " ".join(o["trace"])),
                      failing_input=fi_, solver_output={"model": o["model"], "smt2": (o["smt2"] or "")[:3000]})
    for key, (case, what) in sorted(fails.items(), key=str):
        cls = "|".join(str(k) for k in key)
        run.violation("C12/bounded/%s" % key[0], "[class %s] %s" % (cls, what), key={"class": cls}, failing_input={"case": [case[0], list(case[1]), case[2]]})
    common.apply_controls(run, tier)
    return run.finish(explanation="PROVED (thin frame lemmas): _conform_filename writes only its own file, rewrites in place only when the target differs and was replaced, ground_truth conforms every listed file and only reads the truth. "
                      "BOUNDED only: that targets really end up equivalent to the truth — where the pinned tree fails broadly (known findings).")


def replay(path):
    d = json.load(open(path))
    inp = (d.get("failing_input") or {}).get("case")
    print("replaying %s: obligation %s" % (path, d["failed_obligation"]))
    if not inp:
        return 1
    if inp[0] == "cmp_ast":
        r = cmp_ast_differential()
        print(r)
        return 1 if r else 0
    if inp[0] == "shared-module":
        r = shared_case(inp[1][0] if isinstance(inp[1], list) else inp[1])
        print(r)
        return 1 if [x for x in r if x[0] != "raises"] else 0
    r = one_case((inp[0], tuple(inp[1]), inp[2]))
    print(r)
    return 1 if [x for x in r if x[0] != "raises"] else 0

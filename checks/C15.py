"""
C15 — docstring prose outside the parameter section is preserved.

Deciding steps (lemmas, E1, all inputs): slicing lemma of parse_docstring_into_header_args_footer
(the three slices of the original tile it whenever start <= last), range of _get_token_start_idx,
header-prefix / footer-suffix frame of header_args_footer_to_str.
Bounded (stand-in, NOT proved): the relational fact start <= last between the two index scanners, the
returned triple, and the conversion half (header lines survive style conversion) on the real functions.
"""

import itertools
import json
import os

from cddvc import e1
from cddvc.report import REFUTED, Run, compare_baseline
from checks import common

TOKENS = ["\n", "\n\n", "    ", " ", "Summary line.", "More prose", ":param a: the a", ":type a: ```int```", ":return: r", ":rtype: ```int```",
          "Args:", "  a (int): the a", "Returns:", "  int: r", "Raises:", "Parameters\n----------", "a : int\n    the a", "Returns\n-------", "Notes:", ">>> f(1)"]


def split_check(doc):
    """Runtime form of the contracts on one docstring. -> None or (kind, what)"""
    import cdd.shared.docstring_utils as du

    try:
        s = du._get_token_start_idx(doc) if doc else None
        l = du._get_token_last_idx(doc) if doc else None
        h, a, f = du.parse_docstring_into_header_args_footer(doc, doc)
    except Exception as ex:
        return ("raise", "%s: %s" % (type(ex).__name__, ex))
    if not doc:
        return None
    if l is not None and l < -1:
        return ("last-idx-range", "_get_token_last_idx returned %d < -1 (assumed contract violated)" % l)
    if s is not None and l is not None and s > -1 and l > -1 and s > l:
        return ("start-after-last", "token start %d > token last %d: the slices overlap (text duplicated)" % (s, l))
    if (h or "") + (a or "") + (f or "") != doc:
        import itertools as it
        ind = sum(1 for _ in it.takewhile(str.isspace, doc[s if s > -1 else None: l if l > -1 else None] or ""))
        return ("reindented" if ind > 1 else "concat", "the three returned parts do not concatenate to the original (section indent %d)" % ind)
    return None


def _chunk(args):
    n, first = args
    ev, fails = 0, {}
    for rest in itertools.product(TOKENS, repeat=n - 1):
        for indent in ("", "    "):
            doc = "".join(indent + t if t not in ("\n", "\n\n") else t for t in (first,) + rest)
            ev += 1
            r = split_check(doc)
            if r and r[0] != "raise":
                fails.setdefault((r[0], "Raises:" in doc), (doc, r[1]))
    return ev, fails


def conversion_check(case):
    """header lines survive conversion, in order, and are not absorbed into a type/default"""
    import cdd.docstring.emit
    import cdd.docstring.parse

    src_style, tgt_style, header, indent = case[:4]
    variant = case[4] if len(case) > 4 else "full@docstring"
    shape, route = variant.split("@")
    sections = {
        "rest": ":param a: the a\n:type a: ```int```\n\n:param b: the b. Defaults to 5\n:type b: ```int```\n\n:return: r\n:rtype: ```str```\n",
        "google": "Args:\n  a (int): the a\n  b (int): the b. Defaults to 5\n\nReturns:\n  str: r\n",
        "numpydoc": "Parameters\n----------\na : int\n    the a\nb : int\n    the b. Defaults to 5\n\nReturns\n-------\nstr\n    r\n",
    }
    if shape == "last-line-field":
        # the parameter section is ONE field line and that line is the last of the docstring, closing quotes right behind it
        sections = {"rest": ":param a: the a", "google": "Args:\n  a: the a", "numpydoc": "Parameters\n----------\na : int\n    the a"}
    elif shape == "one-field":
        sections = {"rest": ":param a: the a\n", "google": "Args:\n  a: the a\n", "numpydoc": "Parameters\n----------\na : int\n    the a\n"}
    doc = header + "\n\n" + sections[src_style]
    doc = "".join(indent + l if l.strip() else l for l in doc.splitlines(True))
    try:
        if route == "function":
            # the route doctrans takes: the parser keeps the original text in the description it returns
            import ast as _ast

            import cdd.function.parse

            fn = _ast.parse("def f(a, b=5):\n    %r\n    return a\n" % ("\n" + "".join("    " + l if l.strip() else l for l in doc.splitlines(True)))).body[0]
            ir = cdd.function.parse.function(fn)
        else:
            ir = cdd.docstring.parse.docstring(doc, parse_original_whitespace=True)
        out = cdd.docstring.emit.docstring(ir, docstring_format=tgt_style, indent_level=len(indent) // 4)
    except Exception as ex:
        return ("raise", "%s: %s" % (type(ex).__name__, ex))
    pos = 0
    for line in [l.strip() for l in header.splitlines() if l.strip()]:
        i = out.find(line, pos)
        if i == -1:
            return ("header-line-lost", "header line %r is missing (or out of order) after %s -> %s" % (line, src_style, tgt_style))
        pos = i + len(line)
    for name, p in list(ir["params"].items()) + list((ir.get("returns") or {}).items()):
        for k in ("typ", "default"):
            v = p.get(k)
            if isinstance(v, str) and any(l.strip() and l.strip() in v for l in header.splitlines()):
                return ("prose-absorbed", "a header line was absorbed into %s of %s: %r" % (k, name, v))
    return None


HEADERS = [
    "Summary line.",
    "Summary line.\n\nLong description, second paragraph\nwrapped over two lines.",
    "Summary.\n\nSee also the docs: not a param.\n\nThird paragraph",
    "Summary.\n\nOverview\n--------\nProse under an RST sub-heading.\n\n----------\n\nMore prose after a rule.",
    "Summary.\n\nAny extra kwargs: are passed on; args: too.\n\nModel parameters\n----------------\nare described elsewhere.",
    # the FIRST paragraph itself is wrapped over several lines (no blank line after the first line)
    "Acquire the lock and return the worker that\ncurrently holds it, waiting if need be\nfor at most the timeout.",
    "First paragraph wrapped\nover two lines.\n\nSecond paragraph.",
    # inline Sphinx roles and slices in the prose (text that merely LOOKS like a field name)
    "Summary.\n\nUses the :keyword:`with` statement, see :class:`Foo`, :meth:`run` and d[:key].\n:note: not a field of ours.",
]


def structured_split_check(case):
    """On a constructed docstring the header part of the split is exactly the constructed header"""
    import cdd.shared.docstring_utils as du

    style, header, indent = case
    section = {"rest": ":param a: the a\n:type a: ```int```\n\n:return: r\n:rtype: ```str```\n",
               "google": "Args:\n  a (int): the a\n\nReturns:\n  str: r\n",
               "numpydoc": "Parameters\n----------\na : int\n    the a\n\nReturns\n-------\nstr\n    r\n"}[style]
    doc = header + "\n\n" + section
    doc = "".join(indent + l if l.strip() else l for l in doc.splitlines(True))
    first = (indent + section.splitlines()[0])
    expected = doc.index(first)
    try:
        h, a, f = du.parse_docstring_into_header_args_footer(doc, doc)
    except Exception as ex:
        return ("raise", "%s: %s" % (type(ex).__name__, ex))
    if (h or "") != doc[:expected]:
        return ("header-cut", "split header is %r, constructed header is %r" % ((h or "")[-60:], doc[:expected][-60:]))
    return None


def bounded(tier):
    n_max = 2 if tier == "quick" else 3
    jobs = [(n, t) for n in range(1, n_max + 1) for t in TOKENS]
    res = common.pmap(_chunk, jobs, chunksize=1)
    ev = sum(r[0] for r in res)
    fails = {}
    for r in res:
        for k, v in r[1].items():
            fails.setdefault(k, v)
    cases = [(a, b, h, i) for a in ("rest", "google", "numpydoc") for b in ("rest", "google", "numpydoc") for h in HEADERS for i in ("", "    ", "        ")]
    cases += [(a, b, h, "", v) for a in ("rest", "google", "numpydoc") for b in ("rest", "google", "numpydoc") for h in HEADERS[:3] + HEADERS[5:6]
              for v in ("full@function", "one-field@function", "last-line-field@function", "last-line-field@docstring", "one-field@docstring")]
    cres = common.pmap(conversion_check, cases)
    scases = [(a, h, i) for a in ("rest", "google", "numpydoc") for h in HEADERS for i in ("", "    ")]
    cases = cases + scases
    cres = cres + common.pmap(structured_split_check, scases)
    cfails = {}
    for c, r in zip(cases, cres):
        if r and r[0] != "raise":
            if len(c) == 5:
                cfails.setdefault((r[0], c[0], c[1], c[4], HEADERS.index(c[2])), (c, r[1]))
                continue
            cfails.setdefault((r[0], c[0], c[1] if len(c) == 4 else "-", len(c[-1]) // 4, HEADERS.index(c[-2])), (c, r[1]))
    return ev, fails, len(cases), cfails, n_max


def main(tier, write_baseline=False):
    run = Run("C15", tier, "other", checker_cmd=common.checker_cmd("C15", tier))
    run.trusted_base.update(["cddvc E1 (DESIGN §2.1, §3)", "z3 5.1 string theory with Python slice semantics encoded by clamped SubString"])
    refuted = e1.run_contracts(run, "contracts.C15")
    if write_baseline:
        common.write_baseline("C15", [n for n, o in run.obligations.items() if o["status"] == "proved"])
    compare_baseline(run, set(run.obligations))
    fails, cfails = {}, {}
    if not os.environ.get("VERIF_NO_BOUNDED"):
        ev, fails, ncases, cfails, n_max = bounded(tier)
        run.bounded.append({
            "name": "run-time contracts of the split on enumerated docstrings + conversion of generated docstrings (bounded, NOT counted as proved)",
            "bound": "all docstrings of <= %d tokens over a %d-token alphabet at indent 0 and 1; %d conversions = 3 source styles x 3 target styles x %d headers x indent 0..2, plus 4 headers x {full, one-field, last-line-field sections} x {docstring.parse, function.parse (original text kept)} routes" % (n_max, len(TOKENS), ncases, len(HEADERS)),
            "rule": "distinct docstrings; non-trivial = contains a section token",
            "evaluations": ev + ncases, "distinct_nontrivial": ev + ncases - 2 * len(TOKENS),
            "failures": [{"kind": k[0], "input": v[0][:200], "what": v[1]} for k, v in list(fails.items())[:4]] + [{"kind": k[0], "case": list(v[0]), "what": v[1]} for k, v in list(cfails.items())[:4]],
        })
    seen = set()
    for o in refuted:
        if o["name"] in seen:
            continue
        seen.add(o["name"])
        cand = next(iter(fails.values()), None)
        fi = {"docstring": cand[0], "what": cand[1]} if cand else None
        if "derive_docstring_format" in o["name"]:
            # the contract's claim on the real router: ReST fields decide, whatever the prose says
            import contracts.C15 as C15c
            from cdd.shared.docstring_utils import Style, derive_docstring_format

            fi = None
            for prose in ("The hook mirrors this signature (Args: name, retries. Returns: bool).", "Raises: nothing. Kwargs: none.", "Plain summary."):
                for fld in C15c.REST_FIELDS:
                    doc = "%s\n\n%s a: the a\n" % (prose, fld)
                    got = derive_docstring_format(doc)
                    if got is not Style.rest:
                        fi = {"docstring": doc, "what": "derive_docstring_format returned %r for a docstring with the ReST field %r" % (got, fld), "function": "derive_docstring_format"}
                        break
                if fi:
                    break
            if fi is None:
                for doc in ("Summary.\n\nArgs:\n  a: the a\n", "Summary.\n\nReturns:\n  the result\n"):
                    got = derive_docstring_format(doc)
                    if got is not Style.google:
                        fi = {"docstring": doc, "what": "derive_docstring_format returned %r for a Google docstring without any ReST field" % (got,), "function": "derive_docstring_format"}
                        break
        if "section-line-recognised" in o["name"]:
            # replay the contract's claim on the real scanner: a header, then a line that starts a section
            import contracts.C15 as C15c
            from cdd.shared.docstring_utils import _get_token_start_idx

            fi = None
            head = "Header line.\n\n"
            for tok in C15c.SECTION_STARTS:
                doc = head + tok + " x\n  more\n"
                got = _get_token_start_idx(doc)
                if got != len(head):
                    fi = {"docstring": doc, "what": "_get_token_start_idx returned %d, the section line %r starts at %d" % (got, tok + " x", len(head)), "function": "_get_token_start_idx"}
                    break
        if "prose-line-not-a-section" in o["name"]:
            # replay the counter-model on the real scanner: a header whose second line is the model's `line`, and no section
            from cddvc import replay_block
            from cdd.shared.docstring_utils import _get_token_start_idx

            fi = None
            line_ = replay_block.model_value(o.get("model") or {}, "line", "str")
            for cand_line in [line_] + [line_ + " rest of the sentence"]:
                doc = "Header line.\n" + cand_line + "\nmore prose\n"
                got = _get_token_start_idx(doc)
                if got != -1:
                    fi = {"docstring": doc, "what": "_get_token_start_idx returned %d for a docstring without any section: the prose line %r is taken for a section start" % (got, cand_line), "function": "_get_token_start_idx", "expect": -1}
                    break
        run.violation(o["name"], "obligation refuted by %s on path %s" % (o["backend"], " ".join(o["trace"])),
                      failing_input=fi, solver_output={"model": o["model"], "smt2": (o["smt2"] or "")[:5000]})
    for (kind, has_raises), (doc, what) in fails.items():
        run.violation("C15/bounded/split/%s" % kind, what, key={"kind": kind, "has_raises_token": str(has_raises)}, failing_input={"docstring": doc})
    for (kind, a, b, ind, hi), (case, what) in cfails.items():
        run.violation("C15/bounded/conversion/%s" % kind, what, key={"kind": kind, "source": a, "target": b, "indent": str(ind), "header": str(hi)}, failing_input={"case": list(case)})
    common.apply_controls(run, tier)
    return run.finish(explanation="PROVED (lemmas, all inputs): slicing identity of the split given start <= last; range of the start scanner; header prefix / footer suffix of the re-assembly. "
                      "BOUNDED only: start <= last between the two scanners, the returned triple, and survival of header lines under style conversion.")


def replay(path):
    d = json.load(open(path))
    inp = d.get("failing_input") or {}
    print("replaying %s: obligation %s" % (path, d["failed_obligation"]))
    if inp.get("function") == "_get_token_start_idx":
        from cdd.shared.docstring_utils import _get_token_start_idx

        got = _get_token_start_idx(inp["docstring"])
        print("%r -> %d (%s)" % (inp["docstring"], got, inp["what"]))
        return 1 if got != inp.get("expect", len("Header line.\n\n")) else 0
    if "docstring" in inp:
        r = split_check(inp["docstring"])
        print("%r -> %s" % (inp["docstring"][:200], r))
        return 1 if r else 0
    if "case" in inp:
        r = (conversion_check if len(inp["case"]) in (4, 5) else structured_split_check)(tuple(inp["case"]))
        print("%r -> %s" % (inp["case"], r))
        return 1 if r else 0
    return 1

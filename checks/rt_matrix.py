"""
Generic driver of the bounded round-trip stand-ins: evaluates a contract on (cell, interface) pairs in a
process pool and groups failures into *classes* (format, options, field, type class, default class), so that
a known finding suppresses exactly one class and a new class is still reported.
"""

import copy
import json
import re

from checks import common, domain


def typ_class(t):
    if t is None:
        return "untyped"
    for k in ("Optional", "Literal", "List", "Union"):
        if t.startswith(k + "["):
            return k + ("-long" if len(t) > 85 else "")
    return "simple" if t in ("int", "float", "str", "bool", "dict", "complex") else "other"


def default_class(p):
    if "default" not in p:
        return "absent"
    d = p["default"]
    if d == domain.NONE or d is None:
        return "None"
    if isinstance(d, bool):
        return "bool"
    if isinstance(d, int):
        return "negint" if d < 0 else ("zero" if d == 0 else "int")
    if isinstance(d, float):
        return "negfloat" if d < 0 else "float"
    if isinstance(d, str):
        return "emptystr" if d == "" else ("codequoted" if d.startswith("```") else "str")
    return type(d).__name__


def strip_default_clause(s):
    return re.sub(r"\s*[.,;]?\s*[Dd]efaults? to\s.*$", "", s or "", flags=re.S)


_JOB = {}


def _eval(args):
    cell, ir = args
    fn = _JOB["fn"]
    try:
        return fn(cell, copy.deepcopy(ir))
    except Exception as ex:  # the contract is "whenever it returns"
        return [("raises", "%s: %s" % (type(ex).__name__, str(ex)[:120]), None)]


def run(cells, irs, fn):
    """
    fn(cell, ir) -> list of (class_key tuple or "raises", what, extra); [] when the contract holds.
    -> (evaluations, raised, fails {class_key: (cell, ir, what)})
    """
    _JOB["fn"] = fn
    jobs = [(c, ir) for c in cells for ir in irs]
    res = common.pmap(_eval, jobs)
    fails, raised = {}, 0
    base = _raise_baseline()
    for (cell, ir), r in zip(jobs, res):
        for key, what, _extra in r:
            if key == "raises":
                raised += 1
                # an evaluation that raises is out of the contract's domain ("whenever it returns") -- but only if it
                # already raised on the committed tree: an input that USED to come back and now raises is a violation
                # only on the seed-independent (exhaustive) part of the domain: interfaces with at most one parameter
                if not isinstance(ir, dict) or len(ir.get("params") or {}) > 1:
                    continue
                h = _raise_hash(cell, ir, what)
                if RAISE_CTX.get("write"):
                    _NEW_RAISES.add(h)
                elif base is not None and h not in base:
                    fmt = cell[0] if isinstance(cell, (list, tuple)) and cell else str(cell)
                    fails.setdefault(("newly-raises", str(fmt), what.split(":")[0]), (cell, ir, "this evaluation returned on the committed tree and now raises %s" % what[:200]))
                continue
            shp = doc_shape(ir, _extra)
            fails.setdefault(tuple(key) + (("shape=" + shp,) if shp else ()), (cell, ir, what))
    return len(jobs), raised, fails


# ---- baseline of evaluations that raise on the committed tree (baseline/raises.json, written by --write-baseline)
RAISE_CTX = {}  # prop=..., write=bool ; set by the check before calling run()
_NEW_RAISES = set()


def _raise_hash(cell, ir, what):
    import hashlib

    return hashlib.sha1((json.dumps(cell, default=str, sort_keys=True) + json.dumps(ir, default=str, sort_keys=True) + what.split(":")[0]).encode("utf-8")).hexdigest()[:16]


def _raise_path():
    import os

    return os.path.join(common.VERIF, "baseline", "raises.json")


def _raise_baseline():
    import os

    prop = RAISE_CTX.get("prop")
    if not prop or not os.path.exists(_raise_path()):
        return None
    d = json.load(open(_raise_path()))
    return set(d[prop]) if prop in d else None


def flush_raise_baseline():
    """--write-baseline: the set of raising evaluations of this tier is ADDED to the property's baseline set"""
    import os

    prop = RAISE_CTX.get("prop")
    if not prop or not RAISE_CTX.get("write"):
        return
    d = json.load(open(_raise_path())) if os.path.exists(_raise_path()) else {}
    d[prop] = sorted(set(d.get(prop, [])) | _NEW_RAISES)
    with open(_raise_path(), "wt") as f:
        json.dump(d, f, indent=0, sort_keys=True)


def doc_shape(ir, extra=None):
    """Unusual shapes of the descriptions of an interface; kept apart from the failure class so that old findings still match"""
    docs = [p.get("doc") or "" for p in (ir.get("params") or {}).values()] if isinstance(ir, dict) else []
    if isinstance(extra, dict) and (extra.get("param_doc") or "").startswith(("Optional", "(Optional)")):
        return "optional-prose"  # the description of the very parameter the failure is about starts with the word
    if isinstance(extra, dict) and "param_doc" in extra and not (extra.get("param_doc") or "").strip():
        return "empty-doc"  # the parameter the failure is about has no description at all
    base = "multiline-doc" if any("\n" in d for d in docs) else ("colon-doc" if any(":" in d and not d.startswith("[") for d in docs) else "")
    if not (isinstance(extra, dict) and "param_doc" in extra) and docs and any(not d.strip() for d in docs):
        # a failure that is not about one parameter (names, returns, interface description) on an interface with an undocumented one
        return (base + "+" if base else "") + "undocumented-param"
    return base


def report(run_, prefix, fails, refuted_names=()):
    """Turn failure classes into violations / known findings"""
    for key, (cell, ir, what) in sorted(fails.items(), key=str):
        shape = next((str(k)[6:] for k in key if str(k).startswith("shape=")), "")
        cls = "|".join(str(k) for k in key if not str(k).startswith("shape="))
        run_.violation("%s/%s" % (prefix, key[0]), "[class %s%s] %s" % (cls, (" / " + shape) if shape else "", what), key={"class": cls, "doc_shape": shape},
                       failing_input={"cell": list(cell) if isinstance(cell, (list, tuple)) else cell, "ir": json.loads(json.dumps(ir, default=str))})

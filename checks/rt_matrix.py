"""
Generic driver of the bounded round-trip stand-ins: evaluates a contract on (cell, interface) pairs in a
process pool and groups failures into *classes* (format, options, field, type class, default class), so that
a known finding suppresses exactly one class and a new class is still reported.
"""

import copy
import json
import re

from checks import common, domain


def typ_class(t):
    if t is None:
        return "untyped"
    for k in ("Optional", "Literal", "List", "Union"):
        if t.startswith(k + "["):
            return k + ("-long" if len(t) > 85 else "")
    return "simple" if t in ("int", "float", "str", "bool", "dict", "complex") else "other"


def default_class(p):
    if "default" not in p:
        return "absent"
    d = p["default"]
    if d == domain.NONE or d is None:
        return "None"
    if isinstance(d, bool):
        return "bool"
    if isinstance(d, int):
        return "negint" if d < 0 else ("zero" if d == 0 else "int")
    if isinstance(d, float):
        return "negfloat" if d < 0 else "float"
    if isinstance(d, str):
        return "emptystr" if d == "" else ("codequoted" if d.startswith("```") else "str")
    return type(d).__name__


def strip_default_clause(s):
    return re.sub(r"\s*[.,;]?\s*[Dd]efaults? to\s.*$", "", s or "", flags=re.S)


_JOB = {}


def _eval(args):
    cell, ir = args
    fn = _JOB["fn"]
    try:
        return fn(cell, copy.deepcopy(ir))
    except Exception as ex:  # the contract is "whenever it returns"
        return [("raises", "%s: %s" % (type(ex).__name__, str(ex)[:120]), None)]


def run(cells, irs, fn):
    """
    fn(cell, ir) -> list of (class_key tuple or "raises", what, extra); [] when the contract holds.
    -> (evaluations, raised, fails {class_key: (cell, ir, what)})
    """
    _JOB["fn"] = fn
    jobs = [(c, ir) for c in cells for ir in irs]
    res = common.pmap(_eval, jobs)
    fails, raised = {}, 0
    for (cell, ir), r in zip(jobs, res):
        for key, what, _extra in r:
            if key == "raises":
                raised += 1
                continue
            fails.setdefault(tuple(key) + (("shape=" + doc_shape(ir),) if doc_shape(ir) else ()), (cell, ir, what))
    return len(jobs), raised, fails


def doc_shape(ir):
    """Unusual shapes of the descriptions of an interface; kept apart from the failure class so that old findings still match"""
    docs = [p.get("doc") or "" for p in (ir.get("params") or {}).values()] if isinstance(ir, dict) else []
    return "multiline-doc" if any("\n" in d for d in docs) else ("colon-doc" if any(":" in d and not d.startswith("[") for d in docs) else "")


def report(run_, prefix, fails, refuted_names=()):
    """Turn failure classes into violations / known findings"""
    for key, (cell, ir, what) in sorted(fails.items(), key=str):
        shape = next((str(k)[6:] for k in key if str(k).startswith("shape=")), "")
        cls = "|".join(str(k) for k in key if not str(k).startswith("shape="))
        run_.violation("%s/%s" % (prefix, key[0]), "[class %s%s] %s" % (cls, (" / " + shape) if shape else "", what), key={"class": cls, "doc_shape": shape},
                       failing_input={"cell": list(cell) if isinstance(cell, (list, tuple)) else cell, "ir": json.loads(json.dumps(ir, default=str))})

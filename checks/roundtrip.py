"""
Hops of the bounded round-trip stand-ins (C01 C02 C03 C04 C05 C08 C14): emit with the real emitter, render
the AST to source text, re-read the text, parse with the matching real parser.
"""

import ast
import contextlib
import copy
import io

from checks import domain


def quiet():
    return contextlib.redirect_stderr(io.StringIO())


def to_src(node):
    from cdd.shared.source_transformer import to_code

    return to_code(node)


def hop_docstring(ir, style="rest", emit_default_doc=True, emit_types=True, word_wrap=True, **_kw):
    import cdd.docstring.emit
    import cdd.docstring.parse

    text = cdd.docstring.emit.docstring(copy.deepcopy(ir), docstring_format=style, emit_default_doc=emit_default_doc, emit_types=emit_types, word_wrap=word_wrap)
    with quiet():
        back = cdd.docstring.parse.docstring(text, emit_default_doc=emit_default_doc)
    return back, text


def hop_class(ir, style="rest", emit_default_doc=False, **_kw):
    import cdd.class_.emit
    import cdd.class_.parse

    text = to_src(cdd.class_.emit.class_(copy.deepcopy(ir), class_name="Conf", docstring_format=style, emit_default_doc=emit_default_doc))
    with quiet():
        back = cdd.class_.parse.class_(ast.parse(text).body[0])
    return back, text


def hop_pydantic(ir, style="rest", emit_default_doc=False, **_kw):
    import cdd.pydantic.emit
    import cdd.pydantic.parse

    text = to_src(cdd.pydantic.emit.pydantic(copy.deepcopy(ir), class_name="Conf", docstring_format=style, emit_default_doc=emit_default_doc))
    with quiet():
        back = cdd.pydantic.parse.pydantic(ast.parse(text).body[0])
    return back, text


def hop_function(ir, style="rest", emit_default_doc=False, type_annotations=True, kwonly=False, **_kw):
    import cdd.function.emit
    import cdd.function.parse

    text = to_src(cdd.function.emit.function(copy.deepcopy(ir), function_name="conf", function_type="static", docstring_format=style, emit_default_doc=emit_default_doc,
                                             type_annotations=type_annotations, emit_as_kwonlyargs=kwonly))
    with quiet():
        back = cdd.function.parse.function(ast.parse(text).body[0])
    return back, text


def hop_argparse(ir, style="rest", emit_default_doc=False, **_kw):
    import cdd.argparse_function.emit
    import cdd.argparse_function.parse

    text = to_src(cdd.argparse_function.emit.argparse_function(copy.deepcopy(ir), docstring_format=style, emit_default_doc=emit_default_doc))
    with quiet():
        back = cdd.argparse_function.parse.argparse_ast(ast.parse(text).body[0])
    return back, text


def hop_json_schema(ir, **_kw):
    import json

    import cdd.json_schema.emit
    import cdd.json_schema.parse

    text = json.dumps(cdd.json_schema.emit.json_schema(copy.deepcopy(ir)))
    with quiet():
        back = cdd.json_schema.parse.json_schema(json.loads(text))
    return back, text


def hop_sqlalchemy(ir, variant="sqlalchemy", style="rest", force_pk_id=False, **_kw):
    import cdd.sqlalchemy.emit
    import cdd.sqlalchemy.parse

    if variant == "sqlalchemy":
        node = cdd.sqlalchemy.emit.sqlalchemy(copy.deepcopy(ir), class_name="Conf", table_name="conf_tbl", emit_repr=False, docstring_format=style, force_pk_id=force_pk_id)
        text = to_src(node)
        with quiet():
            back = cdd.sqlalchemy.parse.sqlalchemy(ast.parse(text).body[0])
    elif variant == "sqlalchemy_table":
        node = cdd.sqlalchemy.emit.sqlalchemy_table(copy.deepcopy(ir), name="conf_tbl", table_name="conf_tbl", docstring_format=style, force_pk_id=force_pk_id)
        text = to_src(node)
        with quiet():
            back = cdd.sqlalchemy.parse.sqlalchemy_table(ast.parse(text).body[0])
    else:
        node = cdd.sqlalchemy.emit.sqlalchemy_hybrid(copy.deepcopy(ir), class_name="Conf", table_name="conf_tbl", emit_repr=False, emit_create_from_attr=False, docstring_format=style, force_pk_id=force_pk_id)
        text = to_src(node)
        with quiet():
            cls = ast.parse(text).body[0]
            # the hybrid parser of the pinned tree rejects its own emission (known finding of C05); read its __table__
            tbl = next(s for s in cls.body if isinstance(s, ast.Assign) and any(isinstance(t, ast.Name) and t.id == "__table__" for t in s.targets))
            back = cdd.sqlalchemy.parse.sqlalchemy_table(tbl.value)
    return back, text


HOPS = {
    "docstring": hop_docstring, "class": hop_class, "pydantic": hop_pydantic, "function": hop_function, "argparse": hop_argparse,
    "json_schema": hop_json_schema, "sqlalchemy": hop_sqlalchemy,
}


def entry(p, keep_doc=True):
    """Comparable form of one parameter entry"""
    out = {}
    if "typ" in p and p["typ"] is not None:
        out["typ"] = p["typ"]
    if "default" in p:
        d = p["default"]
        out["default"] = (type(d).__name__, d)
    if keep_doc:
        out["doc"] = domain.norm_doc(p.get("doc"))
    return out


def interface(ir, keep_doc=True, keep_returns=True):
    params = [(n, entry(p, keep_doc)) for n, p in (ir.get("params") or {}).items()]
    rets = [(n, entry(p, keep_doc)) for n, p in ((ir.get("returns") or {}) or {}).items()] if keep_returns else []
    return params, rets


def diff(a, b):
    """First difference between two interface() values, as text (or None)"""
    (pa, ra), (pb, rb) = a, b
    if [n for n, _ in pa] != [n for n, _ in pb]:
        return "parameter names/order %r vs %r" % ([n for n, _ in pa], [n for n, _ in pb])
    for (n, x), (_n, y) in zip(pa, pb):
        for k in sorted(set(x) | set(y)):
            if x.get(k) != y.get(k):
                return "%s.%s: %r vs %r" % (n, k, x.get(k, "<absent>"), y.get(k, "<absent>"))
    if [n for n, _ in ra] != [n for n, _ in rb]:
        return "return entry %r vs %r" % (ra, rb)
    for (n, x), (_n, y) in zip(ra, rb):
        for k in sorted(set(x) | set(y)):
            if x.get(k) != y.get(k):
                return "returns.%s: %r vs %r" % (k, x.get(k, "<absent>"), y.get(k, "<absent>"))
    return None

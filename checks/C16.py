"""
C16 — the generated OpenAPI document is closed and matches the requested CRUD.

Deciding step (lemma, E1, all inputs): contract of components_paths_from_name_model_route_id_crud over a
symbolic-key map / JSON-tree view: every $ref written resolves to a component written on the same path (or
ServerError), request body defined iff Create, operations match the CRUD letters, the item route declares
its path parameter, nothing else is written (frame); plus the structural side condition on emit.openapi.
Bounded (stand-in, NOT proved): emit.openapi and the models -> gen_routes -> upsert_routes -> openapi_bulk
pipeline on generated SQLAlchemy models, with the whole-document oracle.
"""

import contextlib
import io
import itertools
import json
import os
import re
import tempfile
from collections import OrderedDict

from cddvc import e1
from cddvc.report import Run, compare_baseline
from checks import common

METHODS = frozenset(("get", "put", "post", "delete", "patch", "options", "head", "trace"))
CRUDS = tuple("".join(c) for n in (1, 2, 3) for c in itertools.combinations("CRD", n))
MODELS = (
    ("Config", (("dataset_name", "str"), ("epochs", "int")), "dataset_name"),
    ("Tag", (("slug", "str"),), "slug"),
    ("Item", (("sku", "str"), ("price", "float"), ("in_stock", "bool")), "sku"),
    ("Record", (("record_id", "str"), ("payload", "str")), None),
    ("Category", (("title", "str"), ("code", "str"), ("rank", "int")), "code"),
    ("Todo", (("uid", "str"), ("text", "str"), ("done", "bool"), ("prio", "int"), ("a", "int"), ("b", "str")), "uid"),
    ("UserProfile", (("email", "str"), ("age", "int")), "email"),
)
PRELUDE = "from sqlalchemy import JSON, Boolean, Column, Float, Integer, String\nfrom sqlalchemy.orm import declarative_base\n\nBase = declarative_base()\n\n\n"


def iter_refs(node):
    if isinstance(node, dict):
        for k, v in node.items():
            if k == "$ref" and isinstance(v, str):
                yield v
            else:
                for r in iter_refs(v):
                    yield r
    elif isinstance(node, (list, tuple)):
        for v in node:
            for r in iter_refs(v):
                yield r


def resolves(doc, ref):
    if not ref.startswith("#/"):
        return False
    cur = doc
    for part in ref[2:].split("/"):
        if not isinstance(cur, dict) or part not in cur:
            return False
        cur = cur[part]
    return True


def document_problems(doc, expected_ops):
    """The property statement on a concrete document. -> list of (kind, text)"""
    try:
        doc = json.loads(json.dumps(doc))
    except (TypeError, ValueError) as ex:
        return [("not-serialisable", repr(ex))]
    out = []
    for ref in sorted(set(iter_refs(doc))):
        if not resolves(doc, ref):
            out.append(("dangling-ref", "$ref %r does not resolve (schemas %s, requestBodies %s)" % (ref, sorted(doc["components"]["schemas"]), sorted(doc["components"]["requestBodies"]))))
    actual = {p: sorted(set(item) & METHODS) for p, item in doc["paths"].items() if set(item) & METHODS}
    if expected_ops is not None and actual != expected_ops:
        out.append(("operations", "operations %r differ from the requested CRUD %r" % (actual, expected_ops)))
    for p, item in doc["paths"].items():
        declared = {prm.get("name") for prm in item.get("parameters", ()) if prm.get("in") == "path"}
        for tmpl in re.findall(r"{([^}]+)}", p):
            if tmpl not in declared and (set(item) & METHODS):
                out.append(("path-param", "path %r: template parameter %r is not declared" % (p, tmpl)))
    return out


def emit_case(case):
    """emit.openapi directly"""
    import cdd.compound.openapi.emit

    tuples = []
    exp = {}
    for name, crud, route, _id in case:
        tuples.append((name, {"type": "object", "properties": {_id: {"type": "string"}}, "$id": "x"}, route, _id, crud))
        if "C" in crud:
            exp.setdefault(route, set()).add("post")
        item = "%s/{%s}" % (route, _id)
        if "R" in crud:
            exp.setdefault(item, set()).add("get")
        if "D" in crud:
            exp.setdefault(item, set()).add("delete")
    try:
        doc = cdd.compound.openapi.emit.openapi(tuples)
    except Exception as ex:
        return [("raises", "%s: %s" % (type(ex).__name__, ex))]
    return document_problems(doc, {k: sorted(v) for k, v in exp.items()})


def pipeline_case(case):
    """models -> gen_routes -> upsert_routes -> openapi_bulk"""
    import cdd.sqlalchemy.emit
    from cdd.compound.openapi.gen_openapi import openapi_bulk
    from cdd.compound.openapi.gen_routes import gen_routes, upsert_routes
    from cdd.shared.source_transformer import to_code

    app, entries = case[0], case[1]
    shared = len(case) > 2 and case[2] == "shared-routes-module"
    upsert_shared = len(case) > 2 and case[2] == "upserted-into-one-routes-module"
    d = tempfile.mkdtemp(prefix="cddvc_c16_")
    try:
        with contextlib.redirect_stderr(io.StringIO()), contextlib.redirect_stdout(io.StringIO()):
            srcs = []
            for name, cols, pk, crud, route in entries:
                ir = {"name": name, "doc": "%s entity" % name, "returns": None,
                      "params": OrderedDict((c, {"typ": t, "doc": "%scolumn %s" % ("[PK] " if c == pk else "", c)}) for c, t in cols)}
                srcs.append(to_code(cdd.sqlalchemy.emit.sqlalchemy(ir, class_name=name, emit_repr=False)))
            mp = os.path.join(d, "models.py")
            open(mp, "wt").write(PRELUDE + "\n\n\n".join(srcs) + "\n")
            rps, exp = [], {}
            for name, cols, pk, crud, route in entries:
                rp = os.path.join(d, "%s_routes.py" % name.lower())
                routes, primary_key = gen_routes(app=app, model_path=mp, model_name=name, crud=crud, route=route)
                if shared:
                    # all models' routes live in ONE routes module (written the way upsert_routes writes a fresh file);
                    # the generated functions of different models have the same names
                    from cdd.tests.mocks.routes import route_prelude  # the very text upsert_routes writes

                    rp = os.path.join(d, "routes.py")
                    head = "" if os.path.isfile(rp) else route_prelude.replace("rest_api =", "{app} =".format(app=app))
                    with open(rp, "a") as fh:
                        fh.write("\n\n".join(([head] if head else [""]) + [to_code(r_) for r_ in routes]))
                        fh.write("\n")
                    rps = [rp]
                elif upsert_shared:
                    # the models are upserted one after the other into the SAME routes module by the real upsert_routes
                    rp = os.path.join(d, "routes.py")
                    upsert_routes(app=app, routes=routes, routes_path=rp, route=route, primary_key=primary_key)
                    rps = [rp]
                else:
                    upsert_routes(app=app, routes=routes, routes_path=rp, route=route, primary_key=primary_key)
                    rps.append(rp)
                if "C" in crud:
                    exp.setdefault(route, set()).add("post")
                item = "%s/{%s}" % (route, primary_key)
                if "R" in crud:
                    exp.setdefault(item, set()).add("get")
                if "D" in crud:
                    exp.setdefault(item, set()).add("delete")
            doc = openapi_bulk(app_name=app, model_paths=[mp], routes_paths=rps)
        probs = document_problems(doc, {k: sorted(v) for k, v in exp.items()})
        # "routes generated for a model, when fed back, describe that same model": what an operation says (summary, $refs)
        # names its own model (or the shared ServerError), never another model of the document
        all_names = {e[0] for e in entries}
        for name, cols, pk, crud, route in entries:
            for p_, item in doc["paths"].items():
                if not (p_ == route or p_.startswith(route + "/{")):
                    continue
                for verb in sorted(set(item) & METHODS):
                    op = item[verb]
                    mentioned = set(re.findall(r"`(\w+)`", op.get("summary") or "")) & all_names
                    refd = {r.rsplit("/", 1)[-1] for r in iter_refs(op)} & all_names
                    other = sorted((mentioned | refd) - {name})
                    if other:
                        probs.append(("describes-other-model", "%s %s was generated for model %r but describes %s (summary %r)" % (verb.upper(), p_, name, other, op.get("summary"))))
        for name, cols, pk, crud, route in entries:
            sch = doc["components"]["schemas"].get(name)
            if sch is None:
                probs.append(("model-missing", "no schema component for model %r (have %s)" % (name, sorted(doc["components"]["schemas"]))))
            elif list(sch.get("properties", {})) != [c for c, _ in cols]:
                probs.append(("model-differs", "schema %r does not have the model's columns" % name))
        return probs
    except Exception as ex:
        return [("raises", "%s: %s" % (type(ex).__name__, str(ex)[:200]))]
    finally:
        import shutil

        shutil.rmtree(d, ignore_errors=True)


def bounded(tier):
    ecases = []
    for n in (1, 2, 3):
        for i, cruds in enumerate(itertools.product(CRUDS, repeat=n)):
            if n == 3 and i % (7 if tier == "quick" else 1):
                continue
            ecases.append([(MODELS[j][0], c, "/api/%s" % MODELS[j][0].lower(), MODELS[j][2] or "id") for j, c in enumerate(cruds)])
    eres = common.pmap(emit_case, ecases)
    pcases = []
    k = 0
    for ci, crud in enumerate(CRUDS):
        for mi in range(len(MODELS)):
            n = 1 + k % (2 if tier == "quick" else 3)
            entries = []
            for j in range(n):
                name, cols, pk = MODELS[(mi + j) % len(MODELS)]
                entries.append((name, cols, pk, CRUDS[(ci + j) % len(CRUDS)], "%s/%s" % (("/api", "/api/v1", "")[(k + j) % 3], name.lower())))
            pcases.append((("rest_api", "app", "my_bottle")[k % 3], entries))
            if len(entries) > 1:
                # the same models upserted one by one into one routes module (the second upsert appends to an existing file)
                pcases.append((("rest_api", "app", "my_bottle")[k % 3], entries, "upserted-into-one-routes-module"))
                # the same models with all their routes in one module, overlapping CRUD letters
                pcases.append((("rest_api", "app", "my_bottle")[k % 3], [e[:3] + (CRUDS[(ci + (j_ % 2)) % len(CRUDS)],) + e[4:] for j_, e in enumerate(entries)], "shared-routes-module"))
            k += 1
    pres = common.pmap(pipeline_case, pcases, chunksize=1)
    fails = {}
    ucases = upsert_cases()
    for c, r in zip(ucases, common.pmap(upsert_case, ucases, chunksize=1)):
        for kind, text in r:
            fails.setdefault(("upsert", kind, False), (c, text))
    for c, r in zip(ecases, eres):
        for kind, text in r:
            fails.setdefault(("emit", kind, False), (c, text))
    for c, r in zip(pcases, pres):
        multi = any(re.search(r"[a-z][A-Z]", e[0]) for e in c[1])
        for kind, text in r:
            fails.setdefault(("pipeline", kind, multi), (c, text))
    return len(ecases), len(pcases) + len(ucases), fails


def upsert_case(case):
    """
    upsert_routes into a routes module that already holds a HAND-WRITTEN route of the same app next to the model's path:
    `decoy` = (method, "collection" | "item").  Afterwards the module must define every requested operation on its own
    path (POST on the collection route, GET / DELETE on the item route) -- a foreign route on the other path is not it.
    -> list of (kind, what)
    """
    import ast as _ast

    import cdd.sqlalchemy.emit
    from cdd.compound.openapi.gen_routes import gen_routes, upsert_routes
    from cdd.shared.source_transformer import to_code

    (name, cols, pk), crud, route, app, (dmeth, dwhere) = case
    d = tempfile.mkdtemp(prefix="cddvc_c16u_")
    try:
        with contextlib.redirect_stderr(io.StringIO()), contextlib.redirect_stdout(io.StringIO()):
            ir = {"name": name, "doc": "%s entity" % name, "returns": None,
                  "params": OrderedDict((c, {"typ": t, "doc": "%scolumn %s" % ("[PK] " if c == pk else "", c)}) for c, t in cols)}
            mp = os.path.join(d, "models.py")
            open(mp, "wt").write(PRELUDE + to_code(cdd.sqlalchemy.emit.sqlalchemy(ir, class_name=name, emit_repr=False)) + "\n")
            routes, primary_key = gen_routes(app=app, model_path=mp, model_name=name, crud=crud, route=route)
            rp = os.path.join(d, "routes.py")
            dpath = route if dwhere == "collection" else "%s/:%s" % (route, primary_key)
            open(rp, "wt").write("from bottle import Bottle, request, response\n\n%s = Bottle()\n\n\n@%s.%s(%r)\ndef listing():\n    \"\"\"hand-written\"\"\"\n    return {}\n\n\n" % (app, app, dmeth, dpath))
            upsert_routes(app=app, routes=routes, routes_path=rp, route=route, primary_key=primary_key)
            mod = _ast.parse(open(rp).read())
        have = set()
        for fn in _ast.walk(mod):
            if isinstance(fn, _ast.FunctionDef):
                for dec in fn.decorator_list:
                    if isinstance(dec, _ast.Call) and isinstance(dec.func, _ast.Attribute) and getattr(dec.func.value, "id", None) == app and dec.args and isinstance(dec.args[0], _ast.Constant):
                        have.add((dec.func.attr, dec.args[0].value))
        want = set()
        if "C" in crud:
            want.add(("post", route))
        if "R" in crud:
            want.add(("get", "%s/:%s" % (route, primary_key)))
        if "D" in crud:
            want.add(("delete", "%s/:%s" % (route, primary_key)))
        missing = sorted(want - have)
        return [("requested-operation-missing", "crud %r into a module holding a hand-written %s %s: %s not defined afterwards (module has %s)" % (crud, dmeth.upper(), dpath, missing, sorted(have)))] if missing else []
    except Exception as ex:
        return [("raises", "%s: %s" % (type(ex).__name__, str(ex)[:200]))]
    finally:
        import shutil

        shutil.rmtree(d, ignore_errors=True)


def upsert_cases():
    out = []
    for i, (dmeth, dwhere) in enumerate((("get", "collection"), ("delete", "collection"), ("put", "collection"), ("post", "item"), ("get", "item"), ("patch", "item"))):
        for j, crud in enumerate(("CRD", "R", "RD", "C", "CD")):
            out.append((MODELS[(i + j) % 3], crud, ("/api/config", "/items", "/api/v1/things")[j % 3], ("rest_api", "app")[(i + j) % 2], (dmeth, dwhere)))
    return out


def main(tier, write_baseline=False):
    run = Run("C16", tier, "other", checker_cmd=common.checker_cmd("C16", tier))
    run.trusted_base.update(["cddvc E1 with the symbolic-key map / JSON-tree view (writes logged on top of an unknown base)", "z3 5.1"])
    run.assumptions.add("the model's own JSON-schema (copied into components.schemas) contains no $ref")
    refuted = e1.run_contracts(run, "contracts.C16")

    def struct_replay(_name):
        # the clause the side condition on emit.openapi carries ($refs resolve, incl. ServerError), on real documents
        _ne, _np, fl = bounded("quick")
        for (driver, kind, multi), (case, what) in fl.items():
            if run.match_finding({"driver": driver, "kind": kind, "multi_word_model_name": str(multi), "obligation": "C16/bounded/%s/%s" % (driver, kind)}) is None:
                return {"case": json.loads(json.dumps(case)), "what": what[:400], "driver": driver}
        return None

    def upsert_replay(_name):
        # the contract on upsert_routes' "already present" predicate is about a decorator on the wrong path (or of another
        # app): the real function is run on routes modules that hold exactly such a decorator.  The predicate is a lambda
        # that reads variables of the enclosing function, which the engine sees as arbitrary values -- so a refutation
        # counts only if the real function then loses a requested operation (else: undecided)
        for c_, r_ in zip(upsert_cases(), common.pmap(upsert_case, upsert_cases(), chunksize=1)):
            bad = [x for x in r_ if x[0] != "raises"]
            if bad:
                return {"upsert_case": json.loads(json.dumps(c_)), "what": bad[0][1]}
        return None

    refuted, s_inputs = run.confirm_or_undecide(refuted, lambda n: upsert_replay(n) if ("upsert_routes" in n and "/structural/" not in n) else struct_replay(n),
                                                is_rule=lambda n: "/structural/" in n or "upsert_routes" in n)
    if write_baseline:
        common.write_baseline("C16", [n for n, o in run.obligations.items() if o["status"] == "proved"])
    compare_baseline(run, set(run.obligations))
    fails = {}
    if not os.environ.get("VERIF_NO_BOUNDED"):
        ne, npip, fails = bounded(tier)
        run.bounded.append({
            "name": "whole-document oracle on emit.openapi and on models -> gen_routes -> upsert_routes -> openapi_bulk (bounded, NOT counted as proved)",
            "bound": "%d emit.openapi documents (1..3 models x all non-empty CRUD subsets); %d pipeline documents (7 generated SQLAlchemy models incl. one multi-word name and one inferred *_id key, 1..%d models per document, 3 prefixes, 3 app names) incl. 30 upserts into a routes module that already holds a hand-written route of another method / on the other path" % (ne, npip, 2 if tier == "quick" else 3),
            "rule": "distinct (models, CRUD, prefix, app) combinations",
            "evaluations": ne + npip, "distinct_nontrivial": ne + npip,
            "failures": [{"driver": k[0], "kind": k[1], "what": v[1][:300]} for k, v in list(fails.items())[:5]],
        })
    seen = set()
    for o in refuted:
        if o["name"] in seen:
            continue
        seen.add(o["name"])
        cand = next((v for k, v in fails.items() if k[0] == "emit"), None) if "upsert_routes" not in o["name"] else None
        run.violation(o["name"], "obligation refuted by %s on path %s%s" % (o["backend"], " ".join(o["trace"]), "; ".join(o["notes"][:1])),
                      failing_input=s_inputs.get(o["name"]) or ({"case": json.loads(json.dumps(cand[0])), "what": cand[1]} if cand else None), solver_output={"model": o["model"], "smt2": (o["smt2"] or "")[:5000]})
    for (driver, kind, multi), (case, what) in fails.items():
        run.violation("C16/bounded/%s/%s" % (driver, kind), what, key={"driver": driver, "kind": kind, "multi_word_model_name": str(multi)}, failing_input={"driver": driver, "case": json.loads(json.dumps(case))})
    common.apply_controls(run, tier)
    return run.finish(explanation="PROVED (lemma, all inputs): closure of $refs, request body iff Create, verbs vs CRUD letters, declared path parameter and write frame for the emitter core; side condition on emit.openapi by the rule engine. "
                      "BOUNDED only: openapi_bulk / gen_routes / bottle parser pipeline and JSON serialisability.")


def replay(path):
    d = json.load(open(path))
    inp = d.get("failing_input") or {}
    print("replaying %s: obligation %s" % (path, d["failed_obligation"]))
    if "case" not in inp and "upsert_case" not in inp:
        return 1
    c = inp.get("case")
    if "upsert_case" in inp or inp.get("driver") == "upsert":
        u = inp.get("upsert_case") or c
        r = upsert_case(((u[0][0], tuple(tuple(x) for x in u[0][1]), u[0][2]), u[1], u[2], u[3], tuple(u[4])))
    elif inp.get("driver") == "pipeline":
        r = pipeline_case((c[0], [tuple(e[:1]) + (tuple(tuple(x) for x in e[1]),) + tuple(e[2:]) for e in c[1]]))
    else:
        r = emit_case([tuple(x) for x in c])
    print(r)
    return 1 if r else 0

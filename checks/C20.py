"""
C20 — exmod --dry-run writes nothing; a real run stays inside the output directory.

Deciding step (frame condition, all inputs): E2 with the tracked flag dry_run=True from `exmod`: one
obligation per FS_WRITE site of the call-graph closure — unreachable when dry_run holds (branches that
contradict the flag are pruned, the flag is followed through keyword / positional / partial() passing).
Stand-in (bounded): the real CLI on a generated package with file-system snapshots (dry-run frame, output
containment, source untouched, generated files valid with resolvable __all__, blacklist / whitelist).
"""

import json
import os
import subprocess
import sys

from cddvc import callgraph, effects
from cddvc.report import PROVED, REFUTED, UNDECIDED, Run, compare_baseline
from checks import common


def bounded(tier):
    r = subprocess.run([sys.executable, "-m", "checks.c20_driver", tier], capture_output=True, text=True, cwd=common.VERIF, timeout=3000)
    line = [l for l in r.stdout.splitlines() if l.startswith("{")]
    if not line:
        return None, "driver produced no result: %s" % r.stderr[-400:]
    return json.loads(line[-1]), None


def alias_replay(_name):
    """Real `python -m cdd exmod` on a package (plain directory on PYTHONPATH) whose classes are re-exported under aliases"""
    import shutil
    import sys
    import tempfile

    from checks import c20_driver as D

    root = tempfile.mkdtemp(prefix="cddvc_c20a_")
    try:
        plain = os.path.join(root, "plain")
        for pkg, mk in (("cddvcalias", D.make_alias_pkg), ("cddvcplain", D.make_pkg)):
            base = os.path.join(plain, pkg)
            mk(base, pkg)
            for emit, recursive in (("class", True), ("class", False), ("sqlalchemy_table", True)):
                out = os.path.join(root, "out_%s_%s_%s" % (pkg, emit, recursive), "exposed")
                before = D.snapshot(base)
                rc, tail = D.run_exmod(sys.executable, ["--module", pkg + ".gen", "--emit", emit, "--output-directory", out] + (["--recursive"] if recursive else []), root, extra_path=plain)
                d = D.diff(before, D.snapshot(base))
                bad = D.check_generated(out) if rc == 0 and os.path.isdir(out) else []
                if d or bad:
                    return {"emit": emit, "recursive": recursive, "dry_run": False, "placement": "plain directory on PYTHONPATH" + (", classes re-exported under aliases" if pkg == "cddvcalias" else ""),
                            "what": ("source package modified: %s" % [x.replace(root, "<tmp>") for x in d[:3]]) if d else ("generated output: %s" % [b.replace(root, "<tmp>") for b in bad[:2]])}
        return None
    finally:
        shutil.rmtree(root, ignore_errors=True)


def main(tier, write_baseline=False):
    import importlib

    C = importlib.import_module("contracts.C20")
    run = Run("C20", tier, "other", checker_cmd=common.checker_cmd("C20", tier))
    run.trusted_base.update([
        "E2 flag-guard analysis (/verif/cddvc/effects.py: FlagAnalysis) over the over-approximating call graph",
        "the FS_WRITE primitive table is complete; print() to EXMOD_OUT_STREAM is not a file-system write",
    ])
    g = callgraph.Graph()
    effects.add_dispatch_edges(g)
    sites = effects.refine_open_modes(g, effects.scan_sites(g))
    allsites = {s.key: s for ss in sites.values() for s in ss}
    flag, val = C.FLAG
    refuted = []
    if C.ENTRY not in g.funcs:
        run.undecide("C20/effects/%s" % C.ENTRY, "entry point not found in the current source")
    else:
        plain = effects.FlagAnalysis(g, sites, "___none___", True).analyse(C.ENTRY, False)
        guarded = effects.FlagAnalysis(g, sites, flag, val).analyse(C.ENTRY, True)
        closure = sorted(s for s in plain if s.startswith("FS_WRITE@"))
        for s in closure:
            name = "C20/effects/%s/dry_run-frame/%s" % (C.ENTRY.split(":")[-1], s)
            ok = s not in guarded
            detail = "unreachable when dry_run is true" if ok else "write site at %s line %d is reachable although dry_run is true" % (allsites[s].fid, allsites[s].lineno)
            run.add(name, PROVED if ok else REFUTED, "rule-engine(E2)", detail=detail)
            if not ok:
                refuted.append((name, detail))
        # non-vacuity: the unguarded analysis does reach the known write sites
        for s in C.MUST_REACH_WITHOUT_FLAG:
            ok = s in plain
            run.add("C20/cover/reachable-without-flag/%s" % s, PROVED if ok else UNDECIDED, "rule-engine(E2)",
                    detail="cover: reachable when the flag is not assumed" if ok else "cover failed: the analysis no longer reaches this site at all (call graph lost an edge, or the site moved)")
        run.samples = [{"site": s, "guarded_by_not_dry_run": s not in guarded} for s in closure[:8]]
    # path lemma: relative_filename only ever removes a prefix (its result is a suffix of the file name): no `..` can appear
    from cddvc import e1

    e1_refuted = e1.run_contracts(run, "contracts.C20")
    # shape rule (contracts.C20.structural): a failure counts only if the real CLI then touches the source package
    e1_refuted, rule_inputs = run.confirm_or_undecide(e1_refuted, alias_replay, is_rule=lambda n: "/structural/" in n)
    if write_baseline:
        common.write_baseline("C20", [n for n, o in run.obligations.items() if o["status"] == "proved"])
    compare_baseline(run, set(run.obligations))
    fails = []
    if not os.environ.get("VERIF_NO_BOUNDED"):
        res, err = bounded(tier)
        if res is None:
            run.undecide("C20/bounded/exmod-cli", err)
        else:
            fails = res["failures"]
            run.bounded.append({
                "name": "real CLI `python -m cdd exmod` on a generated 2-level package in a throw-away venv, snapshots before/after (bounded, NOT counted as proved)",
                "bound": "emit kinds x recursive x dry-run x pre-existing output x blacklist/whitelist subsets: %d runs (%d exited non-zero); one extra run with --output-directory .../gold; plus the same package in a plain directory on PYTHONPATH x emit kinds x dry-run x recursive" % (res["runs"], res["crashes"]),
                "rule": "one CLI run per option combination; non-trivial = the run exits 0 or changes the file system",
                "evaluations": res["runs"], "distinct_nontrivial": res["runs"] - res["crashes"],
                "failures": fails[:5], "samples": res["samples"],
            })
    seen = set()
    dry_fails = [f for f in fails if f.get("dry_run")]
    first = dry_fails[0] if dry_fails else None
    for name, detail in refuted:
        run.violation(name, detail, failing_input=first, solver_output={"rule": detail})
    seen_ = set()
    for o in e1_refuted:
        if o["name"] in seen_:
            continue
        seen_.add(o["name"])
        fi = rule_inputs.get(o["name"]) or common.model_replay("contracts.C20", o)
        if fi is None and "relative_filename" in o["name"]:
            # replay the claim itself on the real function: a file outside site-packages, seen from a deep working directory
            import cdd.shared.pkg_utils as pu

            cwd = os.getcwd()
            try:
                os.chdir("/usr/lib")
                fn = "/tmp/some/where/else/pkg/mod.py"
                got = pu.relative_filename(fn)
                if not fn.endswith(got):
                    fi = {"filename": fn, "cwd": "/usr/lib", "what": "relative_filename(%r) returned %r, which is not a suffix of the file name" % (fn, got)}
            finally:
                os.chdir(cwd)
        run.violation(o["name"], "obligation refuted by %s on path %s" % (o["backend"], " ".join(o["trace"])), failing_input=fi, solver_output={"model": o["model"], "smt2": (o["smt2"] or "")[:3000]})
    if not refuted and not e1_refuted:
        for f in fails:
            key = {"kind": f["what"].split(":")[0], "outdir_basename": f.get("outdir_basename", ""), "emit": f["emit"], "dry_run": f["dry_run"], "placement": f.get("placement", "site-packages")}
            k2 = json.dumps(key, sort_keys=True)
            if k2 in seen:
                continue
            seen.add(k2)
            run.violation("C20/bounded/exmod-cli", f["what"], key=key, failing_input=f)
    common.apply_controls(run, tier)
    return run.finish(explanation="PROVED (frame, all inputs): no file-system write site is reachable from exmod when dry_run is true. "
                      "BOUNDED only: output containment, validity of generated files, blacklist/whitelist, source package untouched — checked on the real CLI over the stated option matrix. "
                      "The path-taint contract (b) of DESIGN §5 C20 was not built.")


def replay(path):
    d = json.load(open(path))
    print("replaying %s: obligation %s" % (path, d["failed_obligation"]))
    res, err = bounded("quick")
    print(json.dumps(res or err, indent=1)[:2500])
    return 1 if res and res["failures"] else 0

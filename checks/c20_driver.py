"""
Bounded stand-in for C20: the real CLI (`python -m cdd exmod ...`) on a small generated package installed
in a throw-away venv, with file-system snapshots before/after.  Prints one JSON object.
"""

import ast
import hashlib
import itertools
import json
import os
import shutil
import subprocess
import sys
import tempfile

REPO = os.environ.get("CDD_REPO", "/repo")
PKG = "cddvcpkg"
CLASS_SRC = '''
class {cls}(object):
    """
    Configuration of {cls}

    :cvar dataset_name: name of dataset
    :cvar epochs: number of epochs
    """

    dataset_name: str = "mnist"
    epochs: int = 5


__all__ = [{cls!r}]
'''
HIER = (("parent", ("parent_dir",)), ("child", ("parent_dir", "child_dir")))


def write(fn, s):
    os.makedirs(os.path.dirname(fn), exist_ok=True)
    with open(fn, "wt") as f:
        f.write(s)


def make_env(root):
    """venv (no pip) whose site-packages holds the toy package; cdd itself comes from PYTHONPATH=REPO"""
    v = os.path.join(root, "venv")
    subprocess.run(["/venv/bin/python", "-m", "venv", "--without-pip", v], check=True, capture_output=True)
    sp = subprocess.run([os.path.join(v, "bin", "python"), "-c", "import sysconfig;print(sysconfig.get_paths()['purelib'])"], capture_output=True, text=True).stdout.strip()
    write(os.path.join(sp, "zz_deps.pth"), "import site; site.addsitedir('/venv/lib/python3.12/site-packages')\n")
    base = os.path.join(sp, PKG)
    make_pkg(base, PKG)
    return os.path.join(v, "bin", "python"), base


def make_alias_pkg(base, pkg):
    """The same hierarchy, but every class is re-exported under a public alias (`from m import PClass as P`, `__all__ = ['P']`)"""
    pub = {n: n.title() for n, _ in HIER}
    write(os.path.join(base, "__init__.py"), "from {p}.gen import *\n\n__author__ = 'a'\n__version__ = '0.0.0'\n__all__ = {a!r}\n".format(p=pkg, a=["__author__", "__version__"] + sorted(pub.values())))
    write(os.path.join(base, "gen", "__init__.py"), "".join("from {p}.gen.{m} import {a}\n".format(p=pkg, m=".".join(f), a=pub[n]) for n, f in HIER) + "\n__all__ = {!r}\n".format(sorted(pub.values())))
    for n, f in HIER:
        cls = n.title() + "Class"
        write(os.path.join(base, "gen", *f, "__init__.py"), "from {p}.gen.{m}.{n} import {c} as {a}\n\n__all__ = [{a!r}]\n".format(p=pkg, m=".".join(f), n=n, c=cls, a=pub[n]))
        write(os.path.join(base, "gen", *f, n + ".py"), "# hand-written comment that a rewrite would lose\n" + CLASS_SRC.format(cls=cls))


def make_pkg(base, pkg):
    names = [n for n, _ in HIER]
    write(os.path.join(base, "__init__.py"), "from {p}.gen import *\n\n__author__ = 'a'\n__version__ = '0.0.0'\n__all__ = {a!r}\n".format(p=pkg, a=["__author__", "__version__"] + names))
    write(os.path.join(base, "gen", "__init__.py"), "".join("from {p}.gen.{m} import {n}\n".format(p=pkg, m=".".join(f), n=n) for n, f in HIER) + "\n__all__ = {!r}\n".format(names))
    for n, f in HIER:
        cls = n.title() + "Class"
        write(os.path.join(base, "gen", *f, "__init__.py"), "from {p}.gen.{m}.{n} import {c}\n\n__all__ = [{c!r}]\n".format(p=pkg, m=".".join(f), n=n, c=cls))
        write(os.path.join(base, "gen", *f, n + ".py"), CLASS_SRC.format(cls=cls))


def snapshot(root):
    snap = {}
    for d, ds, fs in os.walk(root):
        ds[:] = [x for x in ds if x != "__pycache__"]
        snap[d] = ("dir", None)
        for f in fs:
            p = os.path.join(d, f)
            with open(p, "rb") as fh:
                snap[p] = ("file", hashlib.sha1(fh.read()).hexdigest(), os.stat(p).st_mtime_ns)
    return snap


def diff(b, a):
    out = []
    for p in sorted(set(b) | set(a)):
        if b.get(p) == a.get(p):
            continue
        out.append(("created " if p not in b else "deleted " if p not in a else "modified ") + p)
    return out


def run_exmod(py, args, cwd, extra_path=None):
    env = dict(os.environ, PYTHONPATH=REPO + ((os.pathsep + extra_path) if extra_path else ""), PYTHONDONTWRITEBYTECODE="1")
    r = subprocess.run([py, "-m", "cdd", "exmod"] + args, capture_output=True, text=True, env=env, cwd=cwd, timeout=300)
    return r.returncode, (r.stdout + r.stderr)[-600:]


def check_generated(out):
    """every generated .py parses and its __all__ names symbols it defines or imports"""
    bad = []
    for d, ds, fs in os.walk(out):
        ds[:] = [x for x in ds if x != "__pycache__"]
        for f in fs:
            if not f.endswith(".py"):
                continue
            p = os.path.join(d, f)
            try:
                mod = ast.parse(open(p).read())
            except SyntaxError as e:
                bad.append("%s: not valid Python (%s)" % (p, e))
                continue
            names = set()
            alls = None
            for n in mod.body:
                if isinstance(n, (ast.FunctionDef, ast.AsyncFunctionDef, ast.ClassDef)):
                    names.add(n.name)
                elif isinstance(n, (ast.Import, ast.ImportFrom)):
                    names.update((a.asname or a.name).partition(".")[0] for a in n.names)
                    if any(a.name == "*" for a in n.names):
                        names.add("*")
                elif isinstance(n, (ast.Assign, ast.AnnAssign)):
                    tg = n.targets if isinstance(n, ast.Assign) else [n.target]
                    for t in tg:
                        if isinstance(t, ast.Name):
                            names.add(t.id)
                            if t.id == "__all__" and n.value is not None:
                                try:
                                    alls = ast.literal_eval(n.value)
                                except Exception:
                                    alls = None
            if alls and "*" not in names:
                miss = [x for x in alls if x not in names]
                if miss:
                    bad.append("%s: __all__ names %r which the file neither defines nor imports" % (p, miss))
    return bad


def _defines_symbols(p):
    try:
        mod = ast.parse(open(p).read())
    except SyntaxError:
        return True
    return any(isinstance(n, (ast.ClassDef, ast.FunctionDef)) or (isinstance(n, ast.Assign) and isinstance(n.value, ast.Call) and "Table" in ast.unparse(n.value.func)) for n in mod.body)


def main(tier):
    root = tempfile.mkdtemp(prefix="cddvc_c20_")
    res = {"runs": 0, "failures": [], "crashes": 0, "samples": []}
    try:
        py, base = make_env(root)
        M = "%s.gen.parent_dir.parent" % PKG  # hmm: module path of one class file
        emits = ["class", "sqlalchemy"] if tier == "quick" else ["class", "function", "sqlalchemy", "sqlalchemy_table", "json_schema"]
        k = 0
        for emit, recursive, dry, pre, lists in itertools.product(emits, (False, True), (True, False), (False, True),
                                                               ("", "b", "w", "bw")):
            if tier == "quick" and recursive and lists in ("b", "bw") and emit != "class":
                continue
            k += 1
            out = os.path.join(root, "work%d" % k, "exposed")
            if emit == "class" and not recursive and not dry and not pre and lists == "":
                extra_gold = os.path.join(root, "workg%d" % k, "gold")
                b0 = snapshot(root)
                run_exmod(py, ["--module", PKG, "--emit", emit, "--output-directory", extra_gold], root)
                dg = [x for x in diff(b0, snapshot(root)) if not x.split(" ", 1)[1].startswith(extra_gold) and x.split(" ", 1)[1] != os.path.dirname(extra_gold)]
                res["runs"] += 1
                if dg:
                    res["failures"].append({"emit": emit, "recursive": False, "dry_run": False, "preexisting_out": False, "lists": "", "outdir_basename": "gold",
                                            "what": "real run touched paths outside the output directory: %s" % [x.replace(root, "<tmp>") for x in dg[:3]]})
            if pre:
                os.makedirs(out)
                # a previous real run (so that a dry run has something it could wrongly touch)
                if dry:
                    run_exmod(py, ["--module", PKG + ".gen", "--emit", emit, "--output-directory", out, "--emit-sqlalchemy-submodule"] + (["--recursive"] if recursive else []), root)
            args = ["--module", PKG + ".gen", "--emit", emit, "--output-directory", out, "--emit-sqlalchemy-submodule"]
            if recursive:
                args.append("--recursive")
            if dry:
                args.append("--dry-run")
            excluded = False
            if "b" in lists:
                args += ["--blacklist", PKG + ".gen"]
                excluded = True
            if "w" in lists:
                args += ["--whitelist", PKG + ".gen"] if lists != "w" else ["--whitelist", PKG + ".nonexistent"]
                excluded = True
            before = snapshot(root)
            rc, tail = run_exmod(py, args, root)
            after = snapshot(root)
            res["runs"] += 1
            d = diff(before, after)
            case = {"emit": emit, "recursive": recursive, "dry_run": dry, "preexisting_out": pre, "lists": lists, "rc": rc}
            if len(res["samples"]) < 4:
                res["samples"].append(dict(case, changed=len(d)))
            if rc != 0:
                res["crashes"] += 1
            if dry and d:
                res["failures"].append(dict(case, what="--dry-run changed the file system: %s" % d[:4]))
                continue
            outside = [x for x in d if not x.split(" ", 1)[1].startswith(os.path.dirname(out) if False else out) and x.split(" ", 1)[1] != os.path.dirname(out)]
            if not dry and outside:
                res["failures"].append(dict(case, what="real run touched paths outside the output directory: %s" % outside[:4]))
            src_touched = [x for x in d if x.split(" ", 1)[1].startswith(base)]
            if src_touched:
                res["failures"].append(dict(case, what="source package modified: %s" % src_touched[:3]))
            if not dry and rc == 0:
                bad = check_generated(out) if os.path.isdir(out) else []
                if bad:
                    res["failures"].append(dict(case, what="generated output: %s" % bad[:3]))
                if excluded and not recursive:
                    gen = [x for x in d if x.endswith(".py") and "sqlalchemy_mod" not in x and os.path.isfile(x.split(" ", 1)[1]) and _defines_symbols(x.split(" ", 1)[1])]
                    if gen:
                        res["failures"].append(dict(case, what="modules excluded by blacklist / not in whitelist produced output: %s" % gen[:3]))
        # ---- the same package in a plain directory on PYTHONPATH (not installed): its files are reachable by absolute path
        plain_root = os.path.join(root, "plain")
        PKG2 = "cddvcplain"
        base2 = os.path.join(plain_root, PKG2)
        make_pkg(base2, PKG2)
        all_emits = ["class", "function", "sqlalchemy", "sqlalchemy_table", "json_schema"]
        for emit, dry, recursive in itertools.product(all_emits, (False, True), (False, True)):
            if tier == "quick" and (dry or recursive) and emit not in ("class", "sqlalchemy_table"):
                continue
            k += 1
            out = os.path.join(root, "workp%d" % k, "exposed")
            args = ["--module", PKG2 + ".gen", "--emit", emit, "--output-directory", out] + (["--dry-run"] if dry else []) + (["--recursive"] if recursive else [])
            # half of these runs start from a working directory three levels down a sibling tree (paths made relative to the
            # working directory then need `..` components)
            deep = os.path.join(root, "w1", "w2", "w3")
            os.makedirs(deep, exist_ok=True)
            cwd_ = deep if k % 2 else root
            before = snapshot(root)
            rc, tail = run_exmod(py, args, cwd_, extra_path=plain_root)
            d = diff(before, snapshot(root))
            res["runs"] += 1
            case = {"emit": emit, "recursive": recursive, "dry_run": dry, "preexisting_out": False, "lists": "", "rc": rc, "placement": "plain directory on PYTHONPATH" + (", deep working directory" if cwd_ is deep else "")}
            if rc != 0:
                res["crashes"] += 1
            if dry and d:
                res["failures"].append(dict(case, what="--dry-run changed the file system: %s" % [x.replace(root, "<tmp>") for x in d[:4]]))
                continue
            src_touched = [x for x in d if x.split(" ", 1)[1].startswith(base2)]
            if src_touched:
                res["failures"].append(dict(case, what="source package modified: %s" % [x.replace(root, "<tmp>") for x in src_touched[:3]]))
            outside = [x for x in d if not x.split(" ", 1)[1].startswith(out) and x.split(" ", 1)[1] != os.path.dirname(out) and not x.split(" ", 1)[1].startswith(base2)]
            if not dry and outside:
                res["failures"].append(dict(case, what="real run touched paths outside the output directory: %s" % [x.replace(root, "<tmp>") for x in outside[:4]]))
            if not dry and rc == 0 and os.path.isdir(out):
                bad = check_generated(out)
                if bad:
                    res["failures"].append(dict(case, what="generated output: %s" % bad[:3]))
        # ---- a package whose classes are re-exported under public aliases, in a plain directory on PYTHONPATH
        PKG3 = "cddvcalias"
        base3 = os.path.join(plain_root, PKG3)
        make_alias_pkg(base3, PKG3)
        for emit, recursive in itertools.product(all_emits if tier != "quick" else ["class", "sqlalchemy_table"], (True, False)):
            k += 1
            out = os.path.join(root, "worka%d" % k, "exposed")
            args = ["--module", PKG3 + ".gen", "--emit", emit, "--output-directory", out] + (["--recursive"] if recursive else [])
            before = snapshot(root)
            rc, tail = run_exmod(py, args, root, extra_path=plain_root)
            d = diff(before, snapshot(root))
            res["runs"] += 1
            case = {"emit": emit, "recursive": recursive, "dry_run": False, "preexisting_out": False, "lists": "", "rc": rc, "placement": "plain directory on PYTHONPATH, classes re-exported under aliases"}
            if rc != 0:
                res["crashes"] += 1
            src_touched = [x for x in d if x.split(" ", 1)[1].startswith(base3)]
            if src_touched:
                res["failures"].append(dict(case, what="source package modified: %s" % [x.replace(root, "<tmp>") for x in src_touched[:3]]))
            outside = [x for x in d if not x.split(" ", 1)[1].startswith(out) and x.split(" ", 1)[1] != os.path.dirname(out) and not x.split(" ", 1)[1].startswith(base3)]
            if outside:
                res["failures"].append(dict(case, what="real run touched paths outside the output directory: %s" % [x.replace(root, "<tmp>") for x in outside[:4]]))
            if rc == 0 and os.path.isdir(out):
                bad = check_generated(out)
                if bad:
                    res["failures"].append(dict(case, what="generated output: %s" % [b.replace(root, "<tmp>") for b in bad[:3]]))
    finally:
        shutil.rmtree(root, ignore_errors=True)
    print(json.dumps(res))


if __name__ == "__main__":
    main(sys.argv[1] if len(sys.argv) > 1 else "quick")

"""
C06 — emitted JSON-schema is valid, self-consistent and round-trips.

Deciding step (lemma, E1, all inputs): the contract of param2json_schema_property — `name` is appended to
`required` exactly when the type is not Optional[...], `required` is otherwise untouched (frame), a truthy
doc becomes the description, the `typ` key never survives.
Bounded (stand-in, NOT proved): meta-schema validity, defaults validate against their own property schema,
Literal patterns accept exactly their members, serialisability and parse-back equality over IR(n).
"""

import copy
import json
import os
import re

from cddvc import e1
from cddvc.report import Run, compare_baseline
from checks import common, domain

TYPES = ["int", "float", "str", "bool", "dict", "Optional[int]", "Optional[str]", "Optional[float]", "Optional[bool]", "Optional[dict]", "Literal['x', 'y']", "Literal['http1', 'adam_w', 'q-r']",
         # members that are not their own regular expression / contain the separator / contain the quote the parser wraps them in
         "Literal['a.c', 'b']", "Literal['a|b', 'c']", "Literal['(x', 'c+']", "Literal[\"it's\", 'c']"]


def literal_members(typ):
    import ast

    m = re.search(r"Literal\[(.*)\]", typ)
    return list(ast.literal_eval("(%s,)" % m.group(1))) if m else None


def member_class(mem):
    """What kind of Literal members an interface has; part of the failure class of the two Literal clauses"""
    if any(c in m for m in mem for c in ".^$*+?{}[]\\|()"):
        return "regex-special"
    return "quote" if any("'" in m for m in mem) else "plain"


def check_ir(ir):
    """-> list of (kind, what[, extra key]); failures of the Literal clauses on awkward members do not stop the other clauses"""
    soft = []
    r = _check_ir(ir, soft)
    return soft + ([r] if r else [])


def _check_ir(ir, soft):
    import jsonschema

    import cdd.json_schema.emit
    import cdd.json_schema.parse

    src = copy.deepcopy(ir)
    try:
        schema = cdd.json_schema.emit.json_schema(copy.deepcopy(ir))
    except Exception as ex:
        return ("emit-raises", "%s: %s" % (type(ex).__name__, ex))
    try:
        text = json.dumps(schema)
    except Exception as ex:
        return ("not-serialisable", str(ex))
    try:
        jsonschema.Draft202012Validator.check_schema(schema)
    except Exception as ex:
        mems = [m for p in src["params"].values() for m in (literal_members(p.get("typ", "")) or [])]
        if "is not a 'regex'" in str(ex) and mems and member_class(mems) == "regex-special":
            soft.append(("invalid-schema", str(ex).splitlines()[0], {"members": "regex-special"}))
        else:
            return ("invalid-schema", str(ex).splitlines()[0])
    want_req = [n for n, p in src["params"].items() if not p.get("typ", "").startswith("Optional[")]
    if schema.get("required") != want_req:
        return ("required", "required is %r, expected %r (exactly the non-Optional parameters, in order)" % (schema.get("required"), want_req))
    for n, p in src["params"].items():
        prop = schema["properties"].get(n)
        if prop is None:
            return ("property-missing", n)
        if "default" in prop:
            try:
                jsonschema.validate(prop["default"], prop, cls=jsonschema.Draft202012Validator)
            except Exception as ex:
                try:
                    re.compile(prop.get("pattern") or "")
                except re.error:
                    continue  # the pattern is not a regular expression: already reported as invalid-schema / pattern
                return ("default-invalid", "default %r of %s does not validate against its own property schema %r" % (prop["default"], n, prop))
        mem = literal_members(p.get("typ", ""))
        if mem is not None:
            pat = prop.get("pattern")
            try:
                near = ["".join(mem) + "_zz", mem[0][:-1] if len(mem[0]) > 1 else "q"] + [m.replace(c, "Q") for m in mem for c in m if not c.isalnum()] + [p_ for m in mem for p_ in m.split("|")]
                bad = pat is None or not all(re.fullmatch(pat, m) for m in mem) or any(re.fullmatch(pat, x) for x in near if x not in mem)
            except re.error as ex:
                soft.append(("pattern", "pattern %r is not a regular expression (%s); members %r" % (pat, ex, mem), {"members": member_class(mem)}))
                bad = False
            if bad and member_class(mem) == "plain":
                return ("pattern", "pattern %r does not accept exactly %r" % (pat, mem), {"members": "plain"})
            if bad:
                soft.append(("pattern", "pattern %r does not accept exactly %r" % (pat, mem), {"members": member_class(mem)}))
    try:
        back = cdd.json_schema.parse.json_schema(json.loads(text))
    except Exception as ex:
        return ("parse-raises", "%s: %s" % (type(ex).__name__, ex))
    for n, p in src["params"].items():
        q = back["params"].get(n)
        if q is None:
            return ("roundtrip", "parameter %s lost" % n)
        st, qt = p.get("typ"), q.get("typ")
        if literal_members(st or "") is not None:
            try:
                back_mem = set(literal_members(qt or "") or [])
            except SyntaxError:
                back_mem = None
            if set(literal_members(st)) != back_mem:
                mc = member_class(literal_members(st)) + ("+separator" if any("|" in m for m in literal_members(st)) else "")
                if mc == "plain":
                    return ("roundtrip-literal", "%s: %r came back as %r" % (n, st, qt), {"members": mc})
                soft.append(("roundtrip-literal", "%s: %r came back as %r" % (n, st, qt), {"members": mc}))
        elif st != qt:
            return ("roundtrip-typ", "%s: type %r came back as %r" % (n, st, qt))
        sd = p.get("default", domain.ABSENT)
        sd = domain.ABSENT if sd in (domain.NONE, None) else sd  # a None default is not emitted (it is what the type says when Optional, and nothing otherwise)
        qd = q.get("default", domain.ABSENT)
        qd = domain.ABSENT if qd in (domain.NONE, None) else qd
        if (sd is domain.ABSENT) != (qd is domain.ABSENT) or (sd is not domain.ABSENT and (type(sd), sd) != (type(qd), qd)):
            return ("roundtrip-default", "%s: default %r came back as %r" % (n, p.get("default", "<none>"), q.get("default", "<none>")))
        if domain.norm_doc(p.get("doc")) != domain.norm_doc(q.get("doc")):
            return ("roundtrip-doc", "%s: description %r came back as %r" % (n, p.get("doc"), q.get("doc")))
    if list(back["params"]) != list(src["params"]):
        return ("roundtrip-order", "%r vs %r" % (list(back["params"]), list(src["params"])))
    if domain.norm_doc(back.get("doc")) != domain.norm_doc(src.get("doc")):
        return ("roundtrip-doc", "interface description %r came back as %r" % (src.get("doc"), back.get("doc")))
    return None


def literal_replay():
    """The clause S6 / S7 carry, on the real emitter and parser: separator-free Literal members come back as the same set"""
    from collections import OrderedDict

    import cdd.json_schema.emit
    import cdd.json_schema.parse

    for mem in (["x"], ["x", "y"], ["http1", "adam_w", "q-r"], ["b", "a", "c", "aa"], ["with space", "tab\tin", "semi;colon", "comma,sep", "sl/ash"], ["x", ""], ["x y", "x", "y"]):
        typ = "Literal[%s]" % ", ".join(map(repr, mem))
        ir = {"name": "Conf", "doc": "Summary.", "params": OrderedDict((("alpha", {"typ": typ, "doc": "the alpha"}),)), "returns": None}
        try:
            sch = cdd.json_schema.emit.json_schema(copy.deepcopy(ir))
            back = cdd.json_schema.parse.json_schema(json.loads(json.dumps(sch)))
            got = literal_members((back["params"].get("alpha") or {}).get("typ") or "")
        except Exception:
            continue  # "whenever it returns"
        if got is None or set(got) != set(mem):
            return {"ir": json.loads(json.dumps(ir)), "what": "members %r came back as %r (pattern %r)" % (mem, got, sch["properties"]["alpha"].get("pattern"))}
    return None


def required_replay(_name):
    """The clause S1-S4 carry, on the real json_schema(): `required` == the non-Optional names in declaration order"""
    import itertools
    from collections import OrderedDict

    import cdd.json_schema.emit

    if "/S6-" in _name or "/S7-" in _name:
        return literal_replay()

    shapes = [("b_req", "int"), ("a_opt", "Optional[int]"), ("z_req", "str"), ("c_req", "bool"), ("y_opt", "Optional[str]")]
    # what else an entry may carry must not matter for `required`: a default (also None on a non-Optional type, and a real
    # one on an Optional type), no description
    extras = {"b_req": {"default": domain.NONE}, "z_req": {"default": None}, "c_req": {"default": True}, "a_opt": {"default": 3}, "y_opt": {"default": domain.NONE}}
    for n, with_extras in ((1, False), (2, False), (3, False), (5, False), (1, True), (2, True), (5, True)):
        for combo in itertools.permutations(shapes, n):
            ir = {"name": "Conf", "doc": "Summary.", "params": OrderedDict((k, dict({"typ": t, "doc": "the " + k}, **(extras[k] if with_extras else {}))) for k, t in combo), "returns": None}
            want = [k for k, t in combo if not t.startswith("Optional[")]
            sch = cdd.json_schema.emit.json_schema(copy.deepcopy(ir))
            got = sch.get("required")
            if got != want:
                return {"ir": json.loads(json.dumps(ir)), "what": "required is %r, the non-Optional parameters in declaration order are %r" % (got, want)}
            import cdd.json_schema.parse

            back = cdd.json_schema.parse.json_schema(copy.deepcopy(sch))
            typs = [(k, (back["params"].get(k) or {}).get("typ")) for k, _t in combo]
            if typs != [(k, t) for k, t in combo]:
                return {"ir": json.loads(json.dumps(ir)), "what": "types %r came back as %r (required %r)" % ([(k, t) for k, t in combo], typs, got)}
    return None


def bounded(tier, seed):
    pool = domain.param_pool(TYPES, docs=["the {name}", "The {name} of it.", ""])
    gens = []
    for doc in ("Summary of it.", ""):
        for ret in (None, (("typ", "int"), ("doc", "the result"))):
            gens.append(domain.irs(2 if tier == "quick" else 2, pool, sample=None if tier == "thorough" else 1500, seed=seed, doc=doc, returns=ret))
    gens.append(domain.irs(8, pool, sample=150 if tier == "quick" else 1500, seed=seed + 1))
    cases = [ir for g in gens for ir in g]
    # parameter names the parsers treat specially (`*kwargs` gets a fallback type): every JSON-representable type under such a name
    from collections import OrderedDict

    for nm in ("loader_kwargs", "kwargs", "num_kwargs"):
        for t in TYPES:
            for dflt in domain.SHAPES[t][:2]:
                p_ = OrderedDict((("typ", t), ("doc", "the %s" % nm)))
                if dflt is not domain.ABSENT:
                    p_["default"] = dflt
                cases.append({"name": "Conf", "doc": "Summary of it.", "params": OrderedDict(((nm, p_), ("alpha", OrderedDict((("typ", "int"), ("doc", "the alpha")))))), "returns": None})
    # a None default on a non-Optional type (`timeout: float = None`): the type decides `required`, not the default
    for t in ("int", "float", "str", "bool", "Literal['x', 'y']"):
        for dflt in (domain.NONE, None):
            cases.append({"name": "Conf", "doc": "Summary of it.", "params": OrderedDict((("alpha", OrderedDict((("typ", t), ("doc", "the alpha"), ("default", dflt)))), ("beta", OrderedDict((("typ", "Optional[int]"), ("doc", "the beta")))))), "returns": None})
    res = common.pmap(check_ir, cases)
    fails = {}
    for ir, rs in zip(cases, res):
        for r in rs:
            fails.setdefault((r[0],) + tuple(sorted((r[2] if len(r) > 2 else {}).items())), (ir, r[1]))
    distinct = len({json.dumps(domain.project(ir), default=str) for ir in cases if ir["params"]})
    return len(cases), distinct, fails


def main(tier, write_baseline=False):
    run = Run("C06", tier, "other", checker_cmd=common.checker_cmd("C06", tier))
    run.confirm_abstracted = ('optional-iff-not-required',)  # refutations of these exact contracts count only with an input that fails on the real code (report.Run.violation)
    run.trusted_base.update(["cddvc E1 (records with presence bits, Seq view of `required`)", "z3 5.1"])
    refuted = e1.run_contracts(run, "contracts.C06")
    # the parse half of the round-trip clause: json_schema_property_to_param writes the real json_type2typ of the schema type and
    # wraps it in Optional[...] iff the property is not required (block contract of contracts/C14.py, verified here as well)
    refuted += e1.run_contracts(run, "contracts.C14", only={"cdd.json_schema.utils.parse_utils:json_schema_property_to_param#fold-keywords",
                                                                   "cdd.json_schema.utils.parse_utils:json_schema_property_to_param#optional-iff-not-required"})
    # fold lemma (Lean 4 kernel): with the callee contract above and side conditions S1-S4, `required` is the list of
    # the non-Optional parameter names in order, for parameter lists of any length
    common.lean_theorems(run, "C06", "C06.lean", ("required_is_filter", "required_iff_not_optional", "pattern_roundtrip"))
    run.trusted_base.add("Lean 4.33 kernel (lean/C06.lean, no Mathlib): the fold lemma; that dict(map(f, xs)) is that fold rests on S1-S4 (rule engine) and on CPython evaluating map lazily in order")
    refuted, rule_inputs = run.confirm_or_undecide(refuted, required_replay)
    if write_baseline:
        common.write_baseline("C06", [n for n, o in run.obligations.items() if o["status"] == "proved"])
    compare_baseline(run, set(run.obligations))
    fails = {}
    if not os.environ.get("VERIF_NO_BOUNDED"):
        n, distinct, fails = bounded(tier, run.seed)
        run.bounded.append({
            "name": "run-time form of the C06 contract on the real emitter/parser over IR(n) (bounded, NOT counted as proved)",
            "bound": "JSON-representable slice of IR(n): %d types x defaults x 3 description kinds; n <= 2 %s x {doc, no doc} x {return, no return}; n <= 8 seeded sample; every type under the parameter names loader_kwargs / kwargs / num_kwargs" % (len(TYPES), "exhaustive" if tier == "thorough" else "sampled (1500 per combination)"),
            "rule": "distinct interface projections with at least one parameter",
            "evaluations": n, "distinct_nontrivial": distinct,
            "failures": [{"kind": "|".join(map(str, k)), "what": v[1][:300], "ir": json.dumps(v[0], default=str)[:300]} for k, v in list(fails.items())[:5]],
        })
    seen = set()
    for o in refuted:
        if o["name"] in seen:
            continue
        seen.add(o["name"])
        cand = next(iter(fails.values()), None)
        fi = rule_inputs.get(o["name"]) or (common.optional_iff_not_required_replay() if "optional-iff-not-required" in o["name"] else None) or common.model_replay("contracts.C14" if "json_schema_property_to_param" in o["name"] else "contracts.C06", o) or ({"ir": json.loads(json.dumps(cand[0], default=str)), "what": cand[1]} if cand else None)
        run.violation(o["name"], "obligation refuted by %s on path %s%s" % (o["backend"], " ".join(o["trace"]), (": " + "; ".join(o.get("notes") or [])[:300]) if o.get("notes") else ""),
                      failing_input=fi, solver_output={"model": o["model"], "smt2": (o["smt2"] or "")[:5000]})
    for fk, (ir, what) in fails.items():
        kind = fk[0]
        run.violation("C06/bounded/%s" % kind, what, key=dict({"kind": kind}, **dict(fk[1:])), failing_input={"ir": json.loads(json.dumps(ir, default=str))})
    common.apply_controls(run, tier)
    return run.finish(explanation="PROVED (all inputs, any number of parameters): `required` of json_schema() is exactly the non-Optional parameter names in declaration order = callee contract of param2json_schema_property (E1) + fold lemma (Lean) + fold-shape side conditions S1-S4 (rule engine); also doc->description, typ key removed. "
                      "BOUNDED only: meta-schema validity, defaults against their property schema, Literal patterns, serialisability, parse-back equality.")


def replay(path):
    d = json.load(open(path))
    inp = d.get("failing_input") or {}
    print("replaying %s: obligation %s" % (path, d["failed_obligation"]))
    if "ir" not in inp:
        return 1
    from collections import OrderedDict

    ir = inp["ir"]
    ir["params"] = OrderedDict(ir["params"])
    r = check_ir(ir)
    print("%s -> %s" % (json.dumps(ir)[:300], r))
    return 1 if r else 0

"""
C14 — every parser returns a well-formed interface description.

Deciding step (lemma, E1, all names): _set_name_and_type returns a name without leading asterisks that is a suffix
of the original and equal to it when there was no asterisk.
Bounded (stand-in, NOT proved): the postcondition well_formed_ir(result), written from the property statement, as
a run-time contract on the real parsers over grammar-generated docstrings, generated code / schemas, and arbitrary
token strings (whenever the parser returns).
"""

import ast
import itertools
import json
import os

from cddvc import e1
from cddvc.report import Run, compare_baseline
from checks import common, domain, roundtrip as R, rt_matrix as M

ALLOWED_KEYS = {"typ", "doc", "default", "x_typ"}


def well_formed(ir, sig=None, loose_text=False):
    """The postcondition, from the statement. -> list of (kind, what)"""
    out = []
    if not isinstance(ir, dict):
        return [("shape", "result is %s, not a mapping" % type(ir).__name__)]
    for k in ("name", "doc", "params", "returns"):
        if k not in ir:
            out.append(("shape", "key %r missing" % k))
    if "doc" in ir and not isinstance(ir["doc"], str):
        out.append(("doc-not-str", "interface description is %r" % (ir["doc"],)))
    params = ir.get("params")
    if not isinstance(params, dict):
        return out + [("shape", "params is %s" % type(params).__name__)]
    rets = ir.get("returns")
    if rets is not None and (not isinstance(rets, dict) or (rets and list(rets) != ["return_type"])):
        out.append(("returns-shape", "returns is %r: neither None nor exactly one entry called return_type" % (list(rets) if isinstance(rets, dict) else rets,)))
    entries = list(params.items()) + (list(rets.items()) if isinstance(rets, dict) else [])
    for name, p in entries:
        if not isinstance(name, str) or not name:
            out.append(("name-empty", "parameter name %r" % (name,)))
            continue
        if name.startswith("*"):
            out.append(("name-asterisk", "parameter name %r has a leading asterisk" % name))
        if not isinstance(p, dict):
            out.append(("entry-shape", "%s: entry is %s" % (name, type(p).__name__)))
            continue
        extra = set(p) - ALLOWED_KEYS
        if extra:
            out.append(("entry-keys:" + ",".join(sorted(extra)), "%s: unexpected keys %s" % (name, sorted(extra))))
        if "typ" in p:
            if not isinstance(p["typ"], str):
                out.append(("typ-not-str", "%s: typ is %r" % (name, p["typ"])))
            else:
                try:
                    ast.parse(p["typ"], mode="eval")
                except SyntaxError:
                    out.append(("typ-unparsable", "%s: type %r does not parse as a Python expression" % (name, p["typ"])))
        if "doc" in p and not isinstance(p["doc"], str):
            out.append(("param-doc-not-str", "%s: description is %r" % (name, p["doc"])))
    if sig is not None:
        names = list(params)
        for s in sig:
            if names.count(s) != 1:
                out.append(("signature", "signature parameter %r appears %d times in params %r" % (s, names.count(s), names)))
    return out


# ------------------------------------------------------------------------------- generated inputs

TYPES = ["int", "str", "Dict[str, int]", "Tuple[float, float]", "Optional[int]", "bool"]


def doc_entry(style, name, typ, optional, desc):
    t = typ + (", optional" if optional else "")
    if style == "rest":
        return ":param %s: %s\n:type %s: ```%s```\n" % (name, desc, name.lstrip("*"), "Optional[%s]" % typ if optional else typ)
    if style == "google":
        return "  %s (%s): %s\n" % (name, t, desc)
    return "%s : %s\n    %s\n" % (name, t, desc)


def gen_docstrings():
    descs = ["the thing", "multi line\n    description continues here", "Defaults to 5", "one of `a` or `b`"]
    extras = {"rest": ["", "\n.. note:: a note\n", "\n:raises ValueError: when bad\n"],
              "google": ["", "\nRaises:\n  ValueError: when bad\n", "\nNote:\n  a note\n\nExample:\n  >>> f(1)\n"],
              "numpydoc": ["", "\nRaises\n------\nValueError\n    when bad\n", "\nNotes\n-----\na note\n\nExamples\n--------\n>>> f(1)\n"]}
    head = {"rest": "", "google": "Args:\n", "numpydoc": "Parameters\n----------\n"}
    ret = {"rest": ":return: the result\n:rtype: ```int```\n", "google": "Returns:\n  int: the result\n", "numpydoc": "Returns\n-------\nint\n    the result\n"}
    for style in ("rest", "google", "numpydoc"):
        for names in (("a",), ("a", "*args", "**kwargs"), ("alpha", "beta_id")):
            for typ, opt, desc, extra, ret_first in itertools.product(TYPES, (False, True), descs, extras[style], (False, True)):
                if hash((style, names, typ, opt, desc, extra, ret_first)) % 3:
                    continue
                section = head[style] + "".join(doc_entry(style, n, typ if i == 0 else "int", opt and i == 0, desc) for i, n in enumerate(names))
                parts = [ret[style], "\n", section] if ret_first else [section, "\n", ret[style]]
                yield ("docstring", style, "Summary line.\n\n" + "".join(parts) + extra)


CLASS_SRC = '''class K(object):
    """
    Class K

    :cvar z: the z
    """

    z: int = 3

    @staticmethod
    def build(value, lower=0, upper=10):
        """
        Build it

        :param lower: lower bound
        :param upper: upper bound
        """
        return value

    def __init__(self, a, b=2):
        """
        Init

        :param a: the a
        """
        self.a = a

    @classmethod
    def make(cls, q, r=1):
        """
        Make

        :param r: the r
        """
        return cls(q)
'''


# hand-written SQLAlchemy models: the Column(...) keywords a generated model never contains
SQLA_COLUMNS = {
    "pk-false": "Column(Integer, doc='the id', primary_key=False)",
    "pk-true": "Column(Integer, doc='the id', primary_key=True)",
    "nullable-false": "Column(String, doc='the name', nullable=False)",
    "nullable-true": "Column(String, doc='the name', nullable=True)",
    "default": "Column(String, doc='the name', default='x')",
    "comment": "Column(String, comment='the name')",
    "fk": "Column(Integer, ForeignKey('other.id'), doc='the other')",
    "unique": "Column(String, doc='the name', unique=True)",
    "index": "Column(String, doc='the name', index=True)",
}


def sqla_sources():
    for tag, col in SQLA_COLUMNS.items():
        yield ("sqla-src", "class/" + tag, 'class Conf(Base):\n    """\n    Conf\n    """\n\n    __tablename__ = "conf"\n\n    id = Column(Integer, primary_key=True, doc="the key")\n    col = %s\n' % col)
        yield ("sqla-src", "table/" + tag, 'conf = Table(\n    "conf",\n    metadata,\n    Column("id", Integer, primary_key=True, doc="the key"),\n    %s,\n    comment="Conf",\n)\n' % col.replace("Column(", 'Column("col", ', 1))


# hand-written JSON-schemas: property keywords a generated schema never contains
JSON_PROPS = {
    "pattern-alpha": {"type": "string", "description": "the split", "pattern": "train|test"},
    "pattern-underscore": {"type": "string", "description": "the split", "pattern": "train_set|test_set"},
    "pattern-digits": {"type": "string", "description": "the level", "pattern": "0|1|2"},
    "pattern-regex": {"type": "string", "description": "the slug", "pattern": "^[a-z]+(-[a-z]+)*$"},
    "pattern-empty-alternative": {"type": "string", "description": "the mode", "pattern": "fast|"},
    "no-description": {"type": "integer", "default": 3},
    "default-only": {"default": "x"},
}


def json_sources():
    for tag, prop in JSON_PROPS.items():
        yield ("json-src", tag, json.dumps({"$id": "https://offscale.io/Conf.schema.json", "$schema": "https://json-schema.org/draft/2020-12/schema", "description": "Conf", "type": "object",
                                              "properties": {"id": {"type": "integer", "description": "the key"}, "col": prop}, "required": ["id"]}))


# hand-written argparse functions: add_argument(...) keywords and type= expressions a generated function never contains
ARGPARSE_ARGS = {
    "type-dotted-required": "'--src', type=pathlib.Path, help='the src', required=True",
    "type-dotted": "'--src', type=pathlib.Path, help='the src'",
    "type-dotted-default": "'--src', type=os.path.abspath, help='the src', default='.'",
    "type-loads": "'--cfg', type=loads, help='the cfg'",
    "type-name-required": "'--n', type=int, help='the n', required=True",
    "choices": "'--mode', choices=('a', 'b'), help='the mode', required=True",
    "append": "'--tag', type=str, action='append', help='the tags'",
    "no-type-no-help": "'--bare'",
    "store-true": "'--flag', action='store_true', help='the flag'",
    "default-none": "'--opt', type=str, default=None, help='the opt'",
    "nargs": "'--many', type=int, nargs='+', help='the many'",
}


def argparse_sources():
    for tag, args_ in ARGPARSE_ARGS.items():
        yield ("argparse-src", tag, 'def set_cli_args(argument_parser):\n    """\n    Set CLI arguments\n\n    :param argument_parser: argument parser\n    :type argument_parser: ```ArgumentParser```\n\n    :return: argument_parser\n    :rtype: ```ArgumentParser```\n    """\n    argument_parser.description = "Conf"\n    argument_parser.add_argument("--first", type=int, help="the first", required=True)\n    argument_parser.add_argument(%s)\n    return argument_parser\n' % args_)


def handle_value_replay():
    """The contract on _handle_value, on real ast nodes: whatever it returns is a str"""
    import cdd.argparse_function.utils.emit_utils as EU

    for text in ("int", "loads", "pathlib.Path", "os.path.abspath", "f()", "x[0]", "lambda v: v", "'str'", "None", "a or b", "(int)", "-x"):
        node = ast.parse(text, mode="eval").body
        try:
            r = EU._handle_value(node)
        except Exception:
            continue  # refusing a node is allowed
        if not isinstance(r, str) or (isinstance(node, ast.Name) and node.id != "loads" and r != node.id):
            return {"kind": "handle-value", "input": text, "what": "_handle_value(<%s node of %r>) returns %r (%s), not a type string" % (type(node).__name__, text, r, type(r).__name__)}
    return None


def set_param_values_replay():
    """The contract on _set_param_values with str.replace as CPython computes it: fenced / plain '**kwargs' types and ordinary ones"""
    import cdd.shared.docstring_parsers as dp

    for val in ("```**kwargs```", "**kwargs", "```**kw```", "```dict```", "```Optional[int]```", "int", "``` **x```"):
        for input_str, sw in ((":type kwargs", ":type"), (":param kwargs", ":type")):
            try:
                r = dp._set_param_values(input_str, val, sw)
            except Exception as ex:
                return {"kind": "set-param-values", "input": [input_str, val, sw], "what": "raises %s: %s" % (type(ex).__name__, ex)}
            t = val.replace("```", "")
            want = ("typ", "dict" if t.startswith("**") else t) if input_str.startswith(sw) else ("doc", val)
            if tuple(r) != want:
                return {"kind": "set-param-values", "input": [input_str, val, sw], "what": "_set_param_values(%r, %r, %r) returns %r; the contract says %r (a stored type never starts with '**')" % (input_str, val, sw, tuple(r), want)}
    return None


def check_one(job):
    kind = job[0]
    try:
        with R.quiet():
            if kind == "docstring":
                import cdd.docstring.parse
                import cdd.shared.docstring_parsers as dp

                probs = []
                for fn in (cdd.docstring.parse.docstring, dp.parse_docstring):
                    try:
                        probs += well_formed(fn(job[2]))
                    except Exception:
                        pass
                return [((k, "docstring", job[1]), w, None) for k, w in probs]
            if kind == "text":
                import cdd.shared.docstring_parsers as dp

                return [((k, "arbitrary-text", "-"), w, None) for k, w in well_formed(dp.parse_docstring(job[1]))]
            if kind == "sqla-src":
                import cdd.sqlalchemy.parse

                node = ast.parse(job[2]).body[0]
                fn = cdd.sqlalchemy.parse.sqlalchemy if isinstance(node, ast.ClassDef) else cdd.sqlalchemy.parse.sqlalchemy_table
                return [((k, "sqlalchemy-source", job[1]), w, None) for k, w in well_formed(fn(node))]
            if kind == "argparse-src":
                import cdd.argparse_function.parse

                return [((k, "argparse-source", job[1]), w, None) for k, w in well_formed(cdd.argparse_function.parse.argparse_ast(ast.parse(job[2]).body[0]))]
            if kind == "json-src":
                import cdd.json_schema.parse

                return [((k, "json-schema-source", job[1]), w, None) for k, w in well_formed(cdd.json_schema.parse.json_schema(json.loads(job[2])))]
            if kind == "merge":
                import cdd.class_.parse

                node = ast.parse(CLASS_SRC).body[0]
                meth = next(n for n in node.body if isinstance(n, ast.FunctionDef) and n.name == job[1])
                ir = cdd.class_.parse.class_(node, merge_inner_function=job[1])
                sig = [a.arg for a in meth.args.args + meth.args.kwonlyargs if a.arg not in ("self", "cls")]
                return [((k, "class_+merge_inner_function", job[1]), w, None) for k, w in well_formed(ir, sig=sig + ["z"])]
            fmt, ir, style = job[1], job[2], job[3]
            if fmt == "function":
                import cdd.function.emit
                import cdd.function.parse

                text = R.to_src(cdd.function.emit.function(json.loads(json.dumps(ir)) and ir, function_name="conf", function_type="static", docstring_format=style))
                node = ast.parse(text).body[0]
                back = cdd.function.parse.function(node)
                sig = [a.arg for a in node.args.args + node.args.kwonlyargs]
                return [((k, "function", style), w, None) for k, w in well_formed(back, sig=sig)]
            back, _t = R.HOPS[fmt if not fmt.startswith("sqlalchemy") else "sqlalchemy"](ir, style=style, variant=fmt)
            return [((k, fmt, style), w, None) for k, w in well_formed(back)]
    except Exception as ex:
        return [("raises", "%s: %s" % (type(ex).__name__, str(ex)[:100]), None)]


def main(tier, write_baseline=False):
    run = Run("C14", tier, "other", checker_cmd=common.checker_cmd("C14", tier))
    run.confirm_abstracted = ('_set_param_values', 'optional-iff-not-required')  # refutations of these exact contracts count only with an input that fails on the real code (report.Run.violation)
    run.trusted_base.update(["cddvc E1 (string VCs; str.lstrip(chars) specified as a suffix not starting with chars)", "z3 5.1"])
    refuted = e1.run_contracts(run, "contracts.C14")
    if write_baseline:
        common.write_baseline("C14", [n for n, o in run.obligations.items() if o["status"] == "proved"])
    compare_baseline(run, set(run.obligations))
    fails = {}
    if not os.environ.get("VERIF_NO_BOUNDED"):
        jobs = list(gen_docstrings())
        # the way this very code base documents a **kwargs parameter in ReST: the type inside a code fence
        for fence in ("```**kwargs```", "**kwargs", "```dict```", "```Optional[dict]```"):
            for tail in ("", ":return: the result\n:rtype: ```int```\n"):
                jobs.append(("docstring", "rest", "Summary line.\n\n:param a: the a\n:type a: ```int```\n\n:param kwargs: keyword arguments\n:type kwargs: %s\n\n%s" % (fence, tail)))
        ndoc = len(jobs)
        jobs += [("merge", m) for m in ("build", "__init__", "make")]
        jobs += list(sqla_sources())
        jobs += list(json_sources())
        jobs += list(argparse_sources())
        pool = domain.param_pool(["int", "str", "bool", "Optional[int]", "Literal['x', 'y']"], docs=["the {name}", ""])
        irs = list(domain.irs(1, pool, suffix_defaults=True)) + list(domain.irs(2, pool, sample=60 if tier == "quick" else 600, seed=run.seed, suffix_defaults=True))
        for fmt in ("class", "pydantic", "function", "argparse", "json_schema", "sqlalchemy", "sqlalchemy_table"):
            for style in ("rest", "google", "numpydoc") if fmt not in ("json_schema",) else ("rest",):
                jobs += [("code", fmt, ir, style) for ir in irs]
        toks = ["\n", "  ", ":param a:", ":type a: ```int```", "Args:", "a (int): x", "a : int", "Returns:", "junk", ":return:", "*args", "**kwargs: y", "Parameters\n----------"]
        texts = ["".join(t) for n in (1, 2, 3) for t in itertools.product(toks, repeat=n)]
        if tier == "quick":
            texts = texts[::3]
        jobs += [("text", t) for t in texts]
        res = common.pmap(check_one, jobs)
        raised = 0
        for j, r in zip(jobs, res):
            for key, what, _x in r:
                if key == "raises":
                    raised += 1
                    continue
                fails.setdefault(key, (j[0], j[1:] if j[0] != "code" else [j[1], j[3], j[2]], what))
        run.bounded.append({
            "name": "well_formed_ir(result) as a run-time postcondition on the real parsers (bounded, NOT counted as proved)",
            "bound": "%d grammar-generated docstrings (3 styles, sections in either order, *args/**kwargs entries, comma types with ', optional', notes/raises/examples, multi-line descriptions) through docstring.parse and parse_docstring; class_ with merge_inner_function on 3 methods; 18 hand-written SQLAlchemy models (class and Table) with Column keywords primary_key / nullable / default / comment / ForeignKey / unique / index; 7 hand-written JSON-schemas (patterns with underscores / digits / a regex / an empty alternative, missing description / type); 11 hand-written argparse functions (type= as a dotted expression with / without required and default, loads, choices, append, store_true, nargs, bare option); %d generated interfaces x 7 code/schema formats x styles; %d token strings of <= 3 tokens as arbitrary text; %d evaluations raised" % (ndoc, len(irs), len(texts), raised),
            "rule": "one parser call per input; non-trivial = the parser returns",
            "evaluations": len(jobs), "distinct_nontrivial": len(jobs) - raised,
            "failures": [{"class": "|".join(map(str, k)), "what": v[2][:200]} for k, v in list(fails.items())[:6]],
        })
    seen = set()
    for o in refuted:
        if o["name"] in seen:
            continue
        seen.add(o["name"])
        run.violation(o["name"], "obligation refuted by %s on path %s" % (o["backend"], " ".join(o["trace"])), failing_input=(handle_value_replay() if "_handle_value" in o["name"] else (set_param_values_replay() if "_set_param_values" in o["name"] else (common.optional_iff_not_required_replay() if "optional-iff-not-required" in o["name"] else None))) or common.model_replay("contracts.C14", o), solver_output={"model": o["model"], "smt2": (o["smt2"] or "")[:4000]})
    for key, (kind, payload, what) in sorted(fails.items(), key=str):
        cls = "|".join(str(k) for k in key)
        run.violation("C14/bounded/%s" % key[0], "[class %s] %s" % (cls, what), key={"class": cls}, failing_input={"kind": kind, "input": json.loads(json.dumps(payload, default=str))})
    common.apply_controls(run, tier)
    return run.finish(explanation="PROVED (lemma): names leave _set_name_and_type without leading asterisks. BOUNDED only: the postcondition on the parsers themselves.")


def replay(path):
    d = json.load(open(path))
    inp = d.get("failing_input") or {}
    print("replaying %s: obligation %s" % (path, d["failed_obligation"]))
    if not inp:
        return 1
    k, p = inp["kind"], inp["input"]
    if k == "handle-value":
        r = handle_value_replay()
        print(r)
        return 1 if r else 0
    if k == "code":
        from collections import OrderedDict

        p[2]["params"] = OrderedDict(p[2]["params"])
        job = ("code", p[0], p[2], p[1])
    else:
        job = tuple([k] + list(p))
    r = check_one(job)
    print(r)
    return 1 if [x for x in r if x[0] != "raises"] else 0

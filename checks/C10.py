"""
C10 — output is a deterministic function of the input alone.

Deciding step: E4 rule system over the whole non-test package (cddvc/ordered.py): every value that is
syntactically set-valued is consumed order-insensitively (one obligation per consumption site), and no
function keeps state across calls (global writes, globals() updates, module attribute stores, mutation of
module-level objects or mutable defaults, caches).  Import-time mutation of another module's global is
decided by evaluating its idempotence in a real interpreter.
Stand-in (bounded): a fixed list of conversions in fresh sub-processes under several PYTHONHASHSEED values
and as a two-order, three-pass history in one process; byte comparison.
"""

import json
import os
import subprocess
import sys

from cddvc import callgraph, ordered
from cddvc.report import PROVED, REFUTED, UNDECIDED, Run, compare_baseline
from checks import common


def _driver(seed, history=False):
    env = dict(os.environ, PYTHONHASHSEED=str(seed), PYTHONPATH="%s:%s" % (common.REPO, common.VERIF), PYTHONDONTWRITEBYTECODE="1")
    r = subprocess.run([sys.executable, "-m", "checks.c10_driver"] + (["--history"] if history else []), capture_output=True, text=True, env=env, cwd=common.VERIF, timeout=900)
    line = [l for l in r.stdout.splitlines() if l.startswith("{")]
    return json.loads(line[-1]) if line else {"error": r.stderr[-400:]}


def foreign_mutation_idempotent(updater_mod, detail):
    """Import the target alone, snapshot its module-level dicts; import the updater; compare. -> (ok, text)"""
    code = (
        "import importlib, json, sys\n"
        "tm = sys.argv[1]; um = sys.argv[2]\n"
        "t = importlib.import_module(tm)\n"
        "snap = {k: repr(sorted(v.items(), key=repr)) for k, v in vars(t).items() if isinstance(v, dict) and not k.startswith('__')}\n"
        "importlib.import_module(um)\n"
        "after = {k: repr(sorted(v.items(), key=repr)) for k, v in vars(t).items() if isinstance(v, dict) and not k.startswith('__')}\n"
        "print(json.dumps({'same': snap == after, 'changed': [k for k in after if snap.get(k) != after[k]]}))\n"
    )
    import re

    m = re.search(r"mutates ([\w.]+)\.(\w+) via", detail)
    if not m:
        return None, "cannot identify the target"
    env = dict(os.environ, PYTHONPATH=common.REPO)
    r = subprocess.run([sys.executable, "-c", code, m.group(1), updater_mod], capture_output=True, text=True, env=env, timeout=120)
    line = [l for l in r.stdout.splitlines() if l.startswith("{")]
    if not line:
        return None, "evaluation failed: " + r.stderr[-200:]
    res = json.loads(line[-1])
    return res["same"], ("importing %s leaves %s.%s unchanged (idempotent: evaluated in a real interpreter)" % (updater_mod, m.group(1), m.group(2)) if res["same"]
                         else "importing %s changes %s: %s — behaviour depends on whether it was imported" % (updater_mod, m.group(1), res["changed"]))


def main(tier, write_baseline=False):
    run = Run("C10", tier, "proof", checker_cmd=common.checker_cmd("C10", tier))
    run.trusted_base.update([
        "E4 rule system (/verif/cddvc/ordered.py): the syntactic notion of set-valued expression and the tables of order-insensitive / order-sensitive consumers",
        "values whose type the rules cannot see (parameters, results of unknown calls) are assumed ordered; dict iteration order is insertion order (CPython >= 3.7)",
        "third-party code (black, ast.unparse) is deterministic",
    ])
    g = callgraph.Graph()
    obs, assumed, stats = ordered.order_obligations(g)
    sobs = ordered.state_obligations(g)
    refuted = []
    for name, ok, detail in obs + sobs:
        if ok is None and "foreign-global-mutation" in name:
            ok, detail2 = foreign_mutation_idempotent(name.split("@")[1].split(":")[0], detail)
            detail = detail + " — " + detail2
        st = UNDECIDED if ok is None else (PROVED if ok else REFUTED)
        run.add("C10/" + name, st, "rule-engine(E4)" if "foreign" not in name else "rule-engine(E4)+real-interpreter", detail=detail)
        if ok is False:
            refuted.append(("C10/" + name, detail))
    for a in assumed:
        run.assumptions.add(a)
    run.functions = [stats]
    run.samples = [{"obligation": "C10/" + n, "detail": d} for n, ok, d in (obs[:4] + sobs[:3])]
    if write_baseline:
        common.write_baseline("C10", [n for n, o in run.obligations.items() if o["status"] == "proved"])
    compare_baseline(run, set(run.obligations))
    diffs = []
    if not os.environ.get("VERIF_NO_BOUNDED"):
        seeds = [0, 1, 2, "random"] if tier == "quick" else [0, 1, 2, 3, 4, 5, 6, 7, "random", "random"]
        outs = common.tmap(lambda s: _driver(s), seeds)
        hist = _driver(0, history=True)
        ref = outs[0].get("first", {})
        ev = 0
        for s, o in zip(seeds, outs):
            if "first" not in o:
                run.undecide("C10/bounded/driver", "driver failed under seed %s: %s" % (s, o.get("error")))
                continue
            for k, v in o["first"].items():
                ev += 1
                if ref.get(k) != v:
                    diffs.append({"case": k, "kind": "hash-seed", "seeds": [seeds[0], s], "a": (ref.get(k) or "")[:300], "b": v[:300]})
        if "first" in hist:
            for k, v in hist["first"].items():
                ev += 2
                for other in ("second", "third"):
                    if hist[other].get(k) != v:
                        diffs.append({"case": k, "kind": "call-history", "pass": other, "a": v[:300], "b": (hist[other].get(k) or "")[:300]})
                if ref.get(k) != v:
                    diffs.append({"case": k, "kind": "fresh-vs-history-process", "a": (ref.get(k) or "")[:300], "b": v[:300]})
        else:
            run.undecide("C10/bounded/history", "history driver failed: %s" % hist.get("error"))
        ncase = len(ref)
        run.bounded.append({
            "name": "byte comparison of %d conversions across PYTHONHASHSEED values and across a two-order three-pass history in one process (bounded, NOT counted as proved)" % ncase,
            "bound": "seeds %s; history: forward, reversed, forward in one process" % seeds,
            "rule": "one evaluation = one conversion in one process; non-trivial = the conversion returns (does not raise)",
            "evaluations": ev, "distinct_nontrivial": sum(1 for v in ref.values() if not v.startswith("RAISED")),
            "failures": diffs[:5],
        })
    seen = set()
    for name, detail in refuted:
        cand = diffs[0] if diffs else None
        run.violation(name, detail, key={"site": name}, failing_input=cand, solver_output={"rule": detail})
    if not refuted:
        for d in diffs:
            k = (d["case"], d["kind"])
            if k in seen:
                continue
            seen.add(k)
            run.violation("C10/bounded/%s" % d["kind"], "output of `%s` differs (%s)" % (d["case"], d["kind"]), key={"case": d["case"], "kind": d["kind"]}, failing_input=d)
    common.apply_controls(run, tier)
    return run.finish(explanation="Determinism as a typing discipline: unordered (set-valued) values are only consumed order-insensitively; no cross-call state. "
                      "The rule system sees only syntactically set-valued expressions; the bounded seed/history comparison exists to catch what it hides.")


def replay(path):
    d = json.load(open(path))
    print("replaying %s: obligation %s" % (path, d["failed_obligation"]))
    inp = d.get("failing_input")
    if not inp:
        print("no failing input recorded (no-failing-input-found)")
        return 1
    if inp["kind"] == "hash-seed":
        a, b = _driver(inp["seeds"][0]), _driver(inp["seeds"][1])
        same = a.get("first", {}).get(inp["case"]) == b.get("first", {}).get(inp["case"])
    else:
        h = _driver(0, history=True)
        same = h["first"].get(inp["case"]) == h["second"].get(inp["case"]) == h["third"].get(inp["case"])
    print("case %s (%s): %s" % (inp["case"], inp["kind"], "identical" if same else "DIFFERS"))
    return 0 if same else 1

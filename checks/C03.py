"""
C03 — any chain of format conversions preserves the interface.

Deciding step (lemma over the hop contracts, Lean 4 kernel): if every hop preserves pi on E (H1) and E is closed
under every hop (H2), then chains of ANY length preserve pi and any two chains commute (lean/C03.lean).
Bounded (stand-in, NOT proved): H1 / H2 themselves — checked on the real emitters/parsers by running every
conversion sequence of length <= 3 (sampled for 4..5) from the common-domain slice of IR(n); the set E is the set
of interface descriptions actually reached.
"""

import itertools
import json
import os
import random
import re
import subprocess
import time

from cddvc.report import PROVED, REFUTED, UNDECIDED, Run, compare_baseline
from checks import common, domain, roundtrip as R, rt_matrix as M

FMTS = ["class", "pydantic", "function", "argparse", "docstring"]
TYPES = ["int", "float", "str", "bool", "Optional[int]", "Optional[str]", "Optional[float]", "Optional[bool]", "Literal['x', 'y']"]


def lean_obligations(run):
    src = os.path.join(common.VERIF, "lean", "C03.lean")
    t = time.time()
    try:
        r = subprocess.run(["lean", src], capture_output=True, text=True, timeout=600)
    except Exception as ex:
        for th in ("chain_preserves", "chains_commute"):
            run.add("C03/lean/%s" % th, UNDECIDED, "lean-4", detail="lean could not be run: %s" % ex)
        return
    out = r.stdout + r.stderr
    dt = time.time() - t
    text = open(src).read()
    for th in ("chain_preserves", "chains_commute"):
        m = re.search(r"'%s' (does not depend on any axioms|depends on axioms: \[([^\]]*)\])" % th, out)
        ok = r.returncode == 0 and "error" not in out and "sorry" not in out and m is not None and ("theorem %s" % th) in text
        axioms = (m.group(2) or "none") if m else "?"
        if ok and any(a.strip() not in ("propext", "Quot.sound", "Classical.choice", "") for a in axioms.replace("none", "").split(",")):
            ok = False
        run.add("C03/lean/%s" % th, PROVED if ok else (UNDECIDED if r.returncode == 0 else REFUTED), "lean-%s" % "4.33", dt / 2,
                detail="accepted by the Lean kernel; axioms: %s" % axioms if ok else "lean output: %s" % out[-300:])
        run.assumptions.add("Lean theorem %s uses axioms: %s" % (th, axioms))


def pi(ir):
    return [(n, p.get("typ"), (type(p["default"]).__name__, p["default"]) if "default" in p else None) for n, p in (ir.get("params") or {}).items()]


def hop(fmt, ir):
    back, _t = R.HOPS[fmt](ir, style="rest", emit_default_doc=(fmt == "docstring"))
    from collections import OrderedDict

    back = json.loads(json.dumps(back, default=str))
    back["params"] = OrderedDict(back.get("params") or {})
    back.pop("_internal", None)
    back["name"] = ir.get("name") or "Conf"
    if not isinstance(back.get("doc"), str):
        back["doc"] = ""
    return back


def chains_for(ir_and_seed):
    ir, seed, tier = ir_and_seed
    rnd = random.Random(seed)
    seqs = [s for n in (1, 2, 3) for s in itertools.product(FMTS, repeat=n)]
    seqs += [tuple(rnd.choice(FMTS) for _ in range(n)) for n in (4, 5) for _ in range(6 if tier == "quick" else 40)]
    start = pi(ir)
    memo = {(): ir}
    fails, n, raised, reached = {}, 0, 0, set()
    raising = []
    for s in seqs:
        cur = None
        try:
            for i in range(1, len(s) + 1):
                if s[:i] not in memo:
                    memo[s[:i]] = hop(s[i - 1], memo[s[:i - 1]])
                cur = memo[s[:i]]
        except Exception as ex:
            raised += 1
            memo[s[:i]] = None
            raising.append((list(s[:i]), type(ex).__name__))
            continue
        if cur is None:
            raised += 1
            continue
        n += 1
        reached.add(json.dumps(pi(cur), default=str))
        if pi(cur) != start:
            a, b = start, pi(cur)
            j = next((k for k in range(min(len(a), len(b))) if a[k] != b[k]), 0)
            src = list(ir["params"].values())[j] if ir["params"] else {}
            field = "names" if [x[0] for x in a] != [x[0] for x in b] else ("typ" if a[j][1] != b[j][1] else "default")
            # the hop at which the interface first changed
            first = next((i for i in range(1, len(s) + 1) if memo.get(s[:i]) is not None and pi(memo[s[:i]]) != start), len(s))
            key = ("chain", "first-broken-by=" + s[first - 1], field, M.typ_class(src.get("typ")), M.default_class(src))
            fails.setdefault(key, (list(s), ir, "after %s: %r became %r" % (" -> ".join(s), a[j] if a else a, b[j] if j < len(b) else b)))
    return n, raised, fails, len(reached), [(seq, ir, exc) for seq, exc in raising]


def main(tier, write_baseline=False):
    run = Run("C03", tier, "other", checker_cmd="lean /verif/lean/C03.lean  +  " + common.checker_cmd("C03", tier))
    run.confirm_abstracted = ('_infer_default',)  # refutations of these exact contracts count only with an input that fails on the real code (report.Run.violation)
    M.RAISE_CTX.update(prop="C03", write=bool(write_baseline))
    run.trusted_base.update(["Lean 4.33 kernel (lean/C03.lean, no Mathlib)", "the Lean statement models a hop as a total function IR -> IR and pi as a projection; H1/H2 are only checked within the bound"])
    lean_obligations(run)
    # a hop-level obligation that every chain through `function` relies on: _infer_default leaves a declared annotation alone
    # (block contract of contracts/C02.py, verified here as well)
    from cddvc import e1

    e1_refuted = e1.run_contracts(run, "contracts.C02", only={"cdd.shared.docstring_parsers:_infer_default#declared-type-kept"})
    if write_baseline:
        common.write_baseline("C03", [n for n, o in run.obligations.items() if o["status"] == "proved"])
    compare_baseline(run, set(run.obligations))
    fails = {}
    if not os.environ.get("VERIF_NO_BOUNDED"):
        pool = [(t, d, "the {name}") for t in TYPES for d in domain.SHAPES[t]]
        # prose with characters that grow under str.casefold() (sharp s): index arithmetic on a folded copy goes wrong
        pool += [(t, d, "Gr\u00f6\u00dfe des {name} (Ma\u00df)") for t in ("int", "float", "str") for d in domain.SHAPES[t]]
        irs = list(domain.irs(1, pool, suffix_defaults=True)) + list(domain.irs(2, pool, sample=40 if tier == "quick" else 600, seed=run.seed, suffix_defaults=True))
        irs += list(domain.irs(3, pool, sample=15 if tier == "quick" else 200, seed=run.seed + 1, suffix_defaults=True))[-(15 if tier == "quick" else 200):]
        irs = [i for i in irs if i["params"]]
        # identifiers with letters outside ASCII (legal Python 3 names): every format has to carry them as they are
        from collections import OrderedDict as _OD

        for names_ in (("gr\u00f6\u00dfe", "\u03bb_rate"), ("na\u00efve",), ("\u00e9t\u00e9", "x2")):
            base = domain.make_ir((("int", 5, "the {name}"), ("str", "s", "the {name}"))[:len(names_)])
            base["params"] = _OD((n_, dict(p_, doc="the value")) for n_, p_ in zip(names_, base["params"].values()))
            irs.append(base)
        # word-wrap sweep: descriptions of every length around the place where the 100-column wrapper of the ReST emitter breaks
        # the ':param x: <doc>. Defaults to "<several words>"' line inside the default
        words = "lorem ipsum dolor sit amet consectetur adipiscing elit sed do eiusmod tempor incididunt ut labore et dolore".split()
        for L in range(44, 84, 2 if tier == "quick" else 1):
            doc, i_ = "", 0
            while len(doc) < L:
                doc = (doc + " " + words[i_ % len(words)]).strip()
                i_ += 1
            doc = doc[:L].rstrip()
            irs.append(domain.make_ir((("str", "see you later", doc),)))
            irs.append(domain.make_ir((("Optional[str]", "hello big world", doc),)))
        res = common.pmap(chains_for, [(ir, run.seed + k, tier) for k, ir in enumerate(irs)], chunksize=1)
        n = sum(r[0] for r in res)
        raised = sum(r[1] for r in res)
        for r in res:
            for k, v in r[2].items():
                fails.setdefault(k, v)
        # a chain that ran to its end on the committed tree and now raises is a violation, not an out-of-domain input
        base = M._raise_baseline()
        for r in res:
            for seq, ir_, exc in r[4]:
                if len(seq) > 3 or len(ir_.get("params") or {}) > 1:
                    continue  # only the seed-independent part: one-parameter starts x the exhaustive sequences of length <= 3
                h = M._raise_hash(seq, ir_, exc)
                if write_baseline:
                    M._NEW_RAISES.add(h)
                elif base is not None and h not in base:
                    fails.setdefault(("newly-raises", "first-broken-by=" + seq[-1], exc, "-", "-"), (seq, ir_, "the chain %s ran on the committed tree and now raises %s" % (" -> ".join(seq), exc)))
        run.bounded.append({
            "name": "H1 / H2 of the Lean lemma checked by running conversion chains on the real emitters/parsers (bounded, NOT counted as proved)",
            "bound": "%d start interfaces (n = 1 exhaustive over %d shapes: scalar / Optional[scalar] / Literal types with signature-legal defaults; n = 2, 3 seeded samples; plus 3 interfaces whose parameter names have non-ASCII letters; plus a word-wrap sweep: str / Optional[str] parameters with a three-word default under descriptions of 44..83 characters) x every sequence of length 1..3 over {class, pydantic, function, argparse, docstring-rest} (155) + %d sampled sequences of length 4..5; %d chains raised" % (len(irs), len(pool), 12 if tier == "quick" else 80, raised),
            "rule": "one evaluation = one chain run to its end; distinct = distinct (start, sequence)",
            "evaluations": n, "distinct_nontrivial": n, "interfaces_reached_per_start_max": max((r[3] for r in res), default=0),
            "failures": [{"class": "|".join(map(str, k)), "what": v[2][:300]} for k, v in list(fails.items())[:6]],
        })
    for name, o in run.obligations.items():
        if o["status"] == REFUTED:
            if "_infer_default" in name:
                run.violation(name, "obligation refuted (%s)" % o["detail"], failing_input=common.infer_default_replay(), solver_output={"model": o.get("model"), "detail": o["detail"]})
            else:
                run.violation(name, o["detail"], solver_output={"lean": o["detail"]})
    for key, (seq, ir, what) in sorted(fails.items(), key=str):
        cls = "|".join(str(k) for k in key)
        run.violation("C03/bounded/chain", "[class %s] %s" % (cls, what), key={"class": cls}, failing_input={"sequence": seq, "ir": json.loads(json.dumps(ir, default=str))})
    M.flush_raise_baseline()
    return run.finish(explanation="PROVED (Lean): closure and commutation for chains of any length GIVEN the hop contracts H1/H2. BOUNDED only: H1/H2 on the real code — "
                      "so the result is unbounded in history length and bounded in the start set.")


def replay(path):
    d = json.load(open(path))
    inp = d.get("failing_input") or {}
    print("replaying %s: obligation %s" % (path, d["failed_obligation"]))
    if "ir" not in inp:
        return 1
    from collections import OrderedDict

    ir = inp["ir"]
    ir["params"] = OrderedDict(ir["params"])
    cur = ir
    for f in inp["sequence"]:
        cur = hop(f, cur)
    print("start %r\nend   %r" % (pi(ir), pi(cur)))
    return 0 if pi(cur) == pi(ir) else 1

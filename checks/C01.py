"""
C01 — docstring <-> interface round-trip in ReST, Google and NumPy styles.

Deciding steps (thin lemmas, E1, all strings): contracts of quote / unquote / code_quoted (pure_utils) and the
lemmas unquote(quote(s)) == s and quote(quote(s)) == quote(s) over those contracts.
Bounded (stand-in, NOT proved): the round-trip contract pi(parse(emit(ir, style, flags))) == pi'(ir) on the real
emitter/parser over the docstring-representable slice of IR(n) x 3 styles x emit_default_doc x emit_types.
"""

import json
import os

from cddvc import e1
from cddvc.report import Run, compare_baseline
from checks import common, domain, roundtrip as R, rt_matrix as M

TYPES = ["int", "float", "str", "bool", "Optional[int]", "Optional[str]", "Literal['x', 'y']", "List[str]", "Union[int, str]", "dict", domain.LONG_LITERAL, domain.LONG_UNION, "Optional[bool]", "Union[bool, str]"]


def contract(cell, ir):
    style, edd, et = cell
    back, text = R.hop_docstring(ir, style=style, emit_default_doc=edd, emit_types=et)
    want = json.loads(json.dumps(ir))
    out = []
    for n, p in want["params"].items():
        if not edd:
            p.pop("default", None)  # nothing in the text can bring the default back
        if not et:
            p.pop("typ", None)
    for n, p in back["params"].items():
        p["doc"] = M.strip_default_clause(p.get("doc"))
        if not et:
            p.pop("typ", None)  # the parser may infer a type from the default; that is not part of the contract
    for n, p in want["params"].items():
        p["doc"] = M.strip_default_clause(p.get("doc"))
    for side in (want, back):
        for n, p in ((side.get("returns") or {}) or {}).items():
            p["doc"] = M.strip_default_clause(p.get("doc"))
            if not et:
                p.pop("typ", None)
            if not edd:
                p.pop("default", None)
    a, b = R.interface(want, keep_returns=True), R.interface(back, keep_returns=True)
    d = R.diff(a, b)
    if d:
        field = "names" if d.startswith("parameter names") else ("returns" if d.startswith("return entry") else (d.split(":")[0] if d.startswith("returns.") else d.split(":")[0].split(".")[-1]))
        src = ir["params"].get(d.split(".")[0], {}) if field not in ("names", "returns") and not field.startswith("returns.") else {}
        wrapped = et and not src and any(len(p.get("typ") or "") > 85 for p in ir["params"].values())
        out.append((("roundtrip", style, "defaults_in_doc=%s" % edd, "types=%s" % et, field, M.typ_class(src.get("typ")) if src else ("wrapped-type" if wrapped else "-"), M.default_class(src) if src else "-"),
                    "%s; emitted docstring:\n%s" % (d, text[-300:]), {"param_doc": src.get("doc")} if src else None))
    return out


def marker_replay(_name):
    """The marker-set lemma's claim on the real emitter / parser: numeric defaults whose repr uses + - . e come back as numbers"""
    for typ_, dflt in (("Optional[bool]", True), ("Optional[bool]", False), ("Union[bool, str]", False), ("Optional[int]", domain.NONE)):
        for cell in (("google", True, True), ("rest", True, True), ("numpydoc", True, True)):
            ir = domain.make_ir(((typ_, dflt, "the {name}"),))
            try:
                r = [x for x in contract(cell, ir) if x[0][4] == "typ"]
            except Exception:
                r = []
            if r and "adhoc" in _name:
                return {"cell": list(cell), "ir": json.loads(json.dumps(ir)), "what": r[0][1][:300]}
    if "adhoc" in _name:
        return None
    if "signed-decimal" in _name:
        # untyped and Optional[int] negative defaults through the real emitter / parser (the typed int path does not use the branch)
        for typ_, cell in (("Optional[int]", ("rest", True, True)), ("Optional[int]", ("google", True, True)), ("int", ("rest", True, False)), ("Optional[int]", ("numpydoc", True, True))):
            for dflt in (-3, -2, -10):
                ir = domain.make_ir(((typ_, dflt, "the {name}"),))
                try:
                    r = [x for x in contract(cell, ir) if x[0][4] == "default"]
                except Exception:
                    r = []
                if r:
                    return {"cell": list(cell), "ir": json.loads(json.dumps(ir)), "what": r[0][1][:300]}
        return None
    for dflt in (1e16, -2.5e-07, 1e-05, 3, -3, 2.5, 1.5e+300):
        for cell in (("google", True, True), ("rest", True, True), ("numpydoc", True, True)):
            ir = domain.make_ir((("float" if isinstance(dflt, float) else "int", dflt, "the {name}"),))
            try:
                r = contract(cell, ir)
            except Exception as ex:
                r = [(("raises",), "%s: %s" % (type(ex).__name__, ex), None)]
            if r:
                return {"cell": list(cell), "ir": json.loads(json.dumps(ir)), "what": r[0][1][:300]}
    return None


def main(tier, write_baseline=False):
    run = Run("C01", tier, "other", checker_cmd=common.checker_cmd("C01", tier))
    run.confirm_abstracted = (':set_default_doc/',)  # refutations of these exact contracts count only with an input that fails on the real code (report.Run.violation)
    M.RAISE_CTX.update(prop="C01", write=bool(write_baseline))
    run.trusted_base.update(["cddvc E1 (string VCs with Python slice/index semantics)", "z3 5.1"])
    refuted = e1.run_contracts(run, "contracts.C01")
    # the emit half of "defaults carried in the prose": set_default_doc (contract in contracts/C08.py, shared with C04 / C08)
    refuted += e1.run_contracts(run, "contracts.C08", only={"cdd.shared.defaults_utils:set_default_doc"})
    refuted, rule_inputs = run.confirm_or_undecide(refuted, marker_replay)
    if write_baseline:
        common.write_baseline("C01", [n for n, o in run.obligations.items() if o["status"] == "proved"])
    compare_baseline(run, set(run.obligations))
    fails = {}
    if not os.environ.get("VERIF_NO_BOUNDED"):
        pool = domain.param_pool(TYPES, docs=["the {name}", "The {name} of it.", "many things, with a comma", "first line\nsecond line of the {name}", "ratio: a to b", "Gr\u00f6\u00dfe des {name} (Ma\u00df)",
                                                  # prose about optionality: only a description that STARTS with the capitalised word is
                                                  # (by a documented heuristic, a known finding) allowed to change the type
                                                  "optional {name}, in seconds", "the {name}, optional", "Optional {name} of it",
                                                  # no description at all (an interface derived from a bare signature)
                                                  ""])
        irs = list(domain.irs(1, pool, suffix_defaults=True)) + list(domain.irs(3 if tier == "thorough" else 2, pool, sample=600 if tier == "quick" else 4000, seed=run.seed, suffix_defaults=True))
        irs += [ir for ir in domain.irs(1, pool[:6], suffix_defaults=True, returns=(("typ", "int"), ("doc", "the result")))]
        # word-wrap sweep: descriptions of every length around the wrap column, a defaulted parameter that is not the last one
        # (ReST does not require defaults to form a suffix)
        words = "lorem ipsum dolor sit amet consectetur adipiscing elit sed do eiusmod tempor incididunt ut labore et dolore magna aliqua".split()
        sweep = []
        for L in range(55, 104):
            doc, i = "", 0
            while len(doc) < L:
                doc = (doc + " " + words[i % len(words)]).strip()
                i += 1
            doc = doc[:L].rstrip()
            sweep.append(domain.make_ir((("int", 7, doc), ("str", domain.ABSENT, "the {name}"))))
        irs_rest_only = sweep
        cells = [(s, edd, et) for s in ("rest", "google", "numpydoc") for edd in (True, False) for et in (True, False)]
        n, raised, fails = M.run(cells, irs, contract)
        n2, raised2, fails2 = M.run([c for c in cells if c[0] == "rest"], irs_rest_only, contract)
        n, raised = n + n2, raised + raised2
        for k, v in fails2.items():
            fails.setdefault(k + ("wrap-sweep",), v)
        run.bounded.append({
            "name": "round-trip contract on the real docstring emitter/parser (bounded, NOT counted as proved)",
            "bound": "%d interface descriptions (n <= 1 exhaustive over %d parameter shapes, n <= %d seeded sample, 6 with a return entry) x 3 styles x emit_default_doc x emit_types; defaults form a suffix; plus a ReST word-wrap sweep (49 description lengths 55..103, first parameter defaulted); %d evaluations raised" % (len(irs), len(pool), 3 if tier == "thorough" else 2, raised),
            "rule": "one evaluation per (interface, style, flags); non-trivial = at least one parameter",
            "evaluations": n, "distinct_nontrivial": len({json.dumps(domain.project(i), default=str) for i in irs if i["params"]}) * len(cells),
            "failures": [{"class": "|".join(map(str, k)), "what": v[2][:300]} for k, v in list(fails.items())[:6]],
        })
    seen = set()
    for o in refuted:
        if o["name"] in seen:
            continue
        seen.add(o["name"])
        fi = rule_inputs.get(o["name"]) or (common.set_default_doc_replay() if ":set_default_doc/" in o["name"] else None) or common.model_replay("contracts.C08" if ":set_default_doc/" in o["name"] else "contracts.C01", o)
        run.violation(o["name"], "obligation refuted by %s on path %s%s" % (o["backend"], " ".join(o["trace"]), (": " + "; ".join(o.get("notes") or [])) if o.get("notes") else ""),
                      failing_input=fi, solver_output={"model": o["model"], "smt2": (o["smt2"] or "")[:4000], "notes": o.get("notes")})
    M.report(run, "C01/bounded", fails)
    M.flush_raise_baseline()
    common.apply_controls(run, tier)
    return run.finish(explanation="PROVED (thin lemmas): the quoting helpers meet their contracts; unquote(quote(s)) == s and quote is idempotent. "
                      "BOUNDED only: the round-trip itself — the scanners and parsers (_scan_phase_*, _parse_phase_*, extract_default) are string-heavy code outside the engine's reach.")


def replay(path):
    d = json.load(open(path))
    inp = d.get("failing_input") or {}
    print("replaying %s: obligation %s" % (path, d["failed_obligation"]))
    if "ir" not in inp:
        return 1
    from collections import OrderedDict

    ir = inp["ir"]
    ir["params"] = OrderedDict(ir["params"])
    r = contract(tuple(inp["cell"]), ir)
    print(r)
    return 1 if r else 0

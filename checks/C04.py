"""
C04 — emitted code runs and exposes exactly the described interface.

The specification of this property is the interpreter itself (inspect.signature, argparse, class attributes), so
no contract within reach of the deductive engine expresses it.  What is decided deductively is thin:
  S1-S3 (rule engine, shape contracts): each of the class, function and argparse emitters builds exactly one element
         per entry of intermediate_repr["params"], in order (map over .items() with no filter other than *kwargs for
         the function signature).
Everything else is a BOUNDED stand-in, labelled as such and never counted as proved: the emitted source is executed in
a real interpreter and compared with the description over the executable slice of IR(n).
"""

import argparse
import ast
import inspect
import json
import re
import os
import typing

from cddvc import extract
from cddvc.report import PROVED, REFUTED, UNDECIDED, Run, compare_baseline
from checks import common, domain, roundtrip as R, rt_matrix as M

TYPES = ["int", "float", "str", "bool", "Optional[int]", "Optional[str]", "Literal['x', 'y']", "Literal[0, 1, 2]", "List[str]", "Union[int, str]", "int | None", "collections.OrderedDict"]


def shape_obligations():
    obs = []
    f, _s, _p = extract.find_def("cdd.argparse_function.emit", "argparse_function")
    txt = ast.unparse(f) if f is not None else ""
    ok = "map(partial(cdd.shared.ast_utils.param2argparse_param, word_wrap=word_wrap, emit_default_doc=emit_default_doc), intermediate_repr['params'].items())" in txt
    obs.append(("argparse_function/one-add_argument-per-parameter", ok if f is not None else None, "the body maps param2argparse_param over intermediate_repr['params'].items() (one add_argument call per parameter, in order)"))
    f, _s, _p = extract.find_def("cdd.class_.emit", "class_")
    txt = ast.unparse(f) if f is not None else ""
    ok = "map(cdd.shared.ast_utils.param2ast, (intermediate_repr.get('params') or OrderedDict()).items())" in txt
    obs.append(("class_/one-attribute-per-parameter", ok if f is not None else None, "the class body maps param2ast over the parameters (one attribute per parameter, in order)"))
    f, _s, _p = extract.find_def("cdd.function.emit", "function")
    ok = None
    if f is not None:
        txt = ast.unparse(f)
        ok = ("params_no_kwargs = tuple(filter(lambda param: not param[0].endswith('kwargs'), intermediate_repr['params'].items()))" in txt
              and txt.count("params_no_kwargs") >= 3 and "arg=param[0]), params_no_kwargs))" in txt.replace("\n", ""))
    obs.append(("function/one-arg-per-non-kwargs-parameter", ok, "args and defaults are both mapped from the same tuple params_no_kwargs (every parameter except *kwargs, in order)"))
    # the annotation node of every emitter comes out of the parser: ast_parse_fix returns ast.parse(<text>).body[0].value on
    # every path, so unparsing and re-parsing it gives the same node (what ast.parse builds is a fixpoint of unparse/parse)
    f, _s, _p = extract.find_def("cdd.shared.emit.utils.emitter_utils", "ast_parse_fix")
    ok = None
    if f is not None:
        rets = [n for n in ast.walk(f) if isinstance(n, ast.Return)]
        ok = bool(rets) and all(r.value is not None and re.fullmatch(r"ast\.parse\(.*\)\.body\[0\]\.value", ast.unparse(r.value), re.S) for r in rets)
    obs.append(("ast_parse_fix/annotation-node-comes-from-the-parser", ok, "every return of ast_parse_fix is ast.parse(...).body[0].value"))
    return obs


def py_default(d):
    if d == domain.NONE:
        return None
    return d


def exposes(cell, ir):
    fmt, style = cell[0], cell[1]
    edd = bool(cell[2]) if len(cell) > 2 else False  # emit_default_doc: "Defaults to ..." written into the docstring
    ns = {}
    exec("from typing import *\nimport argparse\nimport collections\nfrom argparse import ArgumentParser\n", ns)
    out = []

    def key(kind, p):
        return (kind, fmt, style, M.typ_class(p.get("typ")), M.default_class(p))

    if fmt == "class":
        import cdd.class_.emit

        node = cdd.class_.emit.class_(json.loads(json.dumps(ir)) and ir, class_name="Conf", docstring_format=style, emit_default_doc=edd)
        text = R.to_src(node)
        code = compile(text, "<emitted>", "exec")
        exec(code, ns)
        cls = ns["Conf"]
        ann = getattr(cls, "__annotations__", {})
        for n, p in ir["params"].items():
            if n not in ann:
                out.append((key("annotation-missing", p), "class attribute %s has no annotation\n%s" % (n, text), None))
            elif "typ" in p and ann[n] != eval(p["typ"], ns):
                out.append((key("annotation", p), "annotation of %s is %r, described %s" % (n, ann[n], p["typ"]), None))
            if "default" in p:
                if not hasattr(cls, n) or (getattr(cls, n) != py_default(p["default"]) or type(getattr(cls, n)) is not type(py_default(p["default"]))):
                    out.append((key("default", p), "class attribute %s is %r, described default %r\n%s" % (n, getattr(cls, n, "<missing>"), p["default"], text[-300:]), None))
    elif fmt == "function":
        import cdd.function.emit

        node = cdd.function.emit.function(ir, function_name="conf", function_type="static", docstring_format=style, emit_as_kwonlyargs=False, emit_default_doc=edd)
        text = R.to_src(node)
        exec(compile(text, "<emitted>", "exec"), ns)
        sig = inspect.signature(ns["conf"])
        if list(sig.parameters) != list(ir["params"]):
            out.append((("signature-names", fmt, style, "-", "-"), "signature %s, described %r" % (sig, list(ir["params"])), None))
        for n, p in ir["params"].items():
            sp = sig.parameters.get(n)
            if sp is None:
                continue
            if "default" in p:
                if sp.default is inspect._empty or sp.default != py_default(p["default"]) or type(sp.default) is not type(py_default(p["default"])):
                    out.append((key("default", p), "parameter %s has default %r, described %r" % (n, sp.default, p["default"]), None))
            elif sp.default is not inspect._empty and sp.default is not None:
                out.append((key("default-invented", p), "parameter %s has default %r, none described" % (n, sp.default), None))
    else:
        import cdd.argparse_function.emit

        node = cdd.argparse_function.emit.argparse_function(ir, docstring_format=style, emit_default_doc=edd)
        text = R.to_src(node)
        exec(compile(text, "<emitted>", "exec"), ns)
        parser = argparse.ArgumentParser(prog="x")
        ns["set_cli_args"](parser)
        actions = {a.dest: a for a in parser._actions if a.dest != "help"}
        if list(actions) != list(ir["params"]):
            out.append((("options", fmt, style, "-", "-"), "options %r, described %r" % (list(actions), list(ir["params"])), None))
        argv = []
        for n, p in ir["params"].items():
            a = actions.get(n)
            if a is None:
                continue
            mem = None
            if p.get("typ", "").startswith("Literal["):
                mem = list(ast.literal_eval("(%s,)" % p["typ"][len("Literal["):-1]))
            if mem is not None and (a.choices is None or list(a.choices) != mem):
                out.append((key("choices", p), "option --%s has choices %r, described %r\n%s" % (n, a.choices, mem, text[-400:]), None))
            if "default" in p and py_default(p["default"]) is not None:
                if a.default != py_default(p["default"]) or type(a.default) is not type(py_default(p["default"])):
                    out.append((key("default", p), "option --%s has default %r, described %r" % (n, a.default, p["default"]), None))
            # the project's convention: an option is required exactly when its type is not Optional[...]
            want_req = not p.get("typ", "").startswith("Optional[") and not (p.get("typ") == "bool" and "default" not in p)  # a bare bool is a store_true flag
            if bool(a.required) != want_req:
                out.append((key("required", p), "option --%s has required=%r, described type %s" % (n, a.required, p.get("typ")), None))
            # type conversion: a described int / float / complex / bool (also as Optional[...] or `T | None`) is converted by that type
            base_t = re.sub(r"^Optional\[(.*)\]$", r"\1", p.get("typ", "")).replace(" | None", "")
            if base_t in ("int", "float", "complex", "bool") and not isinstance(a, argparse._StoreTrueAction) and a.type is not eval(base_t):
                out.append((key("type-conversion", p), "option --%s converts with %r, described type %s\n%s" % (n, a.type, p.get("typ"), text[-300:]), None))
            if domain.norm_doc(p.get("doc")) and domain.norm_doc(p.get("doc")) not in " ".join((a.help or "").split()):
                out.append((key("help", p), "help of --%s is %r, described %r" % (n, a.help, p.get("doc")), None))
            if a.required:
                argv += ["--" + n, str((mem or [{"int": 1, "float": 1.5, "str": "s", "bool": True}.get(p.get("typ", "str"), "s")])[0])]
        try:
            got = parser.parse_args(argv)
            for n, p in ir["params"].items():
                if "default" in p and py_default(p["default"]) is not None and n in actions and not actions[n].required and getattr(got, n) != py_default(p["default"]):
                    out.append((key("parsed-default", p), "parsing no optional arguments gives %s=%r, described default %r" % (n, getattr(got, n), p["default"]), None))
        except SystemExit:
            out.append((("parse_args-exits", fmt, style, "-", "-"), "parse_args(%r) exits" % argv, None))
    re1 = ast.dump(ast.parse(text))
    re2 = ast.dump(ast.parse(ast.unparse(ast.parse(text))))
    if re1 != re2:
        out.append((("unparse-reparse", fmt, style, "-", "-"), "unparse/re-parse of the emitted text is not stable", None))
    # "unparsing the emitted AST and re-parsing the text gives back an equal AST": the emitted node itself against its text
    em, back = ast.dump(node), ast.dump(ast.parse(text).body[0])
    if em != back:
        i_ = next((i for i, (x, y) in enumerate(zip(em, back)) if x != y), min(len(em), len(back)))

        class _Fold(ast.NodeTransformer):
            def visit_UnaryOp(self, n_):
                self.generic_visit(n_)
                if isinstance(n_.op, ast.USub) and isinstance(n_.operand, ast.Constant) and isinstance(n_.operand.value, (int, float, complex)) and not isinstance(n_.operand.value, bool):
                    return ast.Constant(value=-n_.operand.value)
                return n_

        # the one difference class known on the pinned tree: a negative number is emitted as Constant(-3), the parser reads
        # `-3` as UnaryOp(USub, Constant(3)); anything left after folding that is a different class
        only_neg = ast.dump(_Fold().visit(ast.parse(text).body[0])) == em
        out.append((("emitted-ast-differs-from-its-text", fmt, style, "negative-literal-only" if only_neg else "other", "-"), "the emitted AST is not the AST of its own text: ...%s... vs ...%s..." % (em[max(0, i_ - 60):i_ + 60], back[max(0, i_ - 60):i_ + 60]), None))
    return out


def main(tier, write_baseline=False):
    run = Run("C04", tier, "other", checker_cmd=common.checker_cmd("C04", tier))
    run.confirm_abstracted = (':set_default_doc/',)  # refutations of these exact contracts count only with an input that fails on the real code (report.Run.violation)
    M.RAISE_CTX.update(prop="C04", write=bool(write_baseline))
    run.trusted_base.update(["rule engine of checks/C04.py (shape contracts of the three emitters)", "cddvc E1 (record with presence bits) for the frame lemma on set_default_doc", "CPython, inspect.signature and argparse as the oracle of the bounded part"])
    refuted = []
    # frame lemma the class / pydantic emitters rely on: they hand their own param dicts to set_default_doc BEFORE emitting the
    # values, so it must write nothing but the description (contract of contracts/C08.py, verified here under C04 as well)
    from cddvc import e1

    e1_refuted = e1.run_contracts(run, "contracts.C08")
    # the class / pydantic emitters write a str default through pure_utils.quote and read the literal back with one pair of
    # quotes removed: the exact contract of `quote` (contracts/C01.py: the text itself between two marks, nothing rewritten
    # inside) is what makes the attribute hold the described default -- verified here under C04 as well
    e1_refuted += e1.run_contracts(run, "contracts.C01", only={"cdd.shared.pure_utils:quote", "cdd.shared.pure_utils:unquote"})
    for name, ok, detail in shape_obligations():
        st = UNDECIDED if ok is None else (PROVED if ok else REFUTED)
        run.add("C04/shape/" + name, st, "rule-engine", detail=detail)
        if ok is False:
            refuted.append(("C04/shape/" + name, detail))
    def shape_replay(_name):
        # the clause the shape contracts carry (one emitted element per parameter, in order), by executing emitted programs
        pool_ = domain.param_pool(["int", "str", "bool", "Optional[int]", "int | None", "collections.OrderedDict"], docs=["the {name}"])
        irs_ = list(domain.irs(1, pool_, suffix_defaults=True)) + list(domain.irs(3, pool_, sample=60, seed=1, suffix_defaults=True))
        # parameters the emitters might be tempted to skip: no description, private name, kwargs-like name
        from collections import OrderedDict

        for names_, docs_ in ((("alpha", "_hidden", "b_id"), ("the alpha", "the hidden", "the b_id")), (("alpha", "quiet", "b_id"), ("the alpha", "", "the b_id")),
                              (("_a", "b"), ("", "the b")), (("alpha", "extra_kwargs_like", "b_id"), ("the alpha", "the extra", "the b_id"))):
            irs_.append({"name": "Conf", "doc": "Summary of it.", "returns": None,
                         "params": OrderedDict((n_, dict({"typ": "int", "default": i_ + 1}, **({"doc": d_} if d_ else {}))) for i_, (n_, d_) in enumerate(zip(names_, docs_)))})
        # legal identifiers with letters outside ASCII
        irs_.append({"name": "Conf", "doc": "Summary of it.", "returns": None,
                     "params": OrderedDict((n_, {"typ": "int", "default": i_ + 1, "doc": "the value"}) for i_, n_ in enumerate(("gr\u00f6\u00dfe", "\u03bb_rate", "plain")))})
        cells_ = [(f, s_) for f in ("class", "function", "argparse") for s_ in ("rest",)]
        _n, _r, fl = M.run(cells_, irs_, exposes)
        for key, (cell, ir, what) in fl.items():
            cls = "|".join(str(k) for k in key)
            if run.match_finding({"class": cls, "obligation": "C04/bounded/%s" % key[0]}) is None:
                return {"cell": list(cell), "ir": json.loads(json.dumps(ir, default=str)), "what": what[:300]}
        return None

    refuted, shape_inputs = run.confirm_or_undecide(refuted, shape_replay, is_rule=lambda n: True)
    if write_baseline:
        common.write_baseline("C04", [n for n, o in run.obligations.items() if o["status"] == "proved"])
    compare_baseline(run, set(run.obligations))
    fails = {}
    if not os.environ.get("VERIF_NO_BOUNDED"):
        pool = domain.param_pool(TYPES, docs=["the {name}", "The {name} of it."])
        irs = list(domain.irs(1, pool, suffix_defaults=True)) + list(domain.irs(3 if tier == "thorough" else 2, pool, sample=150 if tier == "quick" else 1500, seed=run.seed, suffix_defaults=True))
        undocumented = [domain.make_ir(c, doc="") for c in [(("int", 1, None),), (), (("str", domain.ABSENT, None), ("int", 2, None))]]
        # str defaults with quote characters inside (not wrapped in a matching pair): the emitters must not rewrite them
        undocumented += [domain.make_ir(((t_, d_, "the {name}"),)) for t_ in ("str", "Optional[str]") for d_ in ('say "hi" to them', 'a"b', "it's", 'w"')]
        cells = [(f, s, e) for f in ("class", "function", "argparse") for s in ("rest", "google", "numpydoc") for e in (False, True)]
        n, raised, fails = M.run(cells, irs + undocumented, exposes)
        run.bounded.append({
            "name": "execution of the emitted source in a real interpreter, compared with the description (BOUNDED; this is the only place the property is decided)",
            "bound": "%d interface descriptions (executable slice: %d shapes incl. Literal of ints, n <= 1 exhaustive, n <= %d sampled, 3 undocumented ones) x {class, function, argparse} x 3 styles x emit_default_doc on/off; %d evaluations raised (e.g. the emitted text does not compile)" % (len(irs) + 3, len(pool), 3 if tier == "thorough" else 2, raised),
            "rule": "one evaluation = emit + compile + exec + introspection of one (interface, emitter, style)",
            "evaluations": n, "distinct_nontrivial": n - raised, "raised": raised,
            "failures": [{"class": "|".join(map(str, k)), "what": v[2][:300]} for k, v in list(fails.items())[:6]],
        })
        # an emitted program that does not even compile is a violation, not an out-of-domain input
        cres = common.pmap(compiles, [(c, ir) for c in cells for ir in irs[:60] + undocumented])
        for (c, ir), r in zip([(c, ir) for c in cells for ir in irs[:60] + undocumented], cres):
            if r:
                fails.setdefault(("does-not-compile", c[0], c[1], "documented" if ir["doc"] or any(p.get("doc") for p in ir["params"].values()) else "undocumented", str(len(ir["params"]))), (c, ir, r))
    for name, detail in refuted:
        run.violation(name, detail, failing_input=shape_inputs.get(name), solver_output={"rule": detail})
    seen_ = set()
    for o in e1_refuted:
        if o["name"] in seen_:
            continue
        seen_.add(o["name"])
        cand = next(((c_, ir_, w_) for k_, (c_, ir_, w_) in fails.items() if k_[0] == "default"), None)
        run.violation(o["name"], "obligation refuted by %s on path %s" % (o["backend"], " ".join(o["trace"])),
                      failing_input=(common.set_default_doc_replay() if ":set_default_doc/" in o["name"] else None) or common.model_replay("contracts.C08", o) or common.model_replay("contracts.C01", o) or ({"cell": list(cand[0]), "ir": json.loads(json.dumps(cand[1], default=str)), "what": cand[2][:300]} if cand else None),
                      solver_output={"model": o["model"], "smt2": (o["smt2"] or "")[:3000]})
    M.report(run, "C04/bounded", fails)
    M.flush_raise_baseline()
    common.apply_controls(run, tier)
    return run.finish(explanation="The property's specification is the interpreter; no contract within reach of the deductive engine carries it. PROVED: only three shape contracts (one emitted element per parameter). "
                      "BOUNDED: everything the statement says, by executing the emitted source over the stated domain.")


def compiles(args):
    cell_, ir = args
    fmt, style = cell_[0], cell_[1]
    try:
        import cdd.argparse_function.emit
        import cdd.class_.emit
        import cdd.function.emit

        if fmt == "class":
            node = cdd.class_.emit.class_(ir, class_name="Conf", docstring_format=style)
        elif fmt == "function":
            node = cdd.function.emit.function(ir, function_name="conf", function_type="static", docstring_format=style)
        else:
            node = cdd.argparse_function.emit.argparse_function(ir, docstring_format=style)
        text = R.to_src(node)
    except Exception:
        return None
    try:
        compile(text, "<emitted>", "exec")
        return None
    except SyntaxError as ex:
        return "the emitted source does not compile: %s\n%s" % (ex, text[:300])


def replay(path):
    d = json.load(open(path))
    inp = d.get("failing_input") or {}
    print("replaying %s: obligation %s" % (path, d["failed_obligation"]))
    if "ir" not in inp:
        return 1
    from collections import OrderedDict

    ir = inp["ir"]
    ir["params"] = OrderedDict(ir["params"])
    r = compiles((tuple(inp["cell"]), ir)) or exposes(tuple(inp["cell"]), ir)
    print(r)
    return 1 if r else 0

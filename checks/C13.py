"""
C13 — sync_properties updates exactly the selected property.

Deciding step (lemma, E1 block contract, all inputs): the default-alignment arithmetic of
RewriteAtQuery.visit_FunctionDef — if a default is overwritten it is the default OF THE TARGET PARAMETER,
and the positional parameter list is untouched by that block; plus structural side conditions
(annotate_ancestry's _idx numbering, the idx lookup ranges over positional parameters only).
Bounded (stand-in, NOT proved): whole-file AST diff on generated module pairs over all valid dotted paths,
wrap on/off, eval on/off, several calls per process on the same input file.
"""

import ast
import copy
import json
import os
import re
import shutil
import tempfile

from cddvc import e1, extract
from cddvc.report import PROVED, REFUTED, UNDECIDED, Run, compare_baseline
from checks import common

INPUT_SRC = '''class In(object):
    """
    Input conf

    :cvar x: the x
    :cvar s: the s
    :cvar e: the e
    :cvar b: the b
    """

    x: int = 7
    s: str = "abc"
    e: complex = 5j
    b: Optional[float] = None


LIT = "one"
VERBOSE = (0, 1, 2, True, False)
MODES = ("min", "max", "min")
PAIR = [1, 1.0]
GROWN = ("adam", "sgd")
GROWN += ("rmsprop",)


def src(p: float = 1.5, q: bool = True):
    """
    :param p: the p
    :param q: the q
    """
    return p
'''

OUTPUT_SRCS = [
    "def keep(x, b=3):\n    return x\n",
    "def keep(a, x=1, b=3):\n    y = a\n    return x\n",
    "def keep(a, b=3, x=1):\n    return x\n\n\ndef other(x=9, s=8):\n    return s\n",
    "class K(object):\n    z: int = 0\n\n    def keep(self, x, b=3):\n        return x\n\n    @classmethod\n    def make(cls, a, x=2, b=3, *, s='q', e=4):\n        return a\n",
    "def keep(a, b=2, c=3, *, d=4, e: int = 5, x=6):\n    return a\n",
    "class A(object):\n    x: str = 'old'\n    s: int = 1\n    other: float = 2.0\n\n\nUNTOUCHED = [1, 2, 3]\n",
    "def keep(a, s='q', b=3, *args, p=0.5, **kw):\n    '''doc'''\n    return s\n",
    # positional-only parameters (the default slot arithmetic counts args.args only)
    "def keep(a, /, b=1, x=2, s=4):\n    return a\n\n\nclass P(object):\n    def keep(self, /, b=1, x=2):\n        return b\n",
    # string literals whose value is the name of a target or of a sibling, in front of it (annotate_ancestry gives a literal
    # the location <last named node> + [value], which is the location of the attribute / parameter of that name)
    "class A(object):\n    'x'\n    alias: str = 'x'\n    x: str = 'old'\n    s: int = 1\n\n\nNAMES = ['x', 's', 'alias']\n",
    "def keep(a, x=1, b='x', s='a'):\n    return 'x'\n",
    # module-level statements named like the target's last component, in front of it (a query must match the WHOLE location)
    "x = 0\ns: int = 7\n\n\nclass A(object):\n    x: str = 'old'\n    s: int = 1\n\n\nclass B(object):\n    def keep(self, x, s=2):\n        return x\n",
    "def x():\n    return 1\n\n\nclass s(object):\n    pass\n\n\nclass A(object):\n    x: str = 'old'\n    s: int = 1\n",
]
INPUT_PARAMS = ["In.x", "In.s", "In.e", "src.p", "src.q"]
EVAL_PARAMS = ["LIT", "VERBOSE", "MODES", "PAIR", "GROWN"]  # GROWN: extended after its last plain assignment


def locate(tree, dotted):
    """-> (kind, container, index/None, fn) for a dotted output path, or None"""
    parts = dotted.split(".")
    node = tree
    for i, p in enumerate(parts):
        nxt = None
        for ch in getattr(node, "body", []):
            if isinstance(ch, (ast.ClassDef, ast.FunctionDef)) and ch.name == p:
                nxt = ch
                break
            if isinstance(ch, ast.AnnAssign) and isinstance(ch.target, ast.Name) and ch.target.id == p and i == len(parts) - 1:
                return ("attr", node, node.body.index(ch), None)
        if nxt is None:
            if isinstance(node, ast.FunctionDef) and i == len(parts) - 1:
                for lst in (node.args.args, node.args.kwonlyargs):
                    for j, a in enumerate(lst):
                        if a.arg == p:
                            return ("param", lst, j, node)
            return None
        node = nxt
    return None


def targets(tree):
    out = []

    def walk(node, prefix):
        for ch in getattr(node, "body", []):
            if isinstance(ch, ast.ClassDef):
                walk(ch, prefix + [ch.name])
            elif isinstance(ch, ast.FunctionDef):
                for a in ch.args.args + ch.args.kwonlyargs:
                    if a.arg not in ("self", "cls"):
                        out.append(".".join(prefix + [ch.name, a.arg]))
            elif isinstance(ch, ast.AnnAssign) and isinstance(ch.target, ast.Name) and prefix:
                out.append(".".join(prefix + [ch.target.id]))

    walk(tree, [])
    return out


def blank(tree, dotted):
    """Erase the selected slot (name, annotation, its OWN default / value) so that everything else can be compared"""
    loc = locate(tree, dotted)
    if loc is None:
        return None
    kind, cont, j, fn = loc
    if kind == "attr":
        cont.body[j] = ast.Pass()
    else:
        a = cont[j]
        a.arg, a.annotation, a.type_comment = "__SLOT__", None, None
        if cont is fn.args.args:
            k = j - (len(fn.args.args) - len(fn.args.defaults))
            if 0 <= k < len(fn.args.defaults):
                fn.args.defaults[k] = ast.Constant(value="__OWN_DEFAULT__")
        else:
            if fn.args.kw_defaults[j] is not None:
                fn.args.kw_defaults[j] = ast.Constant(value="__OWN_DEFAULT__")
    return ast.dump(tree)


def one_call(d, inp_path, out_src, ip, op, wrap, ev):
    """-> None or (kind, what)"""
    from cdd.compound.sync_properties import sync_properties

    outp = os.path.join(d, "out.py")
    open(outp, "wt").write(out_src)
    before_in = open(inp_path, "rb").read()
    try:
        sync_properties(input_filename=inp_path, input_params=(ip,), input_eval=ev, output_filename=outp, output_params=(op,), output_param_wrap=wrap)
    except Exception as ex:
        return ("raises", "%s: %s" % (type(ex).__name__, str(ex)[:150]))
    if open(inp_path, "rb").read() != before_in:
        return ("input-modified", "the input file was modified")
    res_src = open(outp).read()
    try:
        res = ast.parse(res_src)
    except SyntaxError as ex:
        return ("invalid-output", "output is not valid Python: %s" % ex)
    new_name = op.split(".")[-1] if ev else ip.split(".")[-1]
    new_path = ".".join(op.split(".")[:-1] + [new_name])
    want = blank(ast.parse(out_src), op)
    got = blank(copy.deepcopy(res), new_path)
    if got is None:
        return ("slot-missing", "the selected location %s does not carry the input's name %r afterwards:\n%s" % (op, new_name, res_src))
    if want != got:
        return ("other-code-changed", "something other than the selected slot changed: %s -> %s\nbefore: %s\nafter:  %s" % (ip, op, out_src.strip(), res_src.strip()))
    # the slot took the input's annotation (wrapped if asked)
    kind, cont, j, fn = locate(res, new_path)
    node = cont.body[j] if kind == "attr" else cont[j]
    ann = ast.unparse(node.annotation) if node.annotation is not None else None
    if not ev:
        src_ann = {"In.x": "int", "In.s": "str", "In.e": "complex", "src.p": "float", "src.q": "bool"}[ip]
        exp = wrap.format(output_param=src_ann) if wrap else src_ann
        if ann is None or ast.dump(ast.parse(ann)) != ast.dump(ast.parse(exp)):
            return ("annotation", "slot annotation is %r, expected %r (%s -> %s, wrap=%r)" % (ann, exp, ip, op, wrap))
    elif ann is None or "Literal" not in ann:
        return ("annotation", "eval mode: slot annotation is %r, expected a Literal" % ann)
    else:
        # the Literal lists exactly the members of the evaluated value: same values AND types, same order, repeats kept
        ns = {}
        exec("from typing import Optional\n\n" + INPUT_SRC, ns)
        val = ns[ip]
        want_m = [val] if isinstance(val, str) else list(val)
        try:
            tree = ast.parse(ann, mode="eval").body
            lit = next(n_ for n_ in ast.walk(tree) if isinstance(n_, ast.Subscript) and ast.unparse(n_.value).endswith("Literal"))
            got_m = ast.literal_eval(lit.slice)
            got_m = list(got_m) if isinstance(got_m, tuple) else [got_m]
        except Exception as ex:
            return ("annotation", "eval mode: cannot read the members of %r (%s)" % (ann, ex))
        if [(type(x).__name__, x) for x in got_m] != [(type(x).__name__, x) for x in want_m]:
            if isinstance(val, str) and got_m == list(val):
                return ("annotation-eval-str", "eval mode: %s evaluates to the string %r and the slot got its CHARACTERS: %s" % (ip, val, ann))
            return ("annotation", "eval mode: %s evaluates to %r but the slot got %s" % (ip, val, ann))
    return None


def run_cases(_):
    """One process, one input file reused by every call (so cross-call state shows)"""
    d = tempfile.mkdtemp(prefix="cddvc_c13_")
    fails, n = {}, 0
    try:
        inp = os.path.join(d, "inp.py")
        open(inp, "wt").write("from typing import Optional\n\n" + INPUT_SRC)
        for out_src in OUTPUT_SRCS:
            for op in targets(ast.parse(out_src)):
                for ip in INPUT_PARAMS:
                    # domain: taking over the input's name must not collide with a sibling of the target
                    kind_, cont_, j_, fn_ = locate(ast.parse(out_src), op)
                    sibs = ([a.arg for a in fn_.args.args + fn_.args.kwonlyargs] + [x.arg for x in (fn_.args.vararg, fn_.args.kwarg) if x]) if kind_ == "param" else \
                        [c.target.id for c in cont_.body if isinstance(c, ast.AnnAssign) and isinstance(c.target, ast.Name)]
                    if ip.split(".")[-1] in [x for x in sibs if x != op.split(".")[-1]]:
                        continue
                    for wrap in (None, "Optional[{output_param}]", None):
                        n += 1
                        r = one_call(d, inp, out_src, ip, op, wrap, False)
                        if r and r[0] != "raises":
                            fails.setdefault((r[0], op.count(".") > 1, wrap is not None), ({"output": out_src, "input_param": ip, "output_param": op, "wrap": wrap, "eval": False}, r[1]))
                for ip in EVAL_PARAMS:
                    n += 1
                    r = one_call(d, inp, out_src, ip, op, None, True)
                    if r and r[0] != "raises":
                        fails.setdefault((r[0], op.count(".") > 1, False), ({"output": out_src, "input_param": ip, "output_param": op, "wrap": None, "eval": True}, r[1]))
    finally:
        shutil.rmtree(d, ignore_errors=True)
    return n, fails


def structural_lookup(run):
    """The idx lookup of visit_FunctionDef ranges over positional parameters only (where the ghost relation holds)"""
    node, _s, _p = extract.find_def("cdd.shared.ast_utils", "RewriteAtQuery.visit_FunctionDef")
    ok, detail = False, "function not found"
    if node is not None:
        comps = [n for n in ast.walk(node) if isinstance(n, (ast.GeneratorExp, ast.ListComp)) and "_idx" in ast.unparse(n.elt)]
        iters = sorted({ast.unparse(g.iter) for c in comps for g in c.generators if "_arg" in ast.unparse(g.target)})
        ok = bool(comps) and iters == ["node.args.args"]
        detail = "every comprehension yielding `_arg._idx` iterates node.args.args" if ok else "the `_idx` lookup iterates %s" % iters
    run.add("C13/structural/visit_FunctionDef/idx-lookup-over-positional-args-only", PROVED if ok else REFUTED, "rule-engine", detail=detail)
    out = [] if ok else [("C13/structural/visit_FunctionDef/idx-lookup-over-positional-args-only", detail)]
    # --input-eval: the Literal lists the members of the evaluated value one by one -- map(set_value, it) over `it` itself
    # (no de-duplication, no filter), or set_value(it[0]) for a single member
    lit, _s, _p = extract.find_def("cdd.shared.ast_utils", "it2literal")
    ok2, detail2 = None, "it2literal not found"
    if lit is not None:
        kws = [k for n in ast.walk(lit) if isinstance(n, ast.Call) for k in n.keywords if k.arg == "elts"]
        singles = [n for n in ast.walk(lit) if isinstance(n, ast.IfExp)]
        ok2 = (len(kws) == 1 and ast.unparse(kws[0].value) in ("list(map(set_value, it))", "[set_value(e) for e in it]")
               and len(singles) == 1 and ast.unparse(singles[0].test) == "len(it) > 1" and ast.unparse(singles[0].orelse) == "set_value(it[0])")
        detail2 = ("Literal members are list(map(set_value, it)) when len(it) > 1, else set_value(it[0]): one member per element of the evaluated value, in order" if ok2
                   else "it2literal builds the members as: %s" % [ast.unparse(k.value)[:80] for k in kws])
    # RewriteAtQuery.generic_visit hands out the replacement at most once, and never in place of a literal: the replacing
    # `return self.replacement_node` is guarded by `not self.replaced`, by `node._location == self.search` and by a test that
    # excludes Constant nodes (a literal carries the location of the attribute / parameter named like its value)
    gv, _s, _p = extract.find_def("cdd.shared.ast_utils", "RewriteAtQuery.generic_visit")
    ok3, detail3 = None, "RewriteAtQuery.generic_visit not found"
    if gv is not None:
        rets = [n for n in ast.walk(gv) if isinstance(n, ast.Return) and n.value is not None and ast.unparse(n.value) == "self.replacement_node"]
        guards = [i for i in ast.walk(gv) if isinstance(i, ast.If) and any(r in list(ast.walk(b_)) for r in rets for b_ in i.body)]
        conj = [ast.unparse(v) for g in guards for v in (g.test.values if isinstance(g.test, ast.BoolOp) and isinstance(g.test.op, ast.And) else [g.test])]
        excl = [c for c in conj if re.fullmatch(r"not isinstance\(node, (\(.*\bConstant\b.*\)|Constant)\)", c) or re.fullmatch(r"isinstance\(node, \((?!.*\b(Constant|Str|expr|AST)\b).*\)\)", c)]
        ok3 = len(rets) == 1 and "not self.replaced" in conj and "node._location == self.search" in conj and bool(excl)
        detail3 = ("the replacement is returned once, under `not self.replaced and %s and ... node._location == self.search`" % excl[0] if ok3
                   else "guards of `return self.replacement_node`: %s" % conj)
    run.add("C13/structural/generic_visit/never-replaces-a-literal", UNDECIDED if ok3 is None else (PROVED if ok3 else REFUTED), "rule-engine", detail=detail3)
    if ok3 is False:
        out.append(("C13/structural/generic_visit/never-replaces-a-literal", detail3))
    run.add("C13/structural/it2literal/one-member-per-element-in-order", UNDECIDED if ok2 is None else (PROVED if ok2 else REFUTED), "rule-engine", detail=detail2)
    if ok2 is False:
        out.append(("C13/structural/it2literal/one-member-per-element-in-order", detail2))
    # --input-eval: "receives the Literal of the EVALUATED input value" -- the value the name has after the whole input module
    # ran.  What is compiled and executed is the input module the caller parsed (the parameter input_ast itself, never
    # re-bound, never a slice of its body)
    sp, _s, _p = extract.find_def("cdd.compound.sync_properties", "sync_property")
    ok4, detail4 = None, "sync_property not found"
    if sp is not None:
        comps_ = [n for n in ast.walk(sp) if isinstance(n, ast.Call) and isinstance(n.func, ast.Name) and n.func.id == "compile"]
        params_ = {a.arg for a in sp.args.args + sp.args.kwonlyargs}
        stores_ = {n.id for n in ast.walk(sp) if isinstance(n, ast.Name) and isinstance(n.ctx, ast.Store)}
        ok4 = len(comps_) == 1 and bool(comps_[0].args) and isinstance(comps_[0].args[0], ast.Name) and comps_[0].args[0].id == "input_ast" and "input_ast" in params_ and "input_ast" not in stores_
        detail4 = ("the one compile() of sync_property compiles its parameter input_ast (the whole parsed input module), which is never re-bound" if ok4
                   else "sync_property compiles: %s" % [ast.unparse(c.args[0])[:80] if c.args else "?" for c in comps_])
    run.add("C13/structural/sync_property/input-eval-runs-the-whole-input-module", UNDECIDED if ok4 is None else (PROVED if ok4 else REFUTED), "rule-engine", detail=detail4)
    if ok4 is False:
        out.append(("C13/structural/sync_property/input-eval-runs-the-whole-input-module", detail4))
    return out


def main(tier, write_baseline=False):
    run = Run("C13", tier, "other", checker_cmd=common.checker_cmd("C13", tier))
    run.trusted_base.update(["cddvc E1 block contracts with access paths on uninterpreted objects and Seq list views", "z3 5.1 sequences"])
    refuted = e1.run_contracts(run, "contracts.C13")
    srefuted = structural_lookup(run)

    def struct_replay(_name):
        # the clause the side conditions carry: nothing but the selected slot changes (run on the real sync_properties)
        _n, fl = run_cases(None)
        for (kind, nested, wrapped), (case, what) in fl.items():
            if run.match_finding({"kind": kind, "method_target": str(nested), "wrap": str(wrapped), "obligation": "C13/bounded/%s" % kind}) is None:
                return {"case": case, "what": what[:400]}
        return None

    srefuted, s_inputs = run.confirm_or_undecide(srefuted, struct_replay)
    refuted, r_inputs = run.confirm_or_undecide(refuted, struct_replay)
    s_inputs.update(r_inputs)
    if write_baseline:
        common.write_baseline("C13", [n for n, o in run.obligations.items() if o["status"] == "proved"])
    compare_baseline(run, set(run.obligations))
    fails = {}
    if not os.environ.get("VERIF_NO_BOUNDED"):
        n, fails = run_cases(None)
        run.bounded.append({
            "name": "whole-file AST diff of sync_properties on generated module pairs (bounded, NOT counted as proved)",
            "bound": "%d output modules (functions with 1..6 parameters, defaults, self/cls, kw-only, *args/**kw, class attributes) x every dotted target x %d input properties x wrap {none, Optional[...], none again} + eval mode; all calls in one process on one input file" % (len(OUTPUT_SRCS), len(INPUT_PARAMS)),
            "rule": "one sync_properties call per (output module, target, input property, wrap, eval)",
            "evaluations": n, "distinct_nontrivial": n,
            "failures": [{"kind": k[0], "what": v[1][:400], "case": v[0]} for k, v in list(fails.items())[:4]],
        })
    seen = set()
    for o in refuted:
        if o["name"] in seen:
            continue
        seen.add(o["name"])
        cand = next((v for k, v in fails.items() if k[0] == "other-code-changed"), None)
        run.violation(o["name"], "obligation refuted by %s on path %s" % (o["backend"], " ".join(o["trace"])),
                      failing_input=s_inputs.get(o["name"]) or ({"case": cand[0], "what": cand[1]} if cand else None), solver_output={"model": o["model"], "smt2": (o["smt2"] or "")[:5000]})
    for name, detail in srefuted:
        cand = next((v for k, v in fails.items() if k[0] == "other-code-changed"), None)
        run.violation(name, detail, failing_input=s_inputs.get(name) or ({"case": cand[0], "what": cand[1]} if cand else None), solver_output={"rule": detail})
    if not refuted and not srefuted:
        for (kind, nested, wrapped), (case, what) in fails.items():
            run.violation("C13/bounded/%s" % kind, what, key={"kind": kind, "method_target": str(nested), "wrap": str(wrapped)}, failing_input={"case": case})
    common.apply_controls(run, tier)
    return run.finish(explanation="PROVED (lemma, all inputs): the default that sync_properties overwrites is the target parameter's own (alignment arithmetic), given annotate_ancestry's numbering (checked syntactically). "
                      "BOUNDED only: everything else of the statement (whole-file AST diff, input untouched, name/annotation taken over, --input-eval).")


def replay(path):
    d = json.load(open(path))
    inp = (d.get("failing_input") or {}).get("case")
    print("replaying %s: obligation %s" % (path, d["failed_obligation"]))
    if not inp:
        return 1
    t = tempfile.mkdtemp()
    try:
        ip = os.path.join(t, "inp.py")
        open(ip, "wt").write("from typing import Optional\n\n" + INPUT_SRC)
        r = one_call(t, ip, inp["output"], inp["input_param"], inp["output_param"], inp["wrap"], inp["eval"])
    finally:
        shutil.rmtree(t, ignore_errors=True)
    print(r)
    return 1 if r else 0

"""
Bounded stand-in for C10: a fixed list of conversions on the real code; prints {case: output text}.
Run in fresh sub-processes under several PYTHONHASHSEED values, and with --history (every case twice, in
two different orders, in one process) to expose cross-call state.
"""

import ast
import json
import os
import sys
import tempfile
from collections import OrderedDict


def cases():
    import cdd.argparse_function.emit
    import cdd.class_.emit
    import cdd.class_.parse
    import cdd.docstring.emit
    import cdd.docstring.parse
    import cdd.function.emit
    import cdd.function.parse
    import cdd.json_schema.emit
    import cdd.shared.ast_utils as au
    import cdd.shared.parse.utils.parser_utils as pu
    import cdd.sqlalchemy.emit
    from cdd.shared.source_transformer import to_code

    def dump(x):
        if isinstance(x, ast.AST):
            return to_code(x)
        return json.dumps(x, default=lambda o: to_code(o) if isinstance(o, ast.AST) else repr(o))

    partial_doc = 'def f(alpha, beta, gamma, delta, epsilon, zeta=1, eta="x", theta=None):\n    """\n    Doc\n\n    :param gamma: g\n    :type gamma: ```int```\n\n    :param alpha: a\n    """\n    return gamma\n'
    perm_doc = 'def g(a, b, c, d=2):\n    """\n    Doc\n\n    :param d: dd\n\n    :param b: bb\n\n    :param a: aa\n\n    :return: the thing\n    """\n    return 5\n'
    google = 'def h(x, y=3):\n    """\n    Summary line.\n\n    Args:\n      x (int): the x\n      y (int): the y. Defaults to 3\n\n    Returns:\n      int: result\n\n    Raises:\n      ValueError: when bad\n\n    Example:\n      >>> h(1)\n    """\n    return x\n'
    cls = 'class C(object):\n    """\n    Conf\n\n    :cvar a: the a\n    :cvar b: the b\n    :cvar c: one of the modes\n    """\n\n    a: int = 5\n    b: Optional[str] = None\n    c: Literal["x", "y", "z"] = "x"\n    e: Final[int] = 1\n'
    google_raises = 'def train(lr=0.1, momentum=0.9):\n    """\n    Train the thing.\n\n    Args:\n      lr (float): learning rate\n      momentum (float): momentum term\n\n    Raises:\n      ValueError: if `lr` is not positive\n    """\n    return lr * momentum\n'
    numpy_notes = 'def fit(x, y=1):\n    """\n    Fit.\n\n    Parameters\n    ----------\n    x : int\n        the x\n    y : int\n        the y\n\n    Notes\n    -----\n    Some notes here.\n\n    Examples\n    --------\n    >>> fit(1)\n    """\n    return x\n'
    google_doc = "Acquire the dataset.\n\nArgs:\n  name (str): dataset name\n  shuffle (bool): whether to shuffle. Defaults to True\n  Example:\n  >>> acquire(\"mnist\")\n  <Dataset mnist>\n"
    out = []
    for style in ("rest", "google", "numpydoc"):
        out.append(("docstring->docstring/google_doc/%s" % style, lambda style=style: cdd.docstring.emit.docstring(cdd.docstring.parse.docstring(google_doc), docstring_format=style)))
    out.append(("docstring.parse/google_doc", lambda: dump(cdd.docstring.parse.docstring(google_doc))))
    for name, src in (("partial", partial_doc), ("perm", perm_doc), ("google", google), ("google_raises", google_raises), ("numpy_notes", numpy_notes)):
        fn = ast.parse(src).body[0]
        out.append(("function.parse/" + name, lambda fn=fn: dump(cdd.function.parse.function(fn))))
        for style in ("rest", "google", "numpydoc"):
            out.append(("function->docstring/%s/%s" % (name, style), lambda fn=fn, style=style: cdd.docstring.emit.docstring(cdd.function.parse.function(fn), docstring_format=style)))
        out.append(("function->class/" + name, lambda fn=fn: dump(cdd.class_.emit.class_(cdd.function.parse.function(fn), class_name="K"))))
        out.append(("function->argparse/" + name, lambda fn=fn: dump(cdd.argparse_function.emit.argparse_function(cdd.function.parse.function(fn)))))
        out.append(("function->json_schema/" + name, lambda fn=fn: dump(cdd.json_schema.emit.json_schema(cdd.function.parse.function(fn)))))
        out.append(("function->sqlalchemy/" + name, lambda fn=fn: dump(cdd.sqlalchemy.emit.sqlalchemy(cdd.function.parse.function(fn), class_name="T", table_name="t"))))
    cn = ast.parse(cls).body[0]
    out.append(("class.parse", lambda: dump(cdd.class_.parse.class_(cn))))
    out.append(("class->function", lambda: dump(cdd.function.emit.function(cdd.class_.parse.class_(cn), function_name="f", function_type="static"))))
    out.append(("class->argparse", lambda: dump(cdd.argparse_function.emit.argparse_function(cdd.class_.parse.class_(cn)))))
    mod_src = "from typing import Optional, List, Literal, Final, final, Union, Dict\nfrom sqlalchemy import Integer, INTEGER, String, Text, TEXT, Column\n\n" + cls + "\n\ndef f(a: Union[int, Dict[str, int]], b: Final[int] = 2) -> Optional[List[str]]:\n    x = Column(Integer); y = Column(INTEGER); z = (Text, TEXT, String, final)\n    return None\n"
    mod = ast.parse(mod_src)
    out.append(("infer_imports/module", lambda: dump([to_code(i) for i in (au.infer_imports(mod) or ())])))
    out.append(("infer_imports/class", lambda: dump([to_code(i) for i in (au.infer_imports(cn) or ())])))
    out.append(("optimise_imports", lambda: dump([to_code(i) for i in au.optimise_imports(ast.parse("from typing import List, Optional\nfrom typing import Union, List\nfrom typing import Final, final\n").body)])))
    out.append(("ir_merge/returns", lambda: dump(pu.ir_merge({"params": OrderedDict(), "returns": {"return_type": {"doc": "x"}}}, {"params": OrderedDict(), "returns": {"return_type": {"typ": "int", "default": 5, "x_typ": 1}}})["returns"])))
    out.append(("merge_assignment_lists", lambda: dump((lambda m: (au.merge_assignment_lists(m, "__all__"), m)[1])(ast.parse('__all__ = ["b", "a"]\n__all__ = ["d", "c", "a"]\n')))))

    def gen_case(emit):
        from cdd.compound.gen import gen

        d = tempfile.mkdtemp()
        try:
            inp = os.path.join(d, "inp.py")
            open(inp, "wt").write("from typing import Optional, List, Literal, Final\n\n" + cls + "\n\nclass D(object):\n    \"\"\"\n    Dd\n\n    :cvar q: the q\n    \"\"\"\n\n    q: Optional[List[str]] = None\n\n__all__ = ['C', 'D']\n")
            outp = os.path.join(d, "out.py")
            gen(name_tpl="{name}Gen", input_mapping=inp, parse_name="class", emit_name=emit, output_filename=outp, prepend=None, imports_from_file=None,
                emit_call=False, emit_default_doc=True, emit_and_infer_imports=False, no_word_wrap=None, decorator_list=None)
            return open(outp).read()
        finally:
            import shutil

            shutil.rmtree(d, ignore_errors=True)

    for emit in ("class", "argparse", "sqlalchemy"):
        out.append(("gen/" + emit, lambda emit=emit: gen_case(emit)))
    return out


def run_all(order):
    res = {}
    cs = cases()
    if order == "reversed":
        cs = list(reversed(cs))
    devnull = open(os.devnull, "w")
    real = sys.stdout, sys.stderr
    sys.stdout = sys.stderr = devnull
    try:
        for name, fn in cs:
            try:
                res[name] = fn()
            except Exception as e:
                res[name] = "RAISED %s: %s" % (type(e).__name__, str(e)[:200])
    finally:
        sys.stdout, sys.stderr = real
    return res


if __name__ == "__main__":
    if "--history" in sys.argv:
        a = run_all("forward")
        b = run_all("reversed")
        c = run_all("forward")
        print(json.dumps({"first": a, "second": b, "third": c}))
    else:
        print(json.dumps({"first": run_all("forward")}))

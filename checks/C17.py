"""
C17 — analysing source never executes it or touches anything but the output.

Deciding steps, all on /repo's current source:
  (a) E2: for every entry point (all parsers, all emitters, doctrans, sync, sync_properties, gen) and every
      effect kind, the sites reachable over the over-approximating call graph are within the declared
      (closed) inventory; sync_properties with input_eval=False cannot reach the eval of the input module;
      every `literal_eval` is ast.literal_eval; the two dynamic dispatchers import inside the package.
  (b) refinement-type check clean(.) on the argument of the single eval reachable from parsers
      (cddvc/charset.py): filter function, closure of the chain, call site.
Stand-in (bounded): the real entry points under an audit hook over adversarial docstrings / modules.
"""

import ast
import json
import os
import subprocess
import sys

from cddvc import callgraph, charset, effects, extract, termination
from cddvc.report import PROVED, REFUTED, UNDECIDED, Run, compare_baseline
from checks import common


def entry_points(g, C):
    out = []
    for fid, f in sorted(g.funcs.items()):
        if f.qual == "<module>" or "." in f.qual or f.qual.startswith("_"):
            continue
        if C.ENTRY_MODULE_RE.fullmatch(f.mod):
            out.append(fid)
    for e in C.NAMED_ENTRIES:
        if e in g.funcs and e not in out:
            out.append(e)
    return out


def structural(g, C, obs):
    # literal_eval is ast.literal_eval everywhere
    bad = []
    n = 0
    for fid, f in g.funcs.items():
        for node in (termination._own_nodes(f) if f.qual != "<module>" else effects._module_level_nodes(f)):
            if isinstance(node, ast.Call) and isinstance(node.func, (ast.Name, ast.Attribute)):
                last = node.func.id if isinstance(node.func, ast.Name) else node.func.attr
                if last == "literal_eval":
                    n += 1
                    d = g.dotted_of(f.mod, node.func, f.locals)
                    if d != "ast.literal_eval":
                        bad.append("%s line %d resolves to %s" % (fid, node.lineno, d))
    obs.append(("literal_eval/resolves-to-ast.literal_eval", not bad and n > 0, "%d call sites, all ast.literal_eval" % n if not bad else "; ".join(bad)))
    # dispatchers import inside the package
    for disp, suffix in (("cdd.shared.parse.utils.parser_utils:get_parser", "parse"), ("cdd.shared.emit.utils.emitter_utils:get_emitter", "emit")):
        f = g.funcs.get(disp)
        ok, detail = False, "dispatcher not found"
        if f is not None:
            calls = [c for c in termination._own_nodes(f) if isinstance(c, ast.Call) and g.dotted_of(f.mod, c.func, f.locals) == "importlib.import_module"] if f else []
            ok = bool(calls)
            for c in calls:
                a = c.args[0] if c.args else None
                pat = (
                    isinstance(a, ast.Call) and isinstance(a.func, ast.Attribute) and a.func.attr == "join"
                    and isinstance(a.func.value, ast.Constant) and a.func.value.value == "."
                    and len(a.args) == 1 and isinstance(a.args[0], ast.Tuple) and len(a.args[0].elts) >= 2
                    and isinstance(a.args[0].elts[0], ast.Constant) and a.args[0].elts[0].value == "cdd"
                    and isinstance(a.args[0].elts[-1], ast.Constant) and a.args[0].elts[-1].value == suffix
                )
                ok = ok and pat
            detail = "import_module argument is '.'.join(('cdd', x, '%s')): always inside the package" % suffix if ok else "argument of import_module is not the in-package pattern"
        obs.append(("dispatch/%s" % disp.split(":")[-1], ok, detail))
    # gen: --prepend executes Import/ImportFrom nodes only; get_module not on the from-file path
    f = g.funcs.get("cdd.compound.gen:gen")
    ok1 = ok2 = False
    if f is not None:
        own = termination._own_nodes(f)
        stores = [n for n in own if isinstance(n, (ast.Assign, ast.AnnAssign)) and isinstance(getattr(n, "target", None) or n.targets[0], ast.Name)
                  and (getattr(n, "target", None) or n.targets[0]).id == "prepend_imports"]
        ok1 = len(stores) == 1 and isinstance(stores[0].value, ast.Call) and isinstance(stores[0].value.func, ast.Name) and stores[0].value.func.id == "get_at_root" \
            and len(stores[0].value.args) == 2 and isinstance(stores[0].value.args[1], ast.Tuple) \
            and sorted(ast.unparse(x) for x in stores[0].value.args[1].elts) == ["Import", "ImportFrom"]
        evals = [n for n in own if isinstance(n, ast.Call) and isinstance(n.func, ast.Name) and n.func.id == "compile"]
        ok1 = ok1 and len(evals) == 1 and "Module(body=prepend_imports" in ast.unparse(evals[0])
        ifs = [n for n in own if isinstance(n, ast.If) and ast.unparse(n.test) == "path.isfile(input_mapping)"]
        if len(ifs) == 1:
            tail = ifs[0].orelse
            while len(tail) == 1 and isinstance(tail[0], ast.If):
                tail = tail[0].orelse
            in_else = {id(m) for s in tail for m in ast.walk(s)}
            gm = [n for n in own if isinstance(n, ast.Call) and isinstance(n.func, ast.Name) and n.func.id == "get_module" and n.args and ast.unparse(n.args[0]) == "module_path"]
            ok2 = len(gm) == 1 and id(gm[0]) in in_else
    # filename_from_mod_or_filename ("module name or file name", in front of the model / routes parsers): importlib's find_spec
    # imports the parent package of a dotted name -- for 'models.py' that is `import models`, i.e. it RUNS the file that is
    # about to be analysed.  It may therefore be reached only for a name that is neither an existing file nor a path.
    f = g.funcs.get("cdd.shared.pure_utils:filename_from_mod_or_filename")
    ok3, d3 = None, "function not found"
    if f is not None:
        ok3, d3 = find_spec_guarded(g, f)
    obs.append(("filename_from_mod_or_filename/find_spec-only-for-a-name-that-is-no-file", ok3, d3))
    obs.append(("gen/prepend-imports-only", ok1, "the compiled module body is get_at_root(parse(prepend), (Import, ImportFrom))"))
    obs.append(("gen/get_module-not-on-file-path", ok2, "get_module(module_path) is in the else of `if path.isfile(input_mapping) / elif path.isdir(...)`"))


def find_spec_guarded(g, f):
    """Every find_spec(x) call of f is evaluated only when `path.isfile(x)` has been tested false on the way to it
    (orelse of a conditional whose test has isfile(x) as a disjunct, body of one that has `not isfile(x)` as a conjunct,
    or a later operand of such an `and` / `or` chain)."""
    fn = f.node
    parent = {}
    for n in ast.walk(fn):
        for c in ast.iter_child_nodes(n):
            parent[id(c)] = n
    own = list(termination._own_nodes(f))
    calls = [c for c in own if isinstance(c, ast.Call) and g.dotted_of(f.mod, c.func, f.locals) == "importlib.util.find_spec"]
    if not calls:
        return True, "no find_spec call left in the function"
    params = {a.arg for a in fn.args.args}
    rebinds = {n.id for n in own if isinstance(n, ast.Name) and isinstance(n.ctx, ast.Store)}

    def is_isfile(e, arg):
        return isinstance(e, ast.Call) and g.dotted_of(f.mod, e.func, f.locals) in ("os.path.isfile", "os.path.exists") and len(e.args) == 1 and ast.unparse(e.args[0]) == arg

    def disjuncts(t):
        return [x for v in t.values for x in disjuncts(v)] if isinstance(t, ast.BoolOp) and isinstance(t.op, ast.Or) else [t]

    def conjuncts(t):
        return [x for v in t.values for x in conjuncts(v)] if isinstance(t, ast.BoolOp) and isinstance(t.op, ast.And) else [t]

    def false_when_reached(test, arg, branch):
        if branch == "orelse":
            return any(is_isfile(d, arg) for d in disjuncts(test))
        return any(isinstance(c_, ast.UnaryOp) and isinstance(c_.op, ast.Not) and is_isfile(c_.operand, arg) for c_ in conjuncts(test))

    for c in calls:
        if len(c.args) != 1 or not isinstance(c.args[0], ast.Name) or c.args[0].id not in params or c.args[0].id in rebinds:
            return False, "find_spec (line %d) is not called on an unmodified parameter" % c.lineno
        arg = c.args[0].id
        node, guarded = c, False
        while id(node) in parent and not guarded:
            up = parent[id(node)]
            if isinstance(up, (ast.IfExp, ast.If)):
                in_body = node is up.body if isinstance(up, ast.IfExp) else any(node is x for x in up.body)
                in_else = node is up.orelse if isinstance(up, ast.IfExp) else any(node is x for x in up.orelse)
                if (in_else and false_when_reached(up.test, arg, "orelse")) or (in_body and false_when_reached(up.test, arg, "body")):
                    guarded = True
            elif isinstance(up, ast.BoolOp):
                before = up.values[: next(i for i, v in enumerate(up.values) if v is node)]
                if isinstance(up.op, ast.Or) and any(is_isfile(d, arg) for b in before for d in disjuncts(b)):
                    guarded = True
                if isinstance(up.op, ast.And) and any(isinstance(b, ast.UnaryOp) and isinstance(b.op, ast.Not) and is_isfile(b.operand, arg) for b in before):
                    guarded = True
            node = up
        if not guarded:
            return False, "find_spec(%s) at line %d can be reached for an existing file: no `path.isfile(%s)` test decides against it on the way" % (arg, c.lineno, arg)
    return True, "%d find_spec call(s), each reached only after path.isfile(<the same parameter>) was false" % len(calls)


def find_spec_replay():
    """The real function on the bare name of an existing file whose directory is importable (cd there): does it run the file?"""
    import tempfile
    import shutil

    d = tempfile.mkdtemp(prefix="c17fs_")
    try:
        open(os.path.join(d, "models_c17.py"), "w").write("open(%r, 'w').write('ran')\n" % os.path.join(d, "EXECUTED.marker"))
        code = "import sys; sys.path.insert(0, %r); sys.path.insert(0, ''); from cdd.shared.pure_utils import filename_from_mod_or_filename as f; print(f('models_c17.py'))" % common.REPO
        r = subprocess.run([sys.executable, "-c", code], cwd=d, capture_output=True, text=True, timeout=120)
        if os.path.exists(os.path.join(d, "EXECUTED.marker")):
            return {"call": "cdd.shared.pure_utils.filename_from_mod_or_filename('models_c17.py')", "cwd": "a directory that holds models_c17.py (and is importable, as with `cd dir && python -m cdd gen_routes --model-path models_c17.py`)",
                    "what": "the module-level code of the analysed file ran (it wrote EXECUTED.marker); returned %r" % r.stdout.strip()[-120:]}
        return None
    finally:
        shutil.rmtree(d, ignore_errors=True)


def charset_obligations(g, C, obs):
    mod = C.CHAIN_MOD
    flt, _, _ = extract.find_def(mod, C.FILTER_FN)
    if flt is None:
        obs.append(("charset/%s/present" % C.FILTER_FN, None, "filter function not found"))
        return
    charset.check_filter(mod, flt, "doc", obs, "charset/%s" % C.FILTER_FN)
    for name in C.CLOSURE_FNS:
        node, _, _ = extract.find_def(mod, name)
        if node is None:
            obs.append(("charset/%s/present" % name, None, "function of the chain not found"))
            continue
        charset.check_closure(mod, node, obs, "charset/%s" % name)
    # repo helpers reachable from the chain must not introduce characters either
    roots = ["%s:%s" % (mod, n) for n in C.CLOSURE_FNS]
    helpers = sorted(x for x in g.reachable(roots) if x not in roots and not x.endswith(":<module>"))
    bad = []
    for h in helpers:
        f = g.funcs[h]
        for n in termination._own_nodes(f):
            if isinstance(n, ast.Name) and isinstance(n.ctx, ast.Load) and n.id in charset.FORBIDDEN and n.id not in f.locals:
                bad.append("%s line %d uses %s" % (h, n.lineno, n.id))
            if isinstance(n, ast.Return) and n.value is not None:
                for c in ast.walk(n.value):
                    if isinstance(c, ast.Constant) and isinstance(c.value, str) and charset.unsafe_chars(c.value):
                        bad.append("%s line %d returns a constant with %r" % (h, n.lineno, charset.unsafe_chars(c.value)))
    obs.append(("charset/helpers-clean-preserving", not bad, "%d repo helpers reachable from the chain (%s): no character-introducing primitive, no unsafe returned constant"
                % (len(helpers), ", ".join(x.split(":")[-1] for x in helpers)[:200]) if not bad else "; ".join(bad[:4])))
    ent, _, _ = extract.find_def(mod, C.ENTRY_FN)
    charset.check_entry(mod, ent, {"doc", "name"}, C.FILTER_FN, obs, "charset/%s" % C.ENTRY_FN)
    # R3: the eval site evaluates exactly the chain's result
    site_fn, _, _ = extract.find_def("cdd.shared.docstring_parsers", "__set_name_and_type_handle_doc_in_param")
    ok, detail = False, "eval site function not found"
    if site_fn is not None:
        evals = [n for n in ast.walk(site_fn) if isinstance(n, ast.Call) and isinstance(n.func, ast.Name) and n.func.id == "eval"]
        stores = [n for n in ast.walk(site_fn) if isinstance(n, ast.Assign) and any(isinstance(t, ast.Name) and t.id == "typ" for t in n.targets)]
        ok = (len(evals) == 1 and evals[0].args and isinstance(evals[0].args[0], ast.Name) and evals[0].args[0].id == "typ" and len(stores) == 1
              and isinstance(stores[0].value, ast.Call) and isinstance(stores[0].value.func, ast.Name) and stores[0].value.func.id == C.ENTRY_FN
              and "typ" not in [a.arg for a in site_fn.args.args])
        detail = "eval(typ, ...) where typ is assigned once, from %s(...)" % C.ENTRY_FN if ok else "the eval argument is no longer exactly the result of %s" % C.ENTRY_FN
    obs.append(("charset/eval-site/argument-is-chain-result", ok, detail))


def eval_globals_obligation(obs):
    """
    The clean expression is evaluated against docstring_parsers' globals.  Without '(' it cannot call anything; what it
    CAN do is look names up, read attributes, subscript, and apply `/` and `|`.  Evaluated in a real interpreter: every
    global is a module, a function, a class or plain data, i.e. no instance whose attribute access / subscripting /
    operators run repository code.
    """
    code = (
        "import json, sys, types, typing, enum\n"
        "import cdd.shared.docstring_parsers as m\n"
        "bad = []\n"
        "def plain(v, depth=0):\n"
        "    if v is None or isinstance(v, (str, bytes, int, float, complex, bool)): return True\n"
        "    if isinstance(v, (tuple, list, frozenset, set)): return depth < 3 and all(plain(x, depth + 1) for x in v)\n"
        "    if isinstance(v, dict): return depth < 3 and all(plain(k, depth + 1) and plain(x, depth + 1) for k, x in v.items())\n"
        "    return False\n"
        "for k, v in vars(m).items():\n"
        "    if isinstance(v, (types.ModuleType, types.FunctionType, types.BuiltinFunctionType, type, functools_partial)) or plain(v):\n"
        "        continue\n"
        "    mod = type(v).__module__\n"
        "    top = mod.split('.')[0]\n"
        "    if top in sys.stdlib_module_names or top in ('_frozen_importlib', '_frozen_importlib_external', 'builtins'):\n"
        "        continue\n"
        "    bad.append('%s: instance of %s.%s' % (k, mod, type(v).__name__))\n"
        "print(json.dumps({'n': len(vars(m)), 'bad': bad}))\n"
    ).replace("functools_partial", "__import__('functools').partial")
    env = dict(os.environ, PYTHONPATH=common.REPO)
    r = subprocess.run([sys.executable, "-c", code], capture_output=True, text=True, env=env, timeout=120)
    line = [l for l in r.stdout.splitlines() if l.startswith("{")]
    if not line:
        obs.append(("eval-globals/only-modules-functions-classes-and-plain-data", None, "could not evaluate: %s" % r.stderr[-200:]))
        return
    res = json.loads(line[-1])
    obs.append(("eval-globals/only-modules-functions-classes-and-plain-data", not res["bad"],
                "%d globals of docstring_parsers: all modules / functions / classes / plain data (stdlib instances aside), so a call-free expression cannot run repository code through attribute access, subscripting or operators (evaluated in a real interpreter)" % res["n"]
                if not res["bad"] else "globals that are instances of non-stdlib classes: %s" % res["bad"][:5]))
    # the locals visible at the eval site are plain data too: parameters and values assigned in that function
    site_fn, _s, _p = extract.find_def("cdd.shared.docstring_parsers", "__set_name_and_type_handle_doc_in_param")
    if site_fn is not None:
        names = sorted({a.arg for a in site_fn.args.args} | {n.id for n in ast.walk(site_fn) if isinstance(n, ast.Name) and isinstance(n.ctx, ast.Store)})
        ok = set(names) <= {"_param", "name", "was_none", "word_wrap", "typ", "e"}
        obs.append(("eval-locals/only-known-plain-names", ok, "locals at the eval site are %s (a dict of strings, strings and booleans)" % names))


def bounded():
    env = dict(os.environ)
    r = subprocess.run([sys.executable, "-m", "checks.c17_audit"], capture_output=True, text=True, env=env, cwd=common.VERIF, timeout=1500)
    line = [l for l in r.stdout.splitlines() if l.startswith("{")]
    if not line:
        return None, "audit driver produced no result: %s" % (r.stderr[-400:])
    return json.loads(line[-1]), None


def main(tier, write_baseline=False):
    import importlib

    C = importlib.import_module("contracts.C17")
    run = Run("C17", tier, "proof", checker_cmd=common.checker_cmd("C17", tier))
    run.trusted_base.update([
        "E2 effect checker (/verif/cddvc/effects.py) and the over-approximating import-aware call graph (/verif/cddvc/callgraph.py)",
        "the primitive-effect tables of effects.py are complete for exec / dynamic import / spawn / network / file writes",
        "clean() refinement check (/verif/cddvc/charset.py): clean is preserved by concatenation, slicing, join, split, strip, lower, format into clean templates, lookups in clean tables",
        "evaluating a clean (call-free) expression is harmless: the globals and locals visible at the eval site are checked to be modules / functions / classes / plain data (obligations C17/eval-globals, C17/eval-locals); attribute access on stdlib modules is assumed side-effect free",
    ])
    g = callgraph.Graph()
    disp = effects.add_dispatch_edges(g)
    run.assumptions.add("declared dynamic-dispatch edges: get_parser -> %d public functions of cdd.*.parse, get_emitter -> %d of cdd.*.emit" % (
        disp.get("cdd.shared.parse.utils.parser_utils:get_parser", 0), disp.get("cdd.shared.emit.utils.emitter_utils:get_emitter", 0)))
    sites = effects.refine_open_modes(g, effects.scan_sites(g))
    allsites = {s.key: s for ss in sites.values() for s in ss}
    entries = entry_points(g, C)
    fa = effects.FlagAnalysis(g, sites, "___none___", True)
    refuted = []
    kinds = ["EXEC", "IMPORT_DYN", "IMPORT_PARENT", "SPAWN", "NET", "FS_WRITE"]
    for e in entries:
        reach = fa.analyse(e, False)
        for k in kinds:
            if e == C.FLAG_ENTRY[0] and k == "EXEC":
                continue  # decided flag-sensitively below (the --input-eval exception of the property)
            allowed = set(C.ALLOWED.get(k, {})) | {s for s in C.ALLOWED_PER_ENTRY.get(e, {}) if s.startswith(k + "@")}
            extra = sorted(s for s in reach if s.startswith(k + "@") and s not in allowed)
            name = "C17/effects/%s/%s" % (e, k)
            detail = "reachable %s sites are within the declared inventory" % k if not extra else "undeclared %s site(s) reachable: %s" % (
                k, "; ".join("%s (line %d)" % (x, allsites[x].lineno) for x in extra[:4]))
            run.add(name, PROVED if not extra else REFUTED, "rule-engine(E2)", detail=detail)
            if extra:
                refuted.append((name, detail))
    # flag-guarded: sync_properties without --input-eval
    fe, flag, val = C.FLAG_ENTRY
    fa2 = effects.FlagAnalysis(g, sites, flag, val)
    reach = fa2.analyse(fe, True) if fe in g.funcs else set()
    extra = sorted(s for s in reach if s.startswith("EXEC@") and s not in C.ALLOWED["EXEC"])
    name = "C17/effects/%s/EXEC[%s=%s]" % (fe, flag, val)
    detail = "with %s=%s the eval/compile of the input module is unreachable" % (flag, val) if not extra and fe in g.funcs else "EXEC reachable although %s=%s: %s" % (flag, val, extra)
    run.add(name, PROVED if (not extra and fe in g.funcs) else REFUTED, "rule-engine(E2)", detail=detail)
    if extra or fe not in g.funcs:
        refuted.append((name, detail))
    obs = []
    structural(g, C, obs)
    charset_obligations(g, C, obs)
    eval_globals_obligation(obs)
    rule_inputs = {}
    for n, ok, detail in obs:
        if ok is False and n.startswith("filename_from_mod_or_filename/"):
            # shape rule: a failure counts only if the real function then runs an existing file (else: undecided)
            try:
                fi = find_spec_replay()
            except Exception:
                fi = None
            if fi is None:
                ok, detail = None, detail + " -- but the real function did not run the file in the replay: undecided"
            else:
                rule_inputs["C17/" + n] = fi
        st = UNDECIDED if ok is None else (PROVED if ok else REFUTED)
        run.add("C17/" + n, st, "rule-engine", detail=detail)
        if ok is False:
            refuted.append(("C17/" + n, detail))
    run.functions = [dict(entry_points=len(entries), effect_sites=len(allsites), sample_entries=entries[:10])]
    run.samples = [{"obligation": n, "detail": o["detail"]} for n, o in list(run.obligations.items())[:6]]
    if write_baseline:
        common.write_baseline("C17", [n for n, o in run.obligations.items() if o["status"] == "proved"])
    compare_baseline(run, set(run.obligations))
    aud = None
    if not os.environ.get("VERIF_NO_BOUNDED"):
        aud, err = bounded()
        if aud is None:
            run.undecide("C17/bounded/audit", err)
        else:
            fails = {k: v for k, v in aud["events"].items() if v}
            if aud.get("analysed_module_code_ran"):
                fails["analysed_module_code_ran"] = [True]
            run.bounded.append({
                "name": "audit-hook run of the real entry points over adversarial inputs (bounded, NOT counted as proved)",
                "bound": "5 payloads x 10 description shapes x 4 docstring layouts through parse_docstring/docstring.parse/function.parse/class_.parse, 5 emitters, doctrans and sync_properties(no eval) on a temp module",
                "rule": "calls of real entry points; non-trivial = the input carries a payload",
                "evaluations": aud["calls"], "distinct_nontrivial": aud["calls"], "exec_of_strings_observed": aud["exec_of_strings"],
                "failures": [{"kind": k, "events": v[:3]} for k, v in fails.items()],
            })
            aud["_fails"] = fails
    seen = set()
    inp = None
    if aud and aud.get("_fails"):
        k, v = next(iter(aud["_fails"].items()))
        inp = {"audit_event_kind": k, "events": v[:3], "driver": "python -m checks.c17_audit"}
    for name, detail in refuted:
        if name in seen:
            continue
        seen.add(name)
        run.violation(name, detail, failing_input=rule_inputs.get(name) or inp, solver_output={"rule": detail})
    if inp is not None and not refuted:
        run.violation("C17/bounded/audit", "run-time contract violated under the audit hook: %s" % json.dumps(inp)[:300], failing_input=inp)
    common.apply_controls(run, tier)
    return run.finish(explanation="Closed inventory of effect sites per entry point (E2) + clean() refinement check on the single eval argument. "
                      "That evaluating a clean expression is harmless is an assumption (listed).")


def replay(path):
    d = json.load(open(path))
    print("replaying %s: obligation %s" % (path, d["failed_obligation"]))
    aud, err = bounded()
    print(json.dumps(aud or err, indent=1)[:2000])
    fails = {k: v for k, v in (aud or {}).get("events", {}).items() if v}
    return 1 if fails or (aud or {}).get("analysed_module_code_ran") else 0

"""
Negative controls (DESIGN §2.8): deliberate property-breaking edits applied to a scratch copy of
/repo's package; the *deductive* part of the check (bounded stand-ins switched off) must reject each
one through a named obligation.  A control that survives means the engine is unsound or the contract
too weak: the thorough tier then fails with exit 3.

Controls marked `benign=True` are the opposite: behaviour-preserving rewrites of code a shape rule looks at.  They
must NOT produce a VIOLATION line (exit 0 or 2); one that does is a false alarm of the check and fails the same way.
"""

import importlib
import json
import os
import re
import shutil
import subprocess
import tempfile

from checks import common


def make_scratch(edits):
    """Copy REPO/cdd (+setup files) to a temp dir and apply [(relpath, old, new)]; -> dir or raises"""
    d = tempfile.mkdtemp(prefix="cddvc_ctl_")
    shutil.copytree(os.path.join(common.REPO, "cdd"), os.path.join(d, "cdd"), ignore=shutil.ignore_patterns("__pycache__"))
    for ed in edits:
        rel, old, new = ed[:3]
        p = os.path.join(d, rel)
        s = open(p, encoding="utf-8").read()
        if len(ed) > 3 and ed[3] == "rename":
            # consistent renaming of an identifier throughout the file
            if not re.search(r"\b%s\b" % re.escape(old), s) or re.search(r"\b%s\b" % re.escape(new), s):
                shutil.rmtree(d, ignore_errors=True)
                raise ValueError("rename %s -> %s does not apply in %s" % (old, new, rel))
            open(p, "wt", encoding="utf-8").write(re.sub(r"\b%s\b" % re.escape(old), new, s))
            continue
        if s.count(old) != 1:
            shutil.rmtree(d, ignore_errors=True)
            raise ValueError("control edit does not apply exactly once in %s (%d matches): %r" % (rel, s.count(old), old[:60]))
        open(p, "wt", encoding="utf-8").write(s.replace(old, new))
    return d


def run_one(args):
    prop, ctl = args
    try:
        d = make_scratch(ctl["edits"])
    except ValueError as ex:
        return dict(name=ctl["name"], killed=False, stale=True, detail=str(ex))
    try:
        ev = tempfile.mkdtemp(prefix="cddvc_ev_")
        env = dict(os.environ, CDD_REPO=d, VERIF_EVIDENCE_DIR=ev, VERIF_REPLAY_DIR=ev, VERIF_NO_BOUNDED="1", VERIF_NO_CONTROLS="1", VERIF_PROCS="2")
        r = subprocess.run([os.path.join(common.VERIF, "check"), prop, "--tier", "quick"], env=env, capture_output=True, text=True, timeout=1200)
        out = r.stdout + r.stderr
        viol = [m[0] for m in re.findall(r"^VIOLATION property=%s .*?obligation=(.*?)( no-failing-input-found)?$" % prop, out, re.M)]
        undec = re.findall(r"UNDECIDED property=%s obligation=(\S+)" % prop, out)
        exp = ctl.get("expect")
        if ctl.get("benign"):
            # a POSITIVE control: a behaviour-preserving rewrite.  It must raise no alarm: exit 0 (still proved) or 2
            # (undecided), never a VIOLATION line.  ("killed" = the control did what it is there for)
            ok = r.returncode in (0, 2) and not viol
            return dict(name=ctl["name"], killed=ok, benign=True, exit=r.returncode, by=[], undecided=undec[:3], detail="" if ok else out[-600:])
        killed = r.returncode == 1 and bool(viol) and (exp is None or any(re.search(exp, v) for v in viol))
        return dict(name=ctl["name"], killed=killed, exit=r.returncode, by=viol[:4], undecided=undec[:3],
                    detail="" if killed else out[-600:])
    finally:
        shutil.rmtree(d, ignore_errors=True)
        shutil.rmtree(ev, ignore_errors=True)


def run_controls(prop):
    """-> dict(applied, killed, survivors=[...], stale=[...], table=[...])"""
    if os.environ.get("VERIF_NO_CONTROLS"):
        return None
    try:
        mod = importlib.import_module("controls.%s" % prop)
    except ImportError:
        return None
    res = common.pmap(run_one, [(prop, c) for c in mod.CONTROLS], procs=min(8, len(mod.CONTROLS)), chunksize=1)
    return {
        "applied": len(res),
        "killed": sum(1 for r in res if r["killed"]),
        "survivors": [r for r in res if not r["killed"] and not r.get("stale")],
        "stale": [r for r in res if r.get("stale")],
        "table": [{k: r.get(k) for k in ("name", "killed", "exit", "by", "benign")} for r in res],
    }

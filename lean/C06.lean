/-
C06 — fold lemma for `json_schema()` (cdd/json_schema/emit.py):

    required = []
    properties = dict(map(partial(param2json_schema_property, required=required), params.items()))

`step` is one call of param2json_schema_property seen through its PROVED contract (contracts/C06.py, E1):
it appends the parameter's name to `required` exactly when the type is not Optional and leaves the rest of the
list alone.  `dict(map(f, xs))` applies f to every item of xs once, in order (side conditions S1-S4 of
checks/C06.py), i.e. it is the left fold below.  Conclusion, for parameter lists of ANY length: the emitted
`required` is the list of the non-Optional parameter names in declaration order — "a property is listed as
required exactly when its type is not Optional".
-/

variable {Item Name : Type} (name : Item → Name) (optional : Item → Bool)

/-- the effect of one call on `required`, as given by the callee's contract -/
def step (name : Item → Name) (optional : Item → Bool) (req : List Name) (x : Item) : List Name :=
  if optional x then req else req ++ [name x]

theorem fold_from (xs : List Item) :
    ∀ acc : List Name, xs.foldl (step name optional) acc
      = acc ++ (xs.filter (fun x => !optional x)).map name := by
  induction xs with
  | nil => intro acc; simp
  | cons x xs ih =>
    intro acc
    cases h : optional x <;> simp [List.foldl, step, h, ih, List.filter]

theorem required_is_filter (xs : List Item) :
    xs.foldl (step name optional) [] = (xs.filter (fun x => !optional x)).map name := by
  simpa using fold_from name optional xs []

theorem required_iff_not_optional (xs : List Item) (n : Name) :
    n ∈ xs.foldl (step name optional) [] ↔ ∃ x, x ∈ xs ∧ optional x = false ∧ name x = n := by
  rw [required_is_filter]
  simp [List.mem_map, List.mem_filter, and_assoc]

#print axioms required_is_filter
#print axioms required_iff_not_optional

/-
Literal <-> pattern (cdd/json_schema/utils/emit_utils.py and parse_utils.py):

    emit :   "pattern": "|".join(enum)                 -- enum = the sorted members of the Literal
    parse:   maybe_enum = _param["pattern"].split("|")  -- then Literal['m1', 'm2', ...]

For a one-character separator Python's `sep.join(ms)` is `[sep].intercalate ms` and `s.split(sep)` is `s.splitOn sep`
on lists of characters.  Conclusion, for any number of members of any length: the members that come back are the
members that went in, PROVIDED no member contains the separator and there is at least one member (side conditions of
checks/C06.py: both sites use the same one-character constant).  Members with the separator in them are a known
finding of the pinned tree (they do come back split).
-/

def pyJoin (sep : Char) (ms : List (List Char)) : List Char := [sep].intercalate ms
def pySplit (sep : Char) (s : List Char) : List (List Char) := s.splitOn sep

theorem pattern_roundtrip (sep : Char) (ms : List (List Char)) (hne : ms ≠ [])
    (hsep : ∀ m ∈ ms, sep ∉ m) : pySplit sep (pyJoin sep ms) = ms := by
  unfold pySplit pyJoin
  exact List.splitOn_intercalate sep hsep hne

#print axioms pattern_roundtrip

/-
C03 — closure lemma over the hop contracts (DESIGN.md §5 C03).

`hop f x` is one conversion step (emit as format `f`, render, re-parse), `pi` the interface proper
(names, order, types, defaults).  The two hypotheses are the *contracts* of a hop, checked (bounded) on the
real emitters/parsers by checks/C03.py over the computed set E:

  H1 : every hop preserves pi on E          H2 : E is closed under every hop

Conclusions, for chains of ANY length (the part no enumeration gives):
  chain_preserves : the interface after the chain is the interface before it, and the result stays in E
  chains_commute  : any two chains from the same start agree on the interface
-/

variable {IR F P : Type} (hop : F → IR → IR) (pi : IR → P) (E : IR → Prop)

def run (hop : F → IR → IR) : List F → IR → IR
  | [],      x => x
  | f :: fs, x => run hop fs (hop f x)

theorem chain_preserves
    (H1 : ∀ x, E x → ∀ f, pi (hop f x) = pi x)
    (H2 : ∀ x, E x → ∀ f, E (hop f x)) :
    ∀ (fs : List F) (x : IR), E x → pi (run hop fs x) = pi x ∧ E (run hop fs x) := by
  intro fs
  induction fs with
  | nil => intro x hx; exact ⟨rfl, hx⟩
  | cons f fs ih =>
    intro x hx
    have h := ih (hop f x) (H2 x hx f)
    exact ⟨by simpa [run] using h.1.trans (H1 x hx f), by simpa [run] using h.2⟩

theorem chains_commute
    (H1 : ∀ x, E x → ∀ f, pi (hop f x) = pi x)
    (H2 : ∀ x, E x → ∀ f, E (hop f x))
    (fs gs : List F) (x : IR) (hx : E x) :
    pi (run hop fs x) = pi (run hop gs x) := by
  rw [(chain_preserves hop pi E H1 H2 fs x hx).1, (chain_preserves hop pi E H1 H2 gs x hx).1]

#print axioms chain_preserves
#print axioms chains_commute

"""Seeded faults the C20 dry-run frame obligations must reject (deductive part only)"""

E = "cdd/compound/exmod.py"
U = "cdd/compound/exmod_utils.py"
CONTROLS = [
    dict(name="make_sqlalchemy_mod no longer depends on dry_run (the defect fixed by b5a8218)",
         edits=[(E, "        not dry_run\n        and emit_name in frozenset", "        emit_name in frozenset")],
         expect=r"dry_run-frame/FS_WRITE@cdd.compound.exmod:_create_sqlalchemy_mod"),
    dict(name="output directory created before the dry-run test",
         edits=[(E, "    elif dry_run:\n        print(\n            \"mkdir", "    elif False:\n        print(\n            \"mkdir")],
         expect=r"dry_run-frame/FS_WRITE@cdd.compound.exmod:exmod:os.makedirs#0"),
]
CONTROLS += [
    dict(name="emit_file_on_hierarchy: __init__.py touched outside the else",
         edits=[(U, "    else:\n        open(init_filepath, \"a\").close()\n", "    open(init_filepath, \"a\").close()\n")],
         expect=r"dry_run-frame/FS_WRITE@cdd.compound.exmod_utils:emit_file_on_hierarchy:open#0"),
    dict(name="emit_file_on_hierarchy: makedirs in both arms of the conditional expression",
         edits=[(U, "                if dry_run\n                else makedirs(emit_filename_dir)", "                if dry_run and makedirs(emit_filename_dir) is None\n                else makedirs(emit_filename_dir)")],
         expect=r"dry_run-frame/FS_WRITE@cdd.compound.exmod_utils:emit_file_on_hierarchy:os.makedirs"),
    dict(name="_emit_symbol: file emitted before the dry-run test",
         edits=[(U, "    if dry_run:\n        print(\n            \"write\\t{emit_filename!r}\".format(emit_filename=emit_filename),\n            file=EXMOD_OUT_STREAM,\n        )\n    else:\n        cdd.shared.emit.file.file(gen_node, filename=emit_filename, mode=\"wt\")",
                 "    cdd.shared.emit.file.file(gen_node, filename=emit_filename, mode=\"wt\")")],
         expect=r"dry_run-frame/FS_WRITE@cdd.shared.emit.file:file"),
    dict(name="exmod_single_folder called without passing dry_run on",
         edits=[(E, "        no_word_wrap=no_word_wrap,\n        dry_run=dry_run,\n        module_root=module_root,", "        no_word_wrap=no_word_wrap,\n        dry_run=False,\n        module_root=module_root,")],
         expect=r"dry_run-frame/"),
    dict(name="BENIGN: exmod reports the directory it would create under --dry-run as well as creating it otherwise (same guard)", benign=True,
         edits=[("cdd/compound/exmod.py", "    elif not path.isdir(output_directory):\n        makedirs(output_directory)\n", "    elif not path.isdir(output_directory):\n        print(\"creating\", output_directory)\n        makedirs(output_directory)\n")]),
    dict(name="relative_filename falls back to a path relative to the working directory (`..` components; seed C20_f shape)",
         edits=[("cdd/shared/pkg_utils.py", "        filename,\n    )\n", "        __import__(\"os\").path.relpath(filename),\n    )\n")],
         expect=r"relative_filename/ensures\[0\]"),
    dict(name="get_module_contents keys an aliased re-export by its public alias (seed C20_i shape: the 'already in the file' test then misses and the source file is rewritten)",
         edits=[("cdd/compound/exmod_utils.py", "                mod_to_symbol[import_from.module].append(name.name)\n", "                mod_to_symbol[import_from.module].append((name.name, name.asname))\n"),
                ("cdd/compound/exmod_utils.py", "                node_name=node.name,\n", "                node_name=(asname if asname and node.name == submodule_name else node.name),\n"),
                ("cdd/compound/exmod_utils.py", "            for submodule_name in submodule_names\n", "            for submodule_name, asname in submodule_names\n")],
         expect=r"get_module_contents/symbol-keyed-by-its-own-name"),
    dict(name="BENIGN: the key of a collected symbol is built with str.join", benign=True,
         edits=[("cdd/compound/exmod_utils.py", '            "{module_name}{submodule_name}.{node_name}".format(\n                module_name="{}.".format(module_name) if module_name else "",\n                submodule_name=submodule_name,\n                node_name=node.name,\n            ): node\n',
                 '            ".".join(filter(None, (module_name, submodule_name, node.name))): node\n')]),
]

"""Seeded faults the C10 rule system must reject (deductive part only)"""

P = "cdd/shared/parse/utils/parser_utils.py"
A = "cdd/shared/ast_utils.py"
CONTROLS = [
    dict(name="merge_params iterates the set difference (the defect fixed by c662cb3)",
         edits=[(P, "    for name in tuple(other_params.keys()):\n        if name not in target_params:\n            target_params[name] = other_params[name]", "    for name in other_params.keys() - target_params.keys():\n        target_params[name] = other_params[name]")],
         expect=r"order@cdd.shared.parse.utils.parser_utils:merge_params"),
    dict(name="_join_non_none iterates a frozenset (the defect fixed by d72bf2b)",
         edits=[(P, "            for key in other\n", "            for key in frozenset(primacy) | frozenset(other)\n")],
         expect=r"order@cdd.shared.parse.utils.parser_utils:_join_non_none"),
    dict(name="infer_imports: sorted() dropped around the frozenset of names",
         edits=[(A, "sorted(frozenset(map(itemgetter(0), mod_names[1])))", "list(frozenset(map(itemgetter(0), mod_names[1])))")],
         expect=r"order@cdd.shared.ast_utils:infer_imports"),
    dict(name="infer_imports: sorted with a non-injective key",
         edits=[(A, "sorted(frozenset(map(itemgetter(0), mod_names[1])))", "sorted(frozenset(map(itemgetter(0), mod_names[1])), key=str.casefold)")],
         expect=r"order@cdd.shared.ast_utils:infer_imports"),
    dict(name="module-level memo written by a parser",
         edits=[("cdd/docstring/parse.py", "def docstring(", "_SEEN = {}\n\n\ndef docstring("),
                ("cdd/docstring/parse.py", "    assert isinstance(\n        doc_string, str\n    )", "    _SEEN[doc_string] = True\n    assert isinstance(\n        doc_string, str\n    )")],
         expect=r"state.module-object-mutation@cdd.docstring.parse:docstring"),
    dict(name="mutable default that is appended to",
         edits=[("cdd/shared/pure_utils.py", "def strip_split(param, sep):", "def strip_split(param, sep, _acc=[]):\n    _acc.append(param)")],
         expect=r"state.mutable-default@cdd.shared.pure_utils:strip_split"),
]
CONTROLS += [
    dict(name="a callee that receives the set of parameter names iterates it into a list (interprocedural)",
         edits=[("cdd/class_/utils/emit_utils.py", "        self.node_ids = node_ids\n", "        self.node_ids = node_ids\n        self.ordered_ids = list(node_ids)\n")],
         expect=r"order@cdd.class_.utils.emit_utils:RewriteName.__init__"),
    dict(name="module-level template with a nested dict handed out by shallow copy (seed C02_c shape)",
         edits=[("cdd/function/utils/parse_utils.py", "def _interpolate_return(function_def, intermediate_repr):\n", "_EMPTY_RETURNS = OrderedDict(((\"return_type\", {}),))\n\n\ndef _interpolate_return(function_def, intermediate_repr):\n"),
                ("cdd/function/utils/parse_utils.py", "            intermediate_repr[\"returns\"] = OrderedDict(((\"return_type\", {}),))\n", "            intermediate_repr[\"returns\"] = _EMPTY_RETURNS.copy()\n")],
         expect=r"state.shared-mutable-template@cdd.function.utils.parse_utils:_interpolate_return"),
    dict(name="module-level flat dict passed to a helper that updates it in place (seed C16_c shape)",
         edits=[("cdd/shared/pure_utils.py", "def update_d(d, arg=None, **kwargs):\n", "_DEFAULTS = {\"a\": 1}\n\n\ndef _with_defaults(**kw):\n    return update_d(_DEFAULTS, **kw)\n\n\ndef update_d(d, arg=None, **kwargs):\n")],
         expect=r"state.shared-mutable-template@cdd.shared.pure_utils:_with_defaults"),
    dict(name="BENIGN: infer_imports sorts the imported names in two steps (list(S) then .sort())", benign=True,
         edits=[("cdd/shared/ast_utils.py", "def infer_imports(module, modules_to_all=DEFAULT_MODULES_TO_ALL):", "def _sorted_names(names):\n    out = list(frozenset(names))\n    out.sort()\n    return out\n\n\ndef infer_imports(module, modules_to_all=DEFAULT_MODULES_TO_ALL):")]),
]

"""Seeded faults the C12 frame lemmas must reject (deductive part only)"""

F = "cdd/shared/conformance.py"
CONTROLS = [
    dict(name="ground_truth skips files that are the truth file (seed C12_a shape)",
         edits=[(F, "                filenames,\n            )\n        )\n\n    return effect", "                filter(lambda fn: path.realpath(fn) != path.realpath(truth_file), filenames),\n            )\n        )\n\n    return effect")],
         expect=r"ground_truth/every-listed-file"),
    # removed: "in-place rewrite no longer guarded by cmp_ast" (`if True:`).  Observably equivalent on the pinned tree: the inner
    # `if rewrite_at_query.replaced` still guards the write, function / argparse targets are never `replaced`, and class files
    # are rewritten anyway (known finding).  Under the confirm-by-replay policy the failed shape rule is undecided (exit 2).
    dict(name="file rewritten even when nothing was replaced",
         edits=[(F, "        if rewrite_at_query.replaced:\n            cdd.shared.emit.file.file(parsed_ast, filename, mode=\"wt\", skip_black=False)", "        cdd.shared.emit.file.file(parsed_ast, filename, mode=\"wt\", skip_black=False)")],
         expect=r"_conform_filename/rewrite-only-when-different"),
    dict(name="a backup of the target is written next to it",
         edits=[(F, "    original_node = find_in_ast(search, parsed_ast)\n    replacement_node = emit_func(", "    cdd.shared.emit.file.file(parsed_ast, filename + \".orig\", mode=\"wt\", skip_black=True)\n    original_node = find_in_ast(search, parsed_ast)\n    replacement_node = emit_func(")],
         expect=r"_conform_filename/writes-only-its-own-filename"),
    dict(name="ground_truth normalises the truth file in passing",
         edits=[(F, "    original_node = find_in_ast(search, true_ast)\n    gold_ir", "    with open(truth_file, \"wt\") as f:\n        f.write(cdd.shared.source_transformer.to_code(true_ast))\n    original_node = find_in_ast(search, true_ast)\n    gold_ir")],
         expect=r"ground_truth/truth-file-opened-read-only"),
    dict(name="BENIGN: the difference test is spelled `cmp_ast(...) is False`", benign=True,
         edits=[(F, "    if not cmp_ast(original_node, replacement_node):", "    if cmp_ast(original_node, replacement_node) is False:")]),
    dict(name="BENIGN: ground_truth collects the per-file effects with a for loop instead of map", benign=True,
         edits=[(F, "        effect.update(\n            map(\n                lambda filename: _conform_filename(\n                    filename=filename,", "        for filename in filenames:\n          effect.update(\n            (\n                _conform_filename(\n                    filename=filename,"),
                (F, "                    type_wanted=type_wanted,\n                ),\n                filenames,\n            )\n        )\n", "                    type_wanted=type_wanted,\n                ),\n            )\n          )\n")]),
    dict(name="cmp_ast no longer compares the lengths of two sequences (a strict prefix compares equal)",
         edits=[("cdd/shared/ast_utils.py", "        if len(node0) != len(node1):\n            return False\n\n        for left, right in zip(node0, node1):", "        if len(node0) != len(node1):\n            pass\n\n        for left, right in zip(node0, node1):")],
         expect=r"cmp_ast#sequences-of-different-length-differ/block.ensures\[0\]"),
    dict(name="the argparse emitter records the default it read from the prose in the caller's parameter dict (seed C12_i shape: the class emitter then writes `= None`)",
         edits=[("cdd/shared/ast_utils.py", "    doc, _default = extract_default(_param[\"doc\"], emit_default_doc=emit_default_doc)\n    _action, default, _required, _typ = infer_type_and_default(\n        action,\n        _param.get(\"default\", _default),",
                 "    doc, _default = extract_default(_param[\"doc\"], emit_default_doc=emit_default_doc)\n    _param.setdefault(\"default\", _default)\n    _action, default, _required, _typ = infer_type_and_default(\n        action,\n        _param[\"default\"],")],
         expect=r"param2argparse_param#frame-on-default/block.ensures\[0\]"),
    dict(name="_resolve_arg gives a **kwargs parameter an explicit None default in the caller's dict",
         edits=[("cdd/shared/ast_utils.py", "        typ, required = \"loads\", not name.endswith(\"kwargs\")\n", "        typ, required = \"loads\", not name.endswith(\"kwargs\")\n        _param.setdefault(\"default\", None)\n")],
         expect=r"_resolve_arg/ensures\[1\]"),
    dict(name="BENIGN: the argparse emitter supplies the empty description before it resolves the type", benign=True,
         edits=[("cdd/shared/ast_utils.py", "    _param.setdefault(\"typ\", \"Any\")\n    action, choices, required, typ, (name, _param) = _resolve_arg(", "    _param.setdefault(\"typ\", \"Any\")\n    _param.setdefault(\"doc\", \"\")\n    action, choices, required, typ, (name, _param) = _resolve_arg(")]),
]

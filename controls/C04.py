"""Seeded faults the C04 shape contracts must reject (deductive part only)"""

CONTROLS = [
    dict(name="argparse emitter skips parameters without description",
         edits=[("cdd/argparse_function/emit.py", '                                        intermediate_repr["params"].items(),\n                                    )\n                                )\n                                if "params" in intermediate_repr',
                 '                                        filter(lambda kv: kv[1].get("doc"), intermediate_repr["params"].items()),\n                                    )\n                                )\n                                if "params" in intermediate_repr')],
         expect=r"argparse_function/one-add_argument-per-parameter"),
    dict(name="class emitter drops private attributes",
         edits=[("cdd/class_/emit.py", '                            (intermediate_repr.get("params") or OrderedDict()).items(),', '                            filter(lambda kv: not kv[0].startswith("_"), (intermediate_repr.get("params") or OrderedDict()).items()),')],
         expect=r"class_/one-attribute-per-parameter"),
    dict(name="function emitter takes defaults from a differently filtered tuple",
         edits=[("cdd/function/emit.py", '            lambda param: not param[0].endswith("kwargs"),\n            intermediate_repr["params"].items(),', '            lambda param: not param[0].endswith("kwargs") and not param[0].startswith("_"),\n            intermediate_repr["params"].items(),')],
         expect=r"function/one-arg-per-non-kwargs-parameter"),
    dict(name="BENIGN: class emitter materialises the parameter items first (same elements, same order)", benign=True,
         edits=[("cdd/class_/emit.py", '                            (intermediate_repr.get("params") or OrderedDict()).items(),', '                            list((intermediate_repr.get("params") or OrderedDict()).items()),')]),
    dict(name="set_default_doc turns the NoneStr default of the caller's param dict into None (seed C04_e shape)",
         edits=[("cdd/shared/defaults_utils.py", "        # if _param[\"default\"] == NoneStr: _param[\"default\"] = None\n", "        if _param[\"default\"] == \"```(None)```\":\n            _param[\"default\"] = None\n")],
         expect=r"set_default_doc/ensures\[5\]"),
    dict(name="ast_parse_fix builds a Name for every bracket-less type string (seed C04_g shape: `int | None`, dotted names)",
         edits=[("cdd/shared/emit/utils/emitter_utils.py", "    balanced: bool = (s.count(\"[\") + s.count(\"]\")) & 1 == 0\n", "    if \"[\" not in s and \"]\" not in s:\n        return ast.Name(s, ast.Load(), lineno=None, col_offset=None)\n    balanced: bool = (s.count(\"[\") + s.count(\"]\")) & 1 == 0\n")],
         expect=r"ast_parse_fix/annotation-node-comes-from-the-parser"),
    dict(name="BENIGN: ast_parse_fix binds the parsed module to a local first", benign=True,
         edits=[("cdd/shared/emit/utils/emitter_utils.py", "    return ast.parse(s if balanced else \"{}]\".format(s)).body[0].value\n", "    mod = ast.parse(s if balanced else \"{}]\".format(s))\n    return mod.body[0].value\n")]),
]

"""Seeded faults the C02 padding lemma must reject (deductive part only)"""

F = "cdd/function/parse.py"
CONTROLS = [
    dict(name="padding appended after the defaults instead of in front",
         edits=[(F, "                list(islice(cycle((None,)), diff))\n                + getattr(function_def.args, defaults),", "                getattr(function_def.args, defaults)\n                + list(islice(cycle((None,)), diff)),")],
         expect=r"defaults-padding/block.ensures\[[23]\]"),
    dict(name="one None too few",
         edits=[(F, "                list(islice(cycle((None,)), diff))", "                list(islice(cycle((None,)), diff - 1))")],
         expect=r"defaults-padding/block.ensures\[[01]\]"),
    dict(name="kw_defaults padded to the length of args",
         edits=[(F, "        diff = abs(\n            len(getattr(function_def.args, args))\n            - len(getattr(function_def.args, defaults))\n        )", "        diff = abs(\n            len(function_def.args.args)\n            - len(getattr(function_def.args, defaults))\n        )")],
         expect=r"defaults-padding/block.ensures\[1\]"),
    dict(name="defaults replaced by the padding alone",
         edits=[(F, "                list(islice(cycle((None,)), diff))\n                + getattr(function_def.args, defaults),", "                list(islice(cycle((None,)), diff + len(getattr(function_def.args, defaults)))),")],
         expect=r"defaults-padding/block.ensures\[[23]\]"),
]

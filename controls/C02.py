"""Seeded faults the C02 padding lemma must reject (deductive part only)"""

F = "cdd/function/parse.py"
CONTROLS = [
    dict(name="padding appended after the defaults instead of in front",
         edits=[(F, "                list(islice(cycle((None,)), diff))\n                + getattr(function_def.args, defaults),", "                getattr(function_def.args, defaults)\n                + list(islice(cycle((None,)), diff)),")],
         expect=r"defaults-padding/block.ensures\[[23]\]"),
    dict(name="one None too few",
         edits=[(F, "                list(islice(cycle((None,)), diff))", "                list(islice(cycle((None,)), diff - 1))")],
         expect=r"defaults-padding/block.ensures\[[01]\]"),
    dict(name="kw_defaults padded to the length of args",
         edits=[(F, "        diff = abs(\n            len(getattr(function_def.args, args))\n            - len(getattr(function_def.args, defaults))\n        )", "        diff = abs(\n            len(function_def.args.args)\n            - len(getattr(function_def.args, defaults))\n        )")],
         expect=r"defaults-padding/block.ensures\[1\]"),
    dict(name="defaults replaced by the padding alone",
         edits=[(F, "                list(islice(cycle((None,)), diff))\n                + getattr(function_def.args, defaults),", "                list(islice(cycle((None,)), diff + len(getattr(function_def.args, defaults)))),")],
         expect=r"defaults-padding/block.ensures\[[23]\]"),
    dict(name="Optional-from-prose made case-insensitive (seed C02_g shape)",
         edits=[('cdd/shared/docstring_parsers.py', '(_param["doc"].startswith(("(Optional)", "Optional")) or was_none)', '(_param["doc"].lower().startswith(("(optional)", "optional")) or was_none)')],
         expect=r"optional-from-prose/block.ensures\[1\]"),
    dict(name="Optional-from-prose looks for the word anywhere in the description",
         edits=[('cdd/shared/docstring_parsers.py', '(_param["doc"].startswith(("(Optional)", "Optional")) or was_none)', '("Optional" in _param["doc"] or was_none)')],
         expect=r"optional-from-prose/block.ensures\[1\]"),
    dict(name="Optional wrapping applied twice",
         edits=[('cdd/shared/docstring_parsers.py', '            and not _param["typ"].startswith("Optional[")\n        ):', '        ):')],
         expect=r"optional-from-prose/block.ensures\[2\]"),
    dict(name="BENIGN: the two prefixes are tested one by one", benign=True,
         edits=[('cdd/shared/docstring_parsers.py', '(_param["doc"].startswith(("(Optional)", "Optional")) or was_none)', '(_param["doc"].startswith("(Optional)") or _param["doc"].startswith("Optional") or was_none)')]),
]

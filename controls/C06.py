"""Seeded faults the C06 lemma must reject (deductive part only)"""

F = "cdd/json_schema/utils/emit_utils.py"
CONTROLS = [
    dict(name="Optional parameters are listed as required too",
         edits=[(F, "            # elif _param.get(\"typ\") in typ2json_type:\n            #    _param[\"type\"] = typ2json_type[_param.pop(\"typ\")]\n        else:\n            required.append(name)", "        required.append(name)")],
         expect=r"param2json_schema_property/ensures\[0\]"),
    dict(name="simple JSON types are not listed as required",
         edits=[(F, "        _param[\"type\"] = typ2json_type[_param.pop(\"typ\")]\n        required.append(name)", "        _param[\"type\"] = typ2json_type[_param.pop(\"typ\")]")],
         expect=r"param2json_schema_property/ensures\[0\]"),
    dict(name="name appended twice for datetime",
         edits=[(F, "        _param.update({\"type\": \"string\", \"format\": \"date-time\"})\n        required.append(name)", "        _param.update({\"type\": \"string\", \"format\": \"date-time\"})\n        required.append(name)\n        required.append(name)")],
         expect=r"param2json_schema_property/ensures\[[01]\]"),
    dict(name="typ key kept alongside type",
         edits=[(F, "        _param[\"type\"] = _param.pop(\"typ\")\n", "        _param[\"type\"] = _param[\"typ\"]\n")],
         expect=r"param2json_schema_property/ensures\[4\]"),
    dict(name="description taken from the name",
         edits=[(F, "        _param[\"description\"] = _param.pop(\"doc\")", "        _param[\"description\"] = name\n        _param.pop(\"doc\")")],
         expect=r"param2json_schema_property/ensures\[3\]"),
]

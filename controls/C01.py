"""Seeded faults the C01/C08 quoting contracts must reject (deductive part only)"""

F = "cdd/shared/pure_utils.py"
CONTROLS = [
    dict(name="unquote strips only the leading quote",
         edits=[(F, "        return input_str[1:-1]\n    return input_str", "        return input_str[1:]\n    return input_str")],
         expect=r"unquote/ensures|lemma_unquote_quote"),
    dict(name="unquote accepts mismatched quotes",
         edits=[(F, "            input_str.startswith('\"')\n            and input_str.endswith('\"')\n            or input_str.startswith(\"'\")\n            and input_str.endswith(\"'\")",
                 "            input_str.startswith(('\"', \"'\"))\n            and input_str.endswith(('\"', \"'\"))")],
         expect=r"unquote/ensures"),
    dict(name="quote wraps strings that are already quoted",
         edits=[(F, "        or len(s) > 1\n        and s[0] == s[-1]\n        and s[0] in frozenset((\"'\", '\"'))\n", "")],
         expect=r"quote/ensures|lemma_quote_idempotent"),
    dict(name="quote puts the mark only in front",
         edits=[(F, '    return "{mark}{s}{mark}".format(mark=mark, s=s)', '    return "{mark}{s}".format(mark=mark, s=s)')],
         expect=r"quote/ensures"),
    dict(name="code_quoted accepts the bare six backticks",
         edits=[(F, 'isinstance(s, str) and len(s) > 6 and s.startswith("```") and s.endswith("```")', 'isinstance(s, str) and len(s) > 5 and s.startswith("```") and s.endswith("```")')],
         expect=r"code_quoted/ensures"),
    dict(name="'+' added to the characters that mark a typed default as an expression (repr(1e16) == '1e+16'; seed C01_c shape)",
         edits=[("cdd/shared/defaults_utils.py", 'partial(contains, frozenset(("*", "^", "&", "|", "$", "@", "!"))),', 'partial(contains, frozenset(("*", "+", "^", "&", "|", "$", "@", "!"))),')],
         expect=r"structural/_parse_out_default_and_doc/expression-markers-disjoint-from-number-repr"),
    dict(name="'.' added to the expression markers (every float has one)",
         edits=[("cdd/shared/defaults_utils.py", 'partial(contains, frozenset(("*", "^", "&", "|", "$", "@", "!"))),', 'partial(contains, frozenset(("*", ".", "^", "&", "|", "$", "@", "!"))),')],
         expect=r"structural/_parse_out_default_and_doc/expression-markers-disjoint-from-number-repr"),
    dict(name="BENIGN: the expression markers are kept in a tuple, not a frozenset", benign=True,
         edits=[("cdd/shared/defaults_utils.py", 'partial(contains, frozenset(("*", "^", "&", "|", "$", "@", "!"))),', 'partial(contains, ("*", "^", "&", "|", "$", "@", "!")),')]),
]

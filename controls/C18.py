"""Seeded faults the C18 import model must reject (model only; the real replay is switched off)"""

CONTROLS = [
    dict(name="docstring_parsers: from-import inside the parser cycle (the defect fixed by b0f9e16)",
         edits=[("cdd/shared/docstring_parsers.py", "import cdd.shared.parse.utils.parser_utils\n", "from cdd.shared.parse.utils.parser_utils import merge_present_params\n"),
                ("cdd/shared/docstring_parsers.py", "        cdd.shared.parse.utils.parser_utils.merge_present_params(", "        merge_present_params(")],
         expect=r"import-first/cdd.shared.parse.utils.parser_utils"),
    dict(name="shared_utils re-imports compound.openapi.utils.emit_utils (the defect fixed by 78c8175)",
         edits=[("cdd/sqlalchemy/utils/shared_utils.py", "import cdd.shared.ast_utils\n", "import cdd.compound.openapi.utils.emit_utils\nimport cdd.shared.ast_utils\n")],
         expect=r"import-first/cdd.sqlalchemy.utils.emit_utils"),
    dict(name="ast_utils reads its sibling source_transformer at module level",
         edits=[("cdd/shared/ast_utils.py", "\n__all__ = [", "\n_unparse = cdd.shared.source_transformer.to_code\n\n__all__ = [")],
         expect=r"import-first/cdd.shared.source_transformer"),
    dict(name="class_/parse.py: from-import of a function of function.parse inside the cycle",
         edits=[("cdd/class_/parse.py", "import cdd.function.parse\n", "import cdd.function.parse\nfrom cdd.function.parse import function as _function\n")],
         expect=r"import-first/cdd.function.parse"),
    dict(name="BENIGN: a leaf module gains a standard-library import", benign=True,
         edits=[("cdd/shared/pure_utils.py", "import string\n", "import string\nimport textwrap  # noqa: F401\n")]),
]

"""Seeded faults the C19 rules must reject (deductive part only)"""

CONTROLS = [
    dict(name="main: guard tests phase != 0 instead of == 0",
         edits=[("cdd/__main__.py", "        if path.isfile(args.output_filename) and args.phase == 0:", "        if path.isfile(args.output_filename) and args.phase != 0:")],
         expect=r"main/gen-call-dominated"),
    dict(name="main: gen is called before the guard",
         edits=[("cdd/__main__.py", "        if path.isfile(args.output_filename) and args.phase == 0:\n            raise IOError(", "        gen(**args_dict)\n        if path.isfile(args.output_filename) and args.phase == 0:\n            raise IOError(")],
         expect=r"main/gen-call-dominated"),
    dict(name="gen expands ~ in the output path after the guard looked at the raw string (seed C19_a shape)",
         edits=[("cdd/compound/gen.py", "    extra_symbols = {}\n", "    output_filename = path.expanduser(output_filename)\n    extra_symbols = {}\n")],
         expect=r"gen/output_filename-never-rebound"),
    # removed: "gen_file truncates instead of appending" ('a' -> 'wt').  Through the CLI the exists-guard (proved to dominate
    # the call) keeps gen away from an existing file, so the property as stated is not observably broken; under the
    # confirm-by-replay policy the failed shape rule is reported as undecided (exit 2), which is the honest verdict.
    dict(name="__all__ entry skipped for private names",
         edits=[("cdd/compound/gen_utils.py", "        for name, obj in input_mapping_it\n    )", "        for name, obj in input_mapping_it\n        if not name.startswith(\"_\")\n    )")],
         expect=r"get_functions_and_classes"),
    dict(name="__all__ gets the raw name, not the templated one",
         edits=[("cdd/compound/gen_utils.py", "        or global__all__.append(name_tpl.format(name=name))", "        or global__all__.append(name)")],
         expect=r"get_functions_and_classes"),
    dict(name="any leading expression statement is pinned above the hoisted imports (seed C19_c shape)",
         edits=[("cdd/compound/gen_utils.py", "    doc_str: Optional[str] = ast.get_docstring(parsed_ast, clean=True)\n", "    doc_str = parsed_ast.body[0] if isinstance(parsed_ast.body[0], ast.Expr) else None\n")],
         expect=r"gen_module/only-the-docstring-stays-above-the-hoisted-imports"),
    dict(name="BENIGN: the exists-guard tests the phase first", benign=True,
         edits=[("cdd/__main__.py", "path.isfile(args.output_filename) and args.phase == 0", "args.phase == 0 and path.isfile(args.output_filename)")]),
    dict(name="names of builtins get an underscore appended (seed C19_d shape)",
         edits=[("cdd/shared/pure_utils.py", "    elif iskeyword(s):\n        return \"{}_\".format(s)", "    elif iskeyword(s) or hasattr(__import__(\"builtins\"), s):\n        return \"{}_\".format(s)")],
         expect=r"ensure_valid_identifier/ensures\[0\]"),
    dict(name="underscores are stripped from identifiers",
         edits=[("cdd/shared/pure_utils.py", "        \"_{}{}\".format(string.ascii_letters, string.digits)\n    )\n    return \"\".join(filter(valid.__contains__, s)) or \"_\"", "        \"{}{}\".format(string.ascii_letters, string.digits)\n    )\n    return \"\".join(filter(valid.__contains__, s)) or \"_\"")],
         expect=r"ensure_valid_identifier/ensures\[0\]"),
    dict(name="the symbol is named from the raw entry name, not from the template",
         edits=[("cdd/compound/gen_utils.py", "ensure_valid_identifier(name_tpl.format(name=name))", "ensure_valid_identifier(name)")],
         expect=r"get_emit_kwarg/symbol-named-by-the-template"),
    dict(name="BENIGN: ensure_valid_identifier tests the empty string with len()", benign=True,
         edits=[("cdd/shared/pure_utils.py", "    if not s:\n        return \"_\"\n    elif iskeyword(s):", "    if len(s) == 0:\n        return \"_\"\n    elif iskeyword(s):")]),
]

"""Seeded faults the C19 rules must reject (deductive part only)"""

CONTROLS = [
    dict(name="main: guard tests phase != 0 instead of == 0",
         edits=[("cdd/__main__.py", "        if path.isfile(args.output_filename) and args.phase == 0:", "        if path.isfile(args.output_filename) and args.phase != 0:")],
         expect=r"main/gen-call-dominated"),
    dict(name="main: gen is called before the guard",
         edits=[("cdd/__main__.py", "        if path.isfile(args.output_filename) and args.phase == 0:\n            raise IOError(", "        gen(**args_dict)\n        if path.isfile(args.output_filename) and args.phase == 0:\n            raise IOError(")],
         expect=r"main/gen-call-dominated"),
    dict(name="gen expands ~ in the output path after the guard looked at the raw string (seed C19_a shape)",
         edits=[("cdd/compound/gen.py", "    extra_symbols = {}\n", "    output_filename = path.expanduser(output_filename)\n    extra_symbols = {}\n")],
         expect=r"gen/output_filename-never-rebound"),
    # removed: "gen_file truncates instead of appending" ('a' -> 'wt').  Through the CLI the exists-guard (proved to dominate
    # the call) keeps gen away from an existing file, so the property as stated is not observably broken; under the
    # confirm-by-replay policy the failed shape rule is reported as undecided (exit 2), which is the honest verdict.
    dict(name="__all__ entry skipped for private names",
         edits=[("cdd/compound/gen_utils.py", "        for name, obj in input_mapping_it\n    )", "        for name, obj in input_mapping_it\n        if not name.startswith(\"_\")\n    )")],
         expect=r"get_functions_and_classes"),
    dict(name="__all__ gets the raw name, not the templated one",
         edits=[("cdd/compound/gen_utils.py", "        or global__all__.append(name_tpl.format(name=name))", "        or global__all__.append(name)")],
         expect=r"get_functions_and_classes"),
    dict(name="any leading expression statement is pinned above the hoisted imports (seed C19_c shape)",
         edits=[("cdd/compound/gen_utils.py", "    doc_str: Optional[str] = ast.get_docstring(parsed_ast, clean=True)\n", "    doc_str = parsed_ast.body[0] if isinstance(parsed_ast.body[0], ast.Expr) else None\n")],
         expect=r"gen_module/only-the-docstring-stays-above-the-hoisted-imports"),
    dict(name="BENIGN: the exists-guard tests the phase first", benign=True,
         edits=[("cdd/__main__.py", "path.isfile(args.output_filename) and args.phase == 0", "args.phase == 0 and path.isfile(args.output_filename)")]),
]

"""Seeded faults the C19 rules must reject (deductive part only)"""

CONTROLS = [
    dict(name="main: guard tests phase != 0 instead of == 0",
         edits=[("cdd/__main__.py", "        if path.isfile(args.output_filename) and args.phase == 0:", "        if path.isfile(args.output_filename) and args.phase != 0:")],
         expect=r"main/gen-call-dominated"),
    dict(name="main: gen is called before the guard",
         edits=[("cdd/__main__.py", "        if path.isfile(args.output_filename) and args.phase == 0:\n            raise IOError(", "        gen(**args_dict)\n        if path.isfile(args.output_filename) and args.phase == 0:\n            raise IOError(")],
         expect=r"main/gen-call-dominated"),
    dict(name="gen expands ~ in the output path after the guard looked at the raw string (seed C19_a shape)",
         edits=[("cdd/compound/gen.py", "    extra_symbols = {}\n", "    output_filename = path.expanduser(output_filename)\n    extra_symbols = {}\n")],
         expect=r"gen/output_filename-never-rebound"),
    dict(name="gen_file truncates instead of appending",
         edits=[("cdd/compound/gen_utils.py", '    with open(output_filename, "a") as f:', '    with open(output_filename, "wt") as f:')],
         expect=r"gen_file/appends"),
    dict(name="__all__ entry skipped for private names",
         edits=[("cdd/compound/gen_utils.py", "        for name, obj in input_mapping_it\n    )", "        for name, obj in input_mapping_it\n        if not name.startswith(\"_\")\n    )")],
         expect=r"get_functions_and_classes"),
    dict(name="__all__ gets the raw name, not the templated one",
         edits=[("cdd/compound/gen_utils.py", "        or global__all__.append(name_tpl.format(name=name))", "        or global__all__.append(name)")],
         expect=r"get_functions_and_classes"),
]

"""Seeded faults the C05 primary-key lemma must reject (deductive part only)"""

F = "cdd/sqlalchemy/utils/emit_utils.py"
CONTROLS = [
    dict(name="single candidate is marked without the [PK] prefix",
         edits=[(F, '                "[PK] {}".format(params[candidate_pks[0]]["doc"])\n                if params[candidate_pks[0]].get("doc")\n                else "[PK]"', '                "{}".format(params[candidate_pks[0]]["doc"])\n                if params[candidate_pks[0]].get("doc")\n                else "[PK]"')],
         expect=r"no-pk-branch/block.ensures\[0\]"),
    dict(name="existing id column is marked AND a second id-like candidate too",
         edits=[(F, '        elif "id" in intermediate_repr.get("params", iter(())):\n            params["id"]["doc"] = (', '        elif "id" in intermediate_repr.get("params", iter(())):\n            params[candidate_pks[0]]["doc"] = "[PK]"\n            params["id"]["doc"] = (')],
         expect=r"no-pk-branch/block.ensures\[0\]"),
    dict(name="fallback id column created without the marker",
         edits=[(F, '            params["id"] = {\n                "doc": "[PK]",', '            params["id"] = {\n                "doc": "primary key",')],
         expect=r"no-pk-branch/block.ensures\[0\]"),
    dict(name="BENIGN: local `candidate_pks` renamed throughout sqlalchemy/utils/emit_utils.py", benign=True,
         edits=[("cdd/sqlalchemy/utils/emit_utils.py", "candidate_pks", "pk_candidates", "rename")]),
    dict(name="the SQLAlchemy emitter's own table writes float as Integer (masked once the OpenAPI utilities are imported)",
         edits=[("cdd/sqlalchemy/utils/emit_utils.py", '        "float": "Float",\n', '        "float": "Integer",\n')],
         expect=r"type-tables/sqlalchemy-only/float-"),
    dict(name="the parser's table reads String back as bytes",
         edits=[("cdd/sqlalchemy/utils/parse_utils.py", '    "String": "str",\n', '    "String": "bytes",\n')],
         expect=r"type-tables/(sqlalchemy-only|with-openapi-utils)/str-"),
    dict(name="BENIGN: an extra spelling added to the parser's table", benign=True,
         edits=[("cdd/sqlalchemy/utils/parse_utils.py", '    "String": "str",\n', '    "String": "str",\n    "VARCHAR": "str",\n')]),
    dict(name="Enum labels are stringified (seed C05_h shape: Literal[0, 1, 2] comes back as Literal['0', '1', '2'])",
         edits=[("cdd/sqlalchemy/utils/shared_utils.py", "                    args=val.elts,\n", "                    args=[cdd.shared.ast_utils.set_value(str(cdd.shared.ast_utils.get_value(e_))) for e_ in val.elts],\n")],
         expect=r"literal-enum/labels-are"),
    dict(name="BENIGN: Enum labels passed as a tuple of the same nodes", benign=True,
         edits=[("cdd/sqlalchemy/utils/shared_utils.py", "                    args=val.elts,\n", "                    args=list(tuple(val.elts)),\n")]),
]

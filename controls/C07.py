"""Seeded faults the C07 frame lemmas must reject (deductive part only)"""

D = "cdd/compound/doctrans.py"
A = "cdd/shared/ast_cst_utils.py"
U = "cdd/compound/doctrans_utils.py"
CONTROLS = [
    dict(name="find_cst_at_ast keeps scanning after a match (index and node drift apart)",
         edits=[(A, "            cst_node_found = cst_node\n            break\n", "            cst_node_found = cst_node\n")],
         expect=r"find_cst_at_ast/(ensures\[0\]|loop0)"),
    dict(name="find_cst_at_ast no longer compares names",
         edits=[(A, '            and getattr(cst_node, "name", None) == getattr(node, "name", None)\n', "")],
         expect=r"find_cst_at_ast/ensures\[1\]"),
    dict(name="find_cst_at_ast accepts any CST type on the line",
         edits=[(A, "            and type(cst_node).__name__ == cst_type  # `isinstance` doesn't work\n", "")],
         expect=r"find_cst_at_ast/ensures\[2\]"),
    dict(name="find_cst_at_ast returns the previous slot",
         edits=[(A, "    return cst_node_no, cst_node_found", "    return (cst_node_no - 1 if cst_node_found is not None else cst_node_no), cst_node_found")],
         expect=r"find_cst_at_ast/ensures\[0\]"),
    dict(name="doctrans streams: conversion runs after the file was opened for writing (seed C07_b shape)",
         edits=[(D, "        doctransify_cst(cst_list, node)\n\n        with open(filename, \"wt\") as f:\n            f.write(\"\".join(map(attrgetter(\"value\"), cst_list)))",
                 "        with open(filename, \"wt\") as f:\n            doctransify_cst(cst_list, node)\n            f.write(\"\".join(map(attrgetter(\"value\"), cst_list)))")],
         expect=r"doctrans/(no-repo-call-after-open|payload)"),
    dict(name="doctrans writes a backup copy as well",
         edits=[(D, "        with open(filename, \"wt\") as f:", "        with open(filename + \".bak\", \"wt\") as bak:\n            bak.write(original_source)\n        with open(filename, \"wt\") as f:")],
         expect=r"doctrans/single-write-open"),
    dict(name="doctrans writes the stripped node values",
         edits=[(D, "f.write(\"\".join(map(attrgetter(\"value\"), cst_list)))", "f.write(\"\".join(map(str.rstrip, map(attrgetter(\"value\"), cst_list))))")],
         expect=r"doctrans/payload"),
    dict(name="docstring slot replaced without checking it is a docstring",
         edits=[(A, "    elif new_doc_str and existing_doc_str:\n", "    elif new_doc_str:\n")],
         expect=r"slot\+1-is-the-docstring-slot"),
    dict(name="return-type replacement also touches the next slot",
         edits=[(A, "        cst_list[cst_idx] = FunctionDefinitionStart(\n            line_no_start=cst_list[cst_idx].line_no_start,\n            line_no_end=cst_list[cst_idx].line_no_end,\n            name=cst_list[cst_idx].name,\n            value=value,",
                 "        cst_list[cst_idx + 1] = cst_list[cst_idx + 1]\n        cst_list[cst_idx] = FunctionDefinitionStart(\n            line_no_start=cst_list[cst_idx].line_no_start,\n            line_no_end=cst_list[cst_idx].line_no_end,\n            name=cst_list[cst_idx].name,\n            value=value,")],
         expect=r"maybe_replace_function_return_type/cst_list-write-frame"),
    dict(name="doctransify_cst drops nodes it could not match",
         edits=[(U, "            if cst_node is None:\n                continue\n", "            if cst_node is None:\n                cst_list.pop()\n                continue\n")],
         expect=r"doctransify_cst/no-direct-store"),
]

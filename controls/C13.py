"""Seeded faults the C13 lemma must reject (deductive part only)"""

F = "cdd/shared/ast_utils.py"
CONTROLS = [
    dict(name="defaults indexed with the raw parameter position (the defect fixed by 7adde57)",
         edits=[(F, """                    idx -= (
                        len(node.args.args)
                        - len(node.args.defaults)
                        - int(
                            len(node.args.args) > 0
                            and node.args.args[0].arg in frozenset(("self", "cls"))
                        )
                    )
""", "                    idx -= 0\n")],
         expect=r"default-alignment/block.ensures\[0\]"),
    dict(name="self/cls offset forgotten in the alignment",
         edits=[(F, """                        - int(
                            len(node.args.args) > 0
                            and node.args.args[0].arg in frozenset(("self", "cls"))
                        )
""", "")],
         expect=r"default-alignment/block.ensures\[0\]"),
    dict(name="lower bound of the index dropped (negative index wraps to another default)",
         edits=[(F, "                if idx is not None and len(node.args.defaults) > idx > -1:", "                if idx is not None and len(node.args.defaults) > idx:")],
         expect=r"default-alignment/block.ensures\[0\]"),
    dict(name="idx looked up among keyword-only parameters too (seed C13_a shape)",
         edits=[(F, "                            for _arg in node.args.args\n                            if _arg.arg == self.replacement_node.target.id", "                            for _arg in node.args.args + node.args.kwonlyargs\n                            if _arg.arg == self.replacement_node.target.id")],
         expect=r"idx-lookup-over-positional-args-only"),
    dict(name="annotate_ancestry numbers parameters from 0 even after self",
         edits=[(F, """                            (
                                -1
                                if len(child_node.args.args) > 0
                                and child_node.args.args[0].arg
                                in frozenset(("self", "cls"))
                                else 0
                            ),
""", "                            0,\n")],
         expect=r"annotate_ancestry/_idx"),
    dict(name="BENIGN: local `node` of annotate_ancestry's caller untouched; comment-only change", benign=True,
         edits=[("cdd/shared/ast_utils.py", "class RewriteAtQuery(NodeTransformer):", "# sync_properties rewrites through this transformer\nclass RewriteAtQuery(NodeTransformer):")]),
    dict(name="BENIGN: loop variable `_arg` renamed throughout ast_utils.py", benign=True,
         edits=[("cdd/shared/ast_utils.py", "_arg", "one_arg", "rename")]),
    dict(name="generic_visit replaces whatever node carries the searched location, literals included (the defect fixed by 92ed452)",
         edits=[("cdd/shared/ast_utils.py", "            and not isinstance(node, (Constant, Str))\n", "")],
         expect=r"generic_visit/never-replaces-a-literal"),
    dict(name="BENIGN: the literal exclusion is spelled with Constant only", benign=True,
         edits=[("cdd/shared/ast_utils.py", "            and not isinstance(node, (Constant, Str))\n", "            and not isinstance(node, Constant)\n")]),
    dict(name="the replacement loop writes the first slot instead of the one it found",
         edits=[("cdd/shared/ast_utils.py", "                        arg_l[idx] = emit_arg(self.replacement_node)\n", "                        arg_l[0] = emit_arg(self.replacement_node)\n")],
         expect=r"only-the-selected-slot/(loop1.preserve|block.ensures)"),
    dict(name="the replacement loop takes any parameter that carries a location (the test against the searched location is gone)",
         edits=[("cdd/shared/ast_utils.py", "                    if (\n                        hasattr(arg_l[idx], \"_location\")\n                        and arg_l[idx]._location == self.search\n                    ):\n                        arg_l[idx] = emit_arg",
                 "                    if hasattr(arg_l[idx], \"_location\"):\n                        arg_l[idx] = emit_arg")],
         expect=r"only-the-selected-slot/(loop1.preserve|block.ensures)"),
    dict(name="the replacement loop appends the new parameter instead of replacing the old one",
         edits=[("cdd/shared/ast_utils.py", "                        arg_l[idx] = emit_arg(self.replacement_node)\n", "                        arg_l.append(emit_arg(self.replacement_node))\n")],
         expect=r"only-the-selected-slot/"),
    dict(name="BENIGN: the replacement node is built before the store", benign=True,
         edits=[("cdd/shared/ast_utils.py", "                        arg_l[idx] = emit_arg(self.replacement_node)\n", "                        new_arg = emit_arg(self.replacement_node)\n                        arg_l[idx] = new_arg\n")]),
    dict(name="--input-eval executes the input module only up to the last plain assignment of the name (seed C13_j shape: `NAME += ...` afterwards is not seen)",
         edits=[("cdd/compound/sync_properties.py", "        local = {}\n        output = eval(compile(input_ast, filename=input_filename, mode=\"exec\"), local)\n",
                 "        last_definition = max((idx for idx, stmt in enumerate(input_ast.body) if getattr(stmt, \"_location\", None) == [input_param]), default=len(input_ast.body) - 1)\n        to_run = ast.Module(body=input_ast.body[: last_definition + 1], type_ignores=[])\n        local = {}\n        output = eval(compile(to_run, filename=input_filename, mode=\"exec\"), local)\n")],
         expect=r"sync_property/input-eval-runs-the-whole-input-module"),
]

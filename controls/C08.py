"""Seeded faults the C08 lemma must reject (deductive part only)"""

F = "cdd/shared/defaults_utils.py"
CONTROLS = [
    dict(name="guard looks for a value after 'Defaults to' instead of the word (seed C08_a shape)",
         edits=[(F, '    has_defaults = "Defaults" in _param["doc"] or "defaults" in _param["doc"]', '    has_defaults = "Defaults to " in _param["doc"] and not _param["doc"].endswith("Defaults to ")')],
         expect=r"set_default_doc/ensures\[0\]"),
    dict(name="guard dropped: always appends",
         edits=[(F, '    elif "default" in _param and not has_defaults and emit_default_doc:', '    elif "default" in _param and emit_default_doc:')],
         expect=r"set_default_doc/ensures\[0\]"),
    dict(name="appended clause spelled without the guard word",
         edits=[(F, '            _param["doc"] = "{doc} Defaults to {default}".format(', '            _param["doc"] = "{doc} Default: {default}".format(')],
         expect=r"set_default_doc/ensures\[1\]"),
    dict(name="clause prepended instead of appended",
         edits=[(F, '            _param["doc"] = "{doc} Defaults to {default}".format(', '            _param["doc"] = "Defaults to {default}. {doc}".format(')],
         expect=r"set_default_doc/ensures\[1\]"),
    dict(name="BENIGN: local `has_defaults` renamed throughout defaults_utils.py", benign=True,
         edits=[("cdd/shared/defaults_utils.py", "has_defaults", "mentions_default", "rename")]),
    dict(name="set_default_doc turns the NoneStr default of the caller's param dict into None (seed C04_e shape)",
         edits=[("cdd/shared/defaults_utils.py", "        # if _param[\"default\"] == NoneStr: _param[\"default\"] = None\n", "        if _param[\"default\"] == \"```(None)```\":\n            _param[\"default\"] = None\n")],
         expect=r"set_default_doc/ensures\[5\]"),
]

"""Seeded faults the C16 lemma must reject (deductive part only)"""

F = "cdd/compound/openapi/utils/emit_openapi_utils.py"
CONTROLS = [
    dict(name="request-body ref spelled {name}Request",
         edits=[(F, '"$ref": "#/components/requestBodies/{name}Body".format(name=name),', '"$ref": "#/components/requestBodies/{name}Request".format(name=name),')],
         expect=r"ensures\[0\]"),
    dict(name="schema stored under name.lower()",
         edits=[(F, '    components["schemas"][name] = {', '    components["schemas"][name.lower()] = {')],
         expect=r"ensures\[(0|1|12)\]"),
    dict(name="GET emitted under Create instead of Read",
         edits=[(F, '        if "R" in crud:\n            paths[_route]["get"] = {', '        if "C" in crud:\n            paths[_route]["get"] = {')],
         expect=r"ensures\[(4|6)\]"),
    dict(name="path parameter declared as `id` instead of the model's key",
         edits=[(F, '                    "name": _id,\n', '                    "name": "id",\n')],
         expect=r"ensures\[10\]"),
    dict(name="request body emitted unconditionally",
         edits=[(F, "    if _request_body:\n        components", "    if True:\n        components")],
         expect=r"ensures\[2\]"),
    dict(name="item route requires Create (seed C16_a shape)",
         edits=[(F, '    if not frozenset(crud) - frozenset("CRUD"):', '    if "C" in crud and not frozenset(crud) - frozenset("CRUD"):')],
         expect=r"ensures"),
    dict(name="DELETE written on the collection route",
         edits=[(F, '            paths[_route]["delete"] = {', '            paths[route] = {"delete": {}}\n            paths[_route]["delete"] = {')],
         expect=r"ensures\[(3|9)\]"),
    dict(name="BENIGN: local `_id` renamed throughout emit_openapi_utils.py", benign=True,
         edits=[("cdd/compound/openapi/utils/emit_openapi_utils.py", "_id", "pk_name", "rename")]),
]

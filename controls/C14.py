"""Seeded faults the C14 lemma must reject (deductive part only)"""

F = "cdd/shared/docstring_parsers.py"
CONTROLS = [
    dict(name="**kwargs keeps one asterisk",
         edits=[(F, '        name: str = name.lstrip("*")\n', "        name: str = name[1:]\n")],
         expect=r"_set_name_and_type/ensures\[0\]"),
    dict(name="*args branch no longer strips",
         edits=[(F, '    elif name is not None and name.startswith("*"):\n        name: str = name[1:]', '    elif name is not None and name.startswith("*"):\n        name: str = name')],
         expect=r"_set_name_and_type/ensures\[0\]"),
    dict(name="*args branch strips two characters",
         edits=[(F, '    elif name is not None and name.startswith("*"):\n        name: str = name[1:]', '    elif name is not None and name.startswith("*"):\n        name: str = name[2:]')],
         expect=r"_set_name_and_type/ensures\[0\]|ensures\[1\]"),
    dict(name="kwargs names are lower-cased",
         edits=[(F, '        name: str = name.lstrip("*")\n', '        name: str = name.lstrip("*").lower()\n')],
         expect=r"_set_name_and_type/ensures\[[12]\]"),
]

"""Seeded faults the C14 lemma must reject (deductive part only)"""

F = "cdd/shared/docstring_parsers.py"
CONTROLS = [
    dict(name="**kwargs keeps one asterisk",
         edits=[(F, '        name: str = name.lstrip("*")\n', "        name: str = name[1:]\n")],
         expect=r"_set_name_and_type/ensures\[0\]"),
    dict(name="*args branch no longer strips",
         edits=[(F, '    elif name is not None and name.startswith("*"):\n        name: str = name[1:]', '    elif name is not None and name.startswith("*"):\n        name: str = name')],
         expect=r"_set_name_and_type/ensures\[0\]"),
    dict(name="*args branch strips two characters",
         edits=[(F, '    elif name is not None and name.startswith("*"):\n        name: str = name[1:]', '    elif name is not None and name.startswith("*"):\n        name: str = name[2:]')],
         expect=r"_set_name_and_type/ensures\[0\]|ensures\[1\]"),
    dict(name="kwargs names are lower-cased",
         edits=[(F, '        name: str = name.lstrip("*")\n', '        name: str = name.lstrip("*").lower()\n')],
         expect=r"_set_name_and_type/ensures\[[12]\]"),
    dict(name="primary_key / foreign_key only folded (and deleted) when truthy (seed C14_c shape)",
         edits=[("cdd/sqlalchemy/utils/parse_utils.py", "        if longname in _param:\n            _param[\"doc\"] = (", "        if _param.get(longname):\n            _param[\"doc\"] = (")],
         expect=r"fold-keywords/block.ensures\[[01]\]"),
    dict(name="nullable keyword kept on the entry",
         edits=[("cdd/sqlalchemy/utils/parse_utils.py", "        not _param[\"nullable\"] or _handle_null()\n        del _param[\"nullable\"]\n", "        not _param[\"nullable\"] or _handle_null()\n")],
         expect=r"fold-keywords/block.ensures\[2\]"),
    dict(name="BENIGN: the loop over (shortname, longname) pairs is unrolled by hand for primary_key", benign=True,
         edits=[("cdd/sqlalchemy/utils/parse_utils.py", "    def _handle_null():", "    if \"primary_key\" in _param:\n        del _param[\"primary_key\"]\n\n    def _handle_null():")]),
    dict(name="BENIGN: local `_param` renamed throughout sqlalchemy/utils/parse_utils.py", benign=True,
         edits=[("cdd/sqlalchemy/utils/parse_utils.py", "_param", "entry", "rename")]),
]

"""Seeded faults the C15 lemmas must reject (deductive part only)"""

F = "cdd/shared/docstring_utils.py"
CONTROLS = [
    dict(name="footer slice starts one character late",
         edits=[(F, "            original_doc_str[last_idx_original:] if last_idx_original != -1 else None", "            original_doc_str[last_idx_original + 1 :] if last_idx_original != -1 else None")],
         expect=r"parse_docstring_into_header_args_footer/ensures\[0\]"),
    dict(name="header slice includes the first character of the section",
         edits=[(F, "            original_doc_str[:start_idx_original] if start_idx_original > -1 else None", "            original_doc_str[: start_idx_original + 1] if start_idx_original > -1 else None")],
         expect=r"parse_docstring_into_header_args_footer/ensures\[0\]"),
    dict(name="section slice (the one that is returned) treats last == 0 as absent",
         edits=[(F, "                    if doc_start_end[2] is not None and doc_start_end[2] > -1\n", "                    if doc_start_end[2] is not None and doc_start_end[2] > 0\n")],
         expect=r"parse_docstring_into_header_args_footer/ensures"),
    dict(name="re-assembly strips the header",
         edits=[(F, "    header_end_nls = num_of_nls(header, end=True) if header else 0\n", "    header = header.rstrip()\n    header_end_nls = num_of_nls(header, end=True) if header else 0\n")],
         expect=r"header_args_footer_to_str/ensures\[0\]"),
    dict(name="re-assembly appends a newline after the footer",
         edits=[(F, '        maybe_nl2="",  # if foot_end_has_nl else "\\n",', '        maybe_nl2="\\n",')],
         expect=r"header_args_footer_to_str/ensures\[1\]"),
    dict(name="_get_token_start_idx returns two before the line start",
         edits=[(F, "            elif any(filter(line.startswith, TOKENS_SET)):\n                return idx - len(stack)", "            elif any(filter(line.startswith, TOKENS_SET)):\n                return idx - len(stack) - 2")],
         expect=r"_get_token_start_idx/ensures\[0\]"),
]

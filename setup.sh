#!/bin/sh
# Build the overlay interpreter /verif/.venv (3.12 + z3/cvc5/crosshair/icontract/jsonschema + the repo's deps) offline.
set -e
HERE="$(cd "$(dirname "$0")" && pwd)"
V="$HERE/.venv"
if [ -x "$V/bin/python" ] && "$V/bin/python" -c "import z3, jsonschema, black, cdd" >/dev/null 2>&1; then
  exit 0
fi
rm -rf "$V"
/venv/bin/python -m venv "$V"
PIP_NO_INDEX=1 "$V/bin/pip" install -q --no-index --find-links /opt/veriftools/wheels z3-solver cvc5 crosshair-tool icontract jsonschema hypothesis >/dev/null
SP="$("$V/bin/python" -c 'import sysconfig; print(sysconfig.get_paths()["purelib"])')"
echo "import site; site.addsitedir('/venv/lib/python3.12/site-packages')" > "$SP/zz_repo_overlay.pth"
"$V/bin/python" -c "import z3, jsonschema, black, cdd; print('overlay venv ok', z3.get_version_string())"

"""
C11 — variants for every `while` loop of the non-test package (sidecar, keyed by function + loop ordinal).

A loop listed here is proved to terminate by E1 in loop-local mode: from an arbitrary state of the
declared sorts, `variant >= 0` under the guard and `variant` strictly decreases on every back edge.
A `while` loop of the package that is NOT listed here is an undischarged obligation (exit 2).
"""

from cddvc.symexec import Contract

PURE = {"count_iter_items": "int", "_find_end_of_args_returns": "int"}

CONTRACTS = [
    Contract(
        "cdd.docstring.emit:docstring",
        loops={
            "while@next_nl > -1": {
                "vars": {"next_nl": "int", "prev_nl": "int", "candidate_doc_str": "str"},
                # -1 once the search has failed; otherwise the distance to the end of the text (clamped)
                "variant": "ite(next_nl > -1, ite(length(candidate_doc_str) - next_nl >= 0, length(candidate_doc_str) - next_nl, 0), -1)",
            }
        },
        pure_results=PURE,
    ),
    Contract(
        "cdd.shared.docstring_utils:_get_token_last_idx_if_no_next_token",
        loops={
            "while@line_end < len(doc_str)": {
                "vars": {"doc_str": "str", "line_end": "int", "line_start": "int", "line_no": "int"},
                "variant": "length(doc_str) - line_end",
            }
        },
        pure_results=PURE,
    ),
    Contract(
        "cdd.shared.docstring_utils:_get_token_last_idx",
        loops={
            "while@idx != 0 and doc_str[idx] != '\\n'": {
                "vars": {"doc_str": "str", "idx": "int"},
                # counting down to 0, or (negative index) down to -len(doc_str) where indexing raises
                "variant": "ite(idx >= 0, idx, length(doc_str) + idx + 1)",
            },
            "while@i < len(doc_str) and doc_str[i] != '\\n'": {
                "vars": {"doc_str": "str", "i": "int"},
                "variant": "length(doc_str) - i",
            },
        },
        pure_results=PURE,
    ),
    Contract(
        "cdd.docstring.utils.parse_utils:_union_literal_from_sentence_phase0",
        loops={
            "while@i < len(sentence)": {
                "vars": {"sentence": "str", "i": "int"},
                "variant": "length(sentence) - i",
            }
        },
        local_kinds={"union": "opaque"},
        pure_results=PURE,
    ),
    Contract(
        "cdd.shared.ast_utils:find_in_ast",
        loops={
            "while@len(current_search)": {
                "vars": {"current_search": "list:opaque"},
                "variant": "n_count(current_search)",
            },
            # the inner `for child_node in cursor` may pop further elements, never push
            "for@cursor": {"invariant": ["n_count(current_search) < v0"]},
        },
        pure_results=PURE,
    ),
]

# Declared measures of the recursive components of the call graph (E5 rule 3).
# "structural": the rule engine checks that the recursive call passes a proper sub-structure of a parameter.
# "assumed: ...": the measure is stated but NOT discharged; such sites are backed only by the bounded watchdog.
MEASURES = {
    "get_value": {"measure": "height of the AST node", "sites": {"get_value->get_value#0": "structural"}},
    "cmp_ast": {
        "measure": "size of the first tree / list",
        "sites": {"cmp_ast->cmp_ast#0": "structural", "cmp_ast->cmp_ast#1": "structural"},
    },
    "infer": {
        "measure": "(is-in-memory-object, height of node) lexicographic",
        "sites": {
            "infer->infer#0": "assumed: phase change, the argument is a freshly parsed AST so this branch cannot be taken again",
            # node.value of the argument: `node` is re-bound only under `if not is_supported_ast_node:` (= not isinstance(node, (Module,
            # Assign, AnnAssign, Call, ClassDef, FunctionDef))), the call sits under isinstance(node, (AnnAssign, Assign))
            "infer->infer#1": "structural-guarded",
        },
    },
    "_infer_type_and_default_from_quoted+infer_type_and_default": {
        "measure": "length of the code-quoted default text (each round removes the outer backticks)",
        "sites": {
            "_infer_type_and_default_from_quoted->infer_type_and_default#0": "assumed: string measure over ast.parse/literal_eval results, out of the engine's reach",
            "infer_type_and_default->_infer_type_and_default_from_quoted#0": "assumed: same component, same measure",
        },
    },
    "_class_from_memory+_merge_inner_function+class_+function+_inspect": {
        "measure": "(is-in-memory-object, nesting depth of the class/function source) lexicographic",
        "sites": {
            "_class_from_memory->_inspect#0": "assumed: in-memory object -> its source AST, one phase change",
            "_class_from_memory->_merge_inner_function#1": "assumed: descends into the __init__ method of the class",
            "_class_from_memory->class_#2": "assumed: called with the parsed source (AST), not an in-memory object",
            "_merge_inner_function->function#0": "assumed: inner function of the class body (finite nesting)",
            "class_->_class_from_memory#0": "assumed: only for in-memory objects",
            "class_->_merge_inner_function#1": "assumed: descends into the class body",
            "function->_inspect#0": "assumed: only for in-memory functions",
            "_inspect~>function#0": "assumed: dispatch on the parsed source AST",
            "_inspect~>class_#1": "assumed: dispatch on the parsed source AST",
        },
    },
    "exmod": {
        "measure": "nesting depth of emit_name (a finite, acyclic list structure; a str has depth 0 and that branch does not recurse)",
        "sites": {"exmod~>exmod#0": "structural-map"},
    },
    "get_module_contents": {
        "measure": "depth of the package directory tree",
        "sites": {"get_module_contents->get_module_contents#0": "assumed: finite directory tree (filesystem, outside the engine)"},
    },
}

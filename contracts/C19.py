"""
C19 — sidecar contract on ensure_valid_identifier (cdd/shared/pure_utils.py).

gen names the emitted symbol ensure_valid_identifier(name_tpl.format(name=name)) (get_emit_kwarg) but lists the raw
name_tpl.format(name=name) in __all__ (get_functions_and_classes).  "__all__ lists exactly those names" therefore needs:
an ASCII identifier that is not a keyword comes back UNCHANGED.
"""

import string

from cddvc.symexec import Contract

IDENT_CHARS = "_" + string.ascii_letters + string.digits

CONTRACTS = [
    Contract(
        "cdd.shared.pure_utils:ensure_valid_identifier",
        params={"s": "str"},
        result="str",
        pure_results={"frozenset.__contains__": "bool", "iskeyword": "bool"},
        requires=[
            "length(s) > 0",
            "only_chars(s, %r)" % IDENT_CHARS,
            "not isdigit(substr(s, 0, 1))",
            "not pure('iskeyword', s)",
        ],
        ensures=["result == s"],
    ),
]

"""
C02 — sidecar: block contract on the defaults-padding of cdd/function/parse.py:function (the code that aligns
`defaults` / `kw_defaults` with `args` / `kwonlyargs` before they are zipped into parameters).
"""

from cddvc.symexec import Contract


def _block(txt):
    return txt.startswith("for args, defaults in (('args', 'defaults'), ('kwonlyargs', 'kw_defaults')):")


CONTRACTS = [
    Contract(
        "cdd.function.parse:function#defaults-padding",
        src="cdd.function.parse:function",
        block=_block,
        params={"function_def": "opaque"},
        paths={
            "function_def.args.args": "list:seq:opaque", "function_def.args.defaults": "list:seq:opaque",
            "function_def.args.kwonlyargs": "list:seq:opaque", "function_def.args.kw_defaults": "list:seq:opaque",
        },
        requires=[
            # well-formedness of ast.arguments
            "n_count(function_def.args.defaults) <= n_count(function_def.args.args)",
            "n_count(function_def.args.kw_defaults) <= n_count(function_def.args.kwonlyargs)",
        ],
        ensures=[
            # after the block every parameter has a (possibly None) default slot ...
            "n_count(function_def.args.defaults) == n_count(function_def.args.args)",
            "n_count(function_def.args.kw_defaults) == n_count(function_def.args.kwonlyargs)",
            # ... and the real defaults stay aligned with the LAST parameters (padding goes in front)
            "is_suffix(old(function_def.args.defaults), function_def.args.defaults)",
            "is_suffix(old(function_def.args.kw_defaults), function_def.args.kw_defaults)",
            "same(function_def.args.args, old(function_def.args.args))",
            "same(function_def.args.kwonlyargs, old(function_def.args.kwonlyargs))",
        ],
    ),
]


# "types are preserved": the last step of __set_name_and_type_handle_doc_in_param wraps the type read from the source in
# Optional[...] on the strength of the PROSE.  On the pinned tree it does so for a description that starts with the
# capitalised word 'Optional' / '(Optional)' (a known finding).  Everything else must leave the type it was given alone:
# the block contract says exactly that, for every description, type string and flag.
def _optional_block(txt):
    # the innermost `if` whose whole body is the wrapping assignment (enclosing ifs contain the same text)
    return txt.startswith("if ") and txt.count("\n") == 1 and "_param['typ'] = 'Optional[{typ}]'.format(" in txt.split("\n")[1]


CONTRACTS.append(
    Contract(
        "cdd.shared.docstring_parsers:__set_name_and_type_handle_doc_in_param#optional-from-prose",
        src="cdd.shared.docstring_parsers:__set_name_and_type_handle_doc_in_param",
        block=_optional_block,
        params={"_param": {"doc": "str", "typ?": "str"}, "was_none": "bool"},
        ensures=[
            "present(_param, 'typ') == present(old(_param), 'typ')",
            "implies(present(old(_param), 'typ') and not was_none and not startswith(field(old(_param), 'doc'), 'Optional')"
            " and not startswith(field(old(_param), 'doc'), '(Optional)'), field(_param, 'typ') == field(old(_param), 'typ'))",
            # and when it does wrap, it wraps exactly the old type, once
            "implies(present(old(_param), 'typ') and field(_param, 'typ') != field(old(_param), 'typ'),"
            " field(_param, 'typ') == 'Optional[' + field(old(_param), 'typ') + ']' and not startswith(field(old(_param), 'typ'), 'Optional['))",
            "field(_param, 'doc') == field(old(_param), 'doc')",
        ],
    )
)


# --------------------------------------------------------------------------------------------------------------
# interpolate_defaults (cdd/docstring/utils/emit_utils.py): the step that moves "Defaults to X" from a description into the
# entry's 'default'.  The ReST parser calls it several times for one parameter -- first on the raw, still wrapped ':param' text,
# again when the ':type' line is known, and once more on the un-wrapped description -- so the LAST reading has to win:
# whenever the description announces a default, the entry's default IS what extract_default read (unquoted), whatever an
# earlier, provisional call had stored; when it announces none, the key is left as it was.
MI = "cdd.docstring.utils.emit_utils"
CONTRACTS.append(
    Contract(
        MI + ":interpolate_defaults#announced-default-wins",
        src=MI + ":interpolate_defaults",
        # the body of `if "doc" in _param:`
        block=("doc, default = extract_default(", "if default is not None"),
        probes={"D": "unquote(default)"},
        params={"_param": {"doc": "str", "typ?": "opaque", "default?": "opaque"}, "default_search_announce": "opaque", "emit_default_doc": "bool"},
        ensures=[
            "implies(not is_none(default), present(_param, 'default') and same(field(_param, 'default'), D))",
            "implies(is_none(default), present(_param, 'default') == present(old(_param), 'default'))",
            "implies(is_none(default) and present(old(_param), 'default'), same(field(_param, 'default'), field(old(_param), 'default')))",
            "present(_param, 'typ') == present(old(_param), 'typ')",
        ],
        pure_results={"extract_default": "opaque", "unquote": "opaque"},
    )
)


# --------------------------------------------------------------------------------------------------------------
# _infer_default (cdd/shared/docstring_parsers.py), the step the class and function parsers run on a default that is still an AST
# node (`-4` is a UnaryOp, not a Constant): the default is evaluated, and the TYPE is derived from the value only when none was
# recorded (or only the placeholder 'UnaryOp' was) -- a declared annotation such as Optional[int] is left exactly as it is
# ("types are preserved": every hop through `function` relies on it).
MD = "cdd.shared.docstring_parsers"
CONTRACTS.append(
    Contract(
        MD + ":_infer_default#declared-type-kept",
        src=MD + ":_infer_default",
        block=lambda txt: txt.startswith("if _param.get('typ') is None or ") and txt.rstrip().endswith("_param['typ'] = type(_param['default']).__name__") and txt.count("\n") <= 2,
        params={"_param": {"typ?": "str", "default": "opaque"}},
        ensures=[
            "implies(present(old(_param), 'typ') and old(field(_param, 'typ')) != 'UnaryOp', present(_param, 'typ') and field(_param, 'typ') == old(field(_param, 'typ')))",
            "present(_param, 'typ')",
        ],
    )
)

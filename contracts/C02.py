"""
C02 — sidecar: block contract on the defaults-padding of cdd/function/parse.py:function (the code that aligns
`defaults` / `kw_defaults` with `args` / `kwonlyargs` before they are zipped into parameters).
"""

from cddvc.symexec import Contract


def _block(txt):
    return txt.startswith("for args, defaults in (('args', 'defaults'), ('kwonlyargs', 'kw_defaults')):")


CONTRACTS = [
    Contract(
        "cdd.function.parse:function#defaults-padding",
        src="cdd.function.parse:function",
        block=_block,
        params={"function_def": "opaque"},
        paths={
            "function_def.args.args": "list:seq:opaque", "function_def.args.defaults": "list:seq:opaque",
            "function_def.args.kwonlyargs": "list:seq:opaque", "function_def.args.kw_defaults": "list:seq:opaque",
        },
        requires=[
            # well-formedness of ast.arguments
            "n_count(function_def.args.defaults) <= n_count(function_def.args.args)",
            "n_count(function_def.args.kw_defaults) <= n_count(function_def.args.kwonlyargs)",
        ],
        ensures=[
            # after the block every parameter has a (possibly None) default slot ...
            "n_count(function_def.args.defaults) == n_count(function_def.args.args)",
            "n_count(function_def.args.kw_defaults) == n_count(function_def.args.kwonlyargs)",
            # ... and the real defaults stay aligned with the LAST parameters (padding goes in front)
            "is_suffix(old(function_def.args.defaults), function_def.args.defaults)",
            "is_suffix(old(function_def.args.kw_defaults), function_def.args.kw_defaults)",
            "same(function_def.args.args, old(function_def.args.args))",
            "same(function_def.args.kwonlyargs, old(function_def.args.kwonlyargs))",
        ],
    ),
]


# "types are preserved": the last step of __set_name_and_type_handle_doc_in_param wraps the type read from the source in
# Optional[...] on the strength of the PROSE.  On the pinned tree it does so for a description that starts with the
# capitalised word 'Optional' / '(Optional)' (a known finding).  Everything else must leave the type it was given alone:
# the block contract says exactly that, for every description, type string and flag.
def _optional_block(txt):
    # the innermost `if` whose whole body is the wrapping assignment (enclosing ifs contain the same text)
    return txt.startswith("if ") and txt.count("\n") == 1 and "_param['typ'] = 'Optional[{typ}]'.format(" in txt.split("\n")[1]


CONTRACTS.append(
    Contract(
        "cdd.shared.docstring_parsers:__set_name_and_type_handle_doc_in_param#optional-from-prose",
        src="cdd.shared.docstring_parsers:__set_name_and_type_handle_doc_in_param",
        block=_optional_block,
        params={"_param": {"doc": "str", "typ?": "str"}, "was_none": "bool"},
        ensures=[
            "present(_param, 'typ') == present(old(_param), 'typ')",
            "implies(present(old(_param), 'typ') and not was_none and not startswith(field(old(_param), 'doc'), 'Optional')"
            " and not startswith(field(old(_param), 'doc'), '(Optional)'), field(_param, 'typ') == field(old(_param), 'typ'))",
            # and when it does wrap, it wraps exactly the old type, once
            "implies(present(old(_param), 'typ') and field(_param, 'typ') != field(old(_param), 'typ'),"
            " field(_param, 'typ') == 'Optional[' + field(old(_param), 'typ') + ']' and not startswith(field(old(_param), 'typ'), 'Optional['))",
            "field(_param, 'doc') == field(old(_param), 'doc')",
        ],
    )
)

"""
C02 — sidecar: block contract on the defaults-padding of cdd/function/parse.py:function (the code that aligns
`defaults` / `kw_defaults` with `args` / `kwonlyargs` before they are zipped into parameters).
"""

from cddvc.symexec import Contract


def _block(txt):
    return txt.startswith("for args, defaults in (('args', 'defaults'), ('kwonlyargs', 'kw_defaults')):")


CONTRACTS = [
    Contract(
        "cdd.function.parse:function#defaults-padding",
        src="cdd.function.parse:function",
        block=_block,
        params={"function_def": "opaque"},
        paths={
            "function_def.args.args": "list:seq:opaque", "function_def.args.defaults": "list:seq:opaque",
            "function_def.args.kwonlyargs": "list:seq:opaque", "function_def.args.kw_defaults": "list:seq:opaque",
        },
        requires=[
            # well-formedness of ast.arguments
            "n_count(function_def.args.defaults) <= n_count(function_def.args.args)",
            "n_count(function_def.args.kw_defaults) <= n_count(function_def.args.kwonlyargs)",
        ],
        ensures=[
            # after the block every parameter has a (possibly None) default slot ...
            "n_count(function_def.args.defaults) == n_count(function_def.args.args)",
            "n_count(function_def.args.kw_defaults) == n_count(function_def.args.kwonlyargs)",
            # ... and the real defaults stay aligned with the LAST parameters (padding goes in front)
            "is_suffix(old(function_def.args.defaults), function_def.args.defaults)",
            "is_suffix(old(function_def.args.kw_defaults), function_def.args.kw_defaults)",
            "same(function_def.args.args, old(function_def.args.args))",
            "same(function_def.args.kwonlyargs, old(function_def.args.kwonlyargs))",
        ],
    ),
]

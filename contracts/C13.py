"""
C13 — sidecar: block contract on the default-alignment arithmetic of RewriteAtQuery.visit_FunctionDef
(cdd/shared/ast_utils.py), the code that decides WHICH default value sync_properties overwrites.

Ghost relation supplied by annotate_ancestry (checked as a structural obligation below):
    every positional parameter at position p carries  _idx == p - off,  off = 1 iff the first parameter is self/cls.
`ast.arguments.defaults` is aligned with the LAST len(defaults) positional parameters:
    defaults[i] is the default of args[len(args) - len(defaults) + i].
"""

import ast

from cddvc.symexec import Contract

M = "cdd.shared.ast_utils"


def _block(txt):
    return txt.startswith("if idx is not None")


CONTRACTS = [
    Contract(
        M + ":RewriteAtQuery.visit_FunctionDef#default-alignment",
        src=M + ":RewriteAtQuery.visit_FunctionDef",
        block=_block,
        params={"idx": "int", "node": "opaque", "self": "opaque", "pos": "int", "off": "int"},
        paths={"node.args.args": "list:seq:opaque", "node.args.defaults": "list:seq:opaque"},
        requires=[
            # the ghost relation of annotate_ancestry, and well-formedness of ast.arguments
            "0 <= pos and pos < n_count(node.args.args)",
            "off == 0 or off == 1",
            "idx == pos - off",
            "n_count(node.args.defaults) <= n_count(node.args.args)",
            "off == ite(node.args.args[0].arg in frozenset(('self', 'cls')), 1, 0)",
        ],
        ensures=[
            # either no default is touched, or exactly the default OF THE TARGET PARAMETER (position pos) is:
            # index i with  i + (len(args) - len(defaults)) == pos
            "same(node.args.defaults, old(node.args.defaults)) or"
            " differs_only_at(node.args.defaults, old(node.args.defaults), pos - (n_count(node.args.args) - n_count(node.args.defaults)))",
            # and the positional parameter list itself is not touched here
            "same(node.args.args, old(node.args.args))",
        ],
    ),
]


def structural(find_def):
    out = []
    f = find_def(M, "annotate_ancestry")
    ok = False
    if f is not None:
        txt = ast.unparse(f)
        ok = ("enumerate(child_node.args.args, -1 if len(child_node.args.args) > 0 and child_node.args.args[0].arg in frozenset(('self', 'cls')) else 0)" in txt
              and "idx_arg[1]._idx = idx_arg[0]" in txt)
    out.append(("annotate_ancestry/_idx-is-position-minus-self-offset", ok,
                "annotate_ancestry numbers positional parameters with enumerate(args, -1 if first is self/cls else 0) and stores the number in _idx"))
    return out


# --------------------------------------------------------------------------------------------------------------
# The replacement loop of visit_FunctionDef ("updates exactly the selected property"): over `args` and `kwonlyargs`, the
# parameter whose _location equals the searched location is replaced -- and NOTHING else: for an arbitrary position p, a slot
# whose location is not the searched one holds the very same node afterwards, and neither list changes its length.
# (p is a specification variable: the obligations are discharged for every p.)
_NOT_SEL = "not (at(old(node.args.%s), p)._location == self.search)"
_FRAME = [
    "n_count(node.args.args) == n_count(old(node.args.args))",
    "n_count(node.args.kwonlyargs) == n_count(old(node.args.kwonlyargs))",
    "implies(p < n_count(old(node.args.args)) and %s, at(node.args.args, p) == at(old(node.args.args), p))" % (_NOT_SEL % "args"),
    "implies(p < n_count(old(node.args.kwonlyargs)) and %s, at(node.args.kwonlyargs, p) == at(old(node.args.kwonlyargs), p))" % (_NOT_SEL % "kwonlyargs"),
]

CONTRACTS.append(
    Contract(
        M + ":RewriteAtQuery.visit_FunctionDef#only-the-selected-slot",
        src=M + ":RewriteAtQuery.visit_FunctionDef",
        block=lambda txt: txt.startswith("for arg_attr in"),
        params={"node": "opaque", "self": "opaque", "p": "int"},
        ghost_params=("p",),
        paths={"node.args.args": "list:seq:opaque", "node.args.kwonlyargs": "list:seq:opaque", "self.search": "opaque", "self.replacement_node": "opaque", "self.replaced": "bool"},
        requires=["p >= 0"],
        ensures=_FRAME,
        loops={1: {"invariant": _FRAME}},
        pure_results={"emit_arg": "opaque"},
    )
)

"""
C01 / C08 — sidecar contracts on the quoting helpers of cdd/shared/pure_utils.py and two lemmas over them.

The lemma functions below live in this file (they are specification, not repository code): each is verified
by E1 against the CONTRACTS of quote / unquote (a caller is checked against the callee's contract, never its body).
"""

from cddvc.symexec import Contract

M = "cdd.shared.pure_utils"
Q = "(length(s) > 1 and substr(s, 0, 1) == substr(s, -1, None) and (substr(s, 0, 1) == \"'\" or substr(s, 0, 1) == '\"'))"


def lemma_unquote_quote(s):
    """unquote(quote(s)) == s for a non-empty string that is not already quoted"""
    return unquote(quote(s))  # noqa: F821


def lemma_quote_idempotent(s):
    """quote(quote(s)) == quote(s)"""
    return quote(quote(s))  # noqa: F821


CONTRACTS = [
    Contract(
        M + ":quote",
        params={"s": "str", "mark": "str"},
        result="str",
        ensures=["result == ite(length(s) == 0 or %s, s, mark + s + mark)" % Q],
        deterministic=True,
    ),
    Contract(
        M + ":unquote",
        params={"input_str": "str"},
        result="str",
        ensures=[
            "result == ite(length(input_str) > 1 and ((startswith(input_str, '\"') and endswith(input_str, '\"'))"
            " or (startswith(input_str, \"'\") and endswith(input_str, \"'\"))), substr(input_str, 1, -1), input_str)"
        ],
        deterministic=True,
    ),
    Contract(
        M + ":code_quoted",
        params={"s": "str"},
        result="bool",
        ensures=["result == (length(s) > 6 and startswith(s, '```') and endswith(s, '```'))"],
        deterministic=True,
    ),
    Contract(
        "contracts.C01:lemma_unquote_quote",
        params={"s": "str"},
        bind={"quote": M + ":quote", "unquote": M + ":unquote"},
        requires=["length(s) > 0", "not %s" % Q],
        result="str",
        ensures=["result == s"],
    ),
    Contract(
        "contracts.C01:lemma_quote_idempotent",
        params={"s": "str"},
        bind={"quote": M + ":quote"},
        result="str",
        ensures=["implies(length(s) != 1 or True, length(result) >= length(s))",
                 # idempotence proper, stated through the contract of quote applied to its own result
                 "result == ite(length(s) == 0 or %s, s, '\"' + s + '\"')" % Q],
    ),
]


# --------------------------------------------------------------------------------------------------------------
# Lemma (rule engine over the real AST): the typed-default classifier of _parse_out_default_and_doc
# (cdd/shared/defaults_utils.py) treats a default text as a *code expression* -- and code-quotes it -- as soon as it
# contains one of a fixed set of marker characters.  "Defaults to <repr(v)>" is what the emitter writes for a
# numeric / boolean default v, so for the round trip that set must be disjoint from every character repr() can
# produce for an int, float, complex or bool:
#     for all v in int | float | complex | bool:  chars(repr(v)) <= NUMBER_REPR_CHARS      (CPython's repr, assumed)
#     MARKERS & NUMBER_REPR_CHARS == {}                                                     (this obligation)
# hence no numeric default is ever classified as an expression.
NUMBER_REPR_CHARS = frozenset("0123456789" ".e+-" "infa" "j()" "TrueFals")


def structural(find_def):
    import ast

    out = []
    fn = find_def("cdd.shared.defaults_utils", "_parse_out_default_and_doc")
    name = "_parse_out_default_and_doc/expression-markers-disjoint-from-number-repr"
    sets = []
    if fn is not None:
        for n in ast.walk(fn):
            # `ast.AST() if <test> else literal_eval(...)`: the marker set is the frozenset constant of the test
            if isinstance(n, ast.IfExp) and isinstance(n.body, ast.Call) and ast.unparse(n.body.func) in ("ast.AST", "AST"):
                for m in ast.walk(n.test):
                    if isinstance(m, ast.Call) and isinstance(m.func, ast.Name) and m.func.id == "frozenset" and len(m.args) == 1:
                        try:
                            sets.append(frozenset(ast.literal_eval(m.args[0])))
                        except ValueError:
                            sets.append(None)
    if not sets or any(s_ is None or not all(isinstance(c, str) for c in s_) for s_ in sets):
        out.append((name, None, "the marker set of the typed-default classifier was not found as a frozenset constant in the test of `ast.AST() if ... else literal_eval(...)`"))
        return out
    out.extend(_adhoc_table_obligation())
    out.extend(_signed_int_obligation(fn))
    clash = sorted(set().union(*[set("".join(s_)) for s_ in sets]) & NUMBER_REPR_CHARS)
    out.append((name, not clash,
                "marker characters %s never occur in repr() of an int / float / complex / bool" % sorted(set().union(*sets)) if not clash
                else "marker character(s) %r occur in repr() of numbers (e.g. repr(1e16) == '1e+16', repr(1+2j) == '(1+2j)'): such a default is code-quoted on the way back" % clash))
    return out


# Third lemma: repr() of a negative int is '-' followed by decimal digits.  The branch of the untyped-default classifier that
# answers int(default) must accept that text -- its test mentions the digits after a one-character sign, not only
# default.isdecimal() (which is False for '-3': the default then falls through to float()).
def _signed_int_obligation(fn):
    import ast

    name = "_parse_out_default_and_doc/int-branch-accepts-a-signed-decimal"
    tests = []
    for n in ast.walk(fn):
        if isinstance(n, ast.If):
            for st_ in n.body:
                if isinstance(st_, ast.Assign) and ast.unparse(st_.value) == "int(default)" and ast.unparse(st_.targets[0]) == "default":
                    tests.append(ast.unparse(n.test))
    if not tests:
        return [(name, None, "no `default = int(default)` branch found")]
    ok = any("default.isdecimal()" in t and ("default[1:].isdecimal()" in t or "lstrip('-" in t or "lstrip('+-" in t or "removeprefix('-')" in t) for t in tests)
    return [(name, ok, "the int branch is taken for decimal digits with an optional one-character sign: %s" % tests[0][:160] if ok
             else "the int branch is guarded by %s: the repr of a negative int does not pass it" % tests)]


# Second lemma of the same kind: the parser sniffs a type from the words of a description (table adhoc_type_to_type of
# cdd/docstring/utils/parse_utils.py) AFTER the emitter has appended "Defaults to <repr(default)>" to it.  The words
# repr() writes for a bool / None default must therefore not be keys of that table, or the declared type of every
# parameter with such a default is overwritten on the way back.
DEFAULT_REPR_WORDS = frozenset(("True", "False", "None"))


def _adhoc_table_obligation():
    import ast

    from cddvc import extract

    name = "adhoc_type_to_type/keys-disjoint-from-default-repr-words"
    tree, _src, _p = extract.module_ast("cdd.docstring.utils.parse_utils")
    keys = None
    for n in tree.body:
        tgt = n.target if isinstance(n, ast.AnnAssign) else (n.targets[0] if isinstance(n, ast.Assign) and len(n.targets) == 1 else None)
        if isinstance(tgt, ast.Name) and tgt.id == "adhoc_type_to_type" and isinstance(n.value, ast.Dict):
            keys = [k.value for k in n.value.keys if isinstance(k, ast.Constant) and isinstance(k.value, str)]
            if len(keys) != len(n.value.keys):
                keys = None
    if keys is None:
        return [(name, None, "adhoc_type_to_type was not found as a module-level dict literal with constant string keys")]
    clash = sorted(set(keys) & DEFAULT_REPR_WORDS)
    return [(name, not clash, "none of the %d trigger words is a word repr() writes for a bool / None default" % len(keys) if not clash
             else "trigger word(s) %r are what 'Defaults to <repr>' writes for a default: the declared type of such a parameter is replaced by the sniffed one" % clash)]


# --------------------------------------------------------------------------------------------------------------
# extract_default, the default-text scanner (the loop that decides where the text after "Defaults to" ends): for every
# line, every announce position and both spellings ("Defaults to X" / "(default: X)").
#   * what it takes is a PREFIX of the text after the announce, and the offset handed on is announce end + its length;
#   * it stops only AT a full stop, never at one that is followed by a digit (so `1.5`, `-0.25`, `1e-3` with a
#     fraction are not cut);
#   * a text without full stop and without brackets, followed by the end of the line or by a sentence-ending full stop,
#     is taken WHOLE (so an int / bool / word default written by the emitter comes back complete).
ED = "cdd.shared.defaults_utils:extract_default"
_BR = "{[()]}"
_PAR0 = " and ".join("field(par, %r) == 0" % b for b in _BR)


def _scan_contract(tag, offset_kind, offset_req, sub_l):
    # H: T is a bracket-free, stop-free text at the start of the scanned text, followed by its end or by a sentence-ending
    # full stop (one that is the last character or is not followed by a digit)
    H = ("startswith({s}, T) and not contains(T, '.') and {nobr} and (length(T) == length({s}) or (substr({s}, length(T), length(T) + 1) == '.'"
         " and (length(T) + 1 == length({s}) or not isdigit(substr({s}, length(T) + 1, length(T) + 2)))))").format(
        s=sub_l, nobr=" and ".join("not contains(T, %r)" % b for b in _BR))
    return Contract(
        ED + "#default-text-scan/" + tag,
        src=ED,
        block=("default = ''", "start_rest_offset = "),
        params={"line": "str", "_end_idx": "int", "default_end_offset": offset_kind, "T": "str"},
        requires=["_end_idx >= 0", "_end_idx <= length(line)"] + offset_req,
        ensures=[
            "startswith(%s, default)" % sub_l,
            "start_rest_offset == _end_idx + length(default) and start_rest_offset <= length(line)",
            "default == %s or substr(%s, length(default), length(default) + 1) == '.'" % (sub_l, sub_l),
            "implies(default != %s and length(default) + 1 < length(%s), not isdigit(substr(%s, length(default) + 1, length(default) + 2)))" % (sub_l, sub_l, sub_l),
            "implies(%s, default == T)" % H,
        ],
        loops={1: {"invariant": [
            "default == done",
            "sub_l == %s" % sub_l,
            "sub_l_len == length(sub_l)",
            "implies(%s, length(done) <= length(T) and %s)" % (H, _PAR0),
        ]}},
    )


CONTRACTS.append(_scan_contract("plain", "none", [], "substr(line, _end_idx, length(line))"))
# "(default: X)" / "(default: X)." : the closing parenthesis (and full stop) are cut off before the scan
CONTRACTS.append(_scan_contract("paren", "int", ["default_end_offset == -1 or default_end_offset == -2", "length(line) + default_end_offset >= 0"],
                                "substr(line, _end_idx, length(line) + default_end_offset)"))


# --------------------------------------------------------------------------------------------------------------
# location_within (cdd/shared/pure_utils.py), the announce search in front of extract_default's scanner: for ANY comparison
# function and any candidates, what it returns is (-1, -1, None) or (i, end, elem) with 0 <= i < len(container) + 1 and
# end == i + len(elem) >= i -- so the scanner starts at or after the announce, never at a negative offset.  (That end does not
# exceed len(container) depends on the comparison function and is NOT claimed: it is a precondition of the scanner contract.)
CONTRACTS.append(
    Contract(
        "cdd.shared.pure_utils:location_within",
        params={"container": "str", "iterable": "opaque", "cmp": "opaque"},
        ensures=[
            "(result[0] == -1 and result[1] == -1) or (result[0] >= 0 and result[0] <= length(container) and result[1] >= result[0])",
        ],
        loops={0: {"invariant": ["container_len == length(container)"]}, 1: {"invariant": ["container_len == length(container)", "elem_len >= 0"]}},
        pure_results={"cmp": "bool"},
    )
)

"""
C01 / C08 — sidecar contracts on the quoting helpers of cdd/shared/pure_utils.py and two lemmas over them.

The lemma functions below live in this file (they are specification, not repository code): each is verified
by E1 against the CONTRACTS of quote / unquote (a caller is checked against the callee's contract, never its body).
"""

from cddvc.symexec import Contract

M = "cdd.shared.pure_utils"
Q = "(length(s) > 1 and substr(s, 0, 1) == substr(s, -1, None) and (substr(s, 0, 1) == \"'\" or substr(s, 0, 1) == '\"'))"


def lemma_unquote_quote(s):
    """unquote(quote(s)) == s for a non-empty string that is not already quoted"""
    return unquote(quote(s))  # noqa: F821


def lemma_quote_idempotent(s):
    """quote(quote(s)) == quote(s)"""
    return quote(quote(s))  # noqa: F821


CONTRACTS = [
    Contract(
        M + ":quote",
        params={"s": "str", "mark": "str"},
        result="str",
        ensures=["result == ite(length(s) == 0 or %s, s, mark + s + mark)" % Q],
        deterministic=True,
    ),
    Contract(
        M + ":unquote",
        params={"input_str": "str"},
        result="str",
        ensures=[
            "result == ite(length(input_str) > 1 and ((startswith(input_str, '\"') and endswith(input_str, '\"'))"
            " or (startswith(input_str, \"'\") and endswith(input_str, \"'\"))), substr(input_str, 1, -1), input_str)"
        ],
        deterministic=True,
    ),
    Contract(
        M + ":code_quoted",
        params={"s": "str"},
        result="bool",
        ensures=["result == (length(s) > 6 and startswith(s, '```') and endswith(s, '```'))"],
        deterministic=True,
    ),
    Contract(
        "contracts.C01:lemma_unquote_quote",
        params={"s": "str"},
        bind={"quote": M + ":quote", "unquote": M + ":unquote"},
        requires=["length(s) > 0", "not %s" % Q],
        result="str",
        ensures=["result == s"],
    ),
    Contract(
        "contracts.C01:lemma_quote_idempotent",
        params={"s": "str"},
        bind={"quote": M + ":quote"},
        result="str",
        ensures=["implies(length(s) != 1 or True, length(result) >= length(s))",
                 # idempotence proper, stated through the contract of quote applied to its own result
                 "result == ite(length(s) == 0 or %s, s, '\"' + s + '\"')" % Q],
    ),
]

"""
C12 — sidecar block contract on cmp_ast (cdd/shared/ast_utils.py), the comparison that decides whether sync rewrites a
target (`if not cmp_ast(original_node, replacement_node)`): on the list / tuple branch two sequences are only ever found
equal when they have the same length -- a target whose body is a strict prefix of the truth's (or the reverse) is different.
"""

from cddvc.symexec import Contract

CONTRACTS = [
    Contract(
        "cdd.shared.ast_utils:cmp_ast#sequences-of-different-length-differ",
        src="cdd.shared.ast_utils:cmp_ast",
        # the body of `if isinstance(node0, (list, tuple)):`
        block=("if len(node0) != len(node1)", "for left, right in zip(node0, node1)"),
        params={"node0": "list:seq:opaque", "node1": "list:seq:opaque"},
        loops={0: {"invariant": []}},
        ensures=["n_count(node0) == n_count(node1)"],
    ),
]

# --------------------------------------------------------------------------------------------------------------
# Frame of the argparse emitter on the parameter dicts it is handed.  conformance.ground_truth parses the truth ONCE and hands
# the very same interface description to the argparse, class and function emitters in turn, so what one emitter writes into a
# parameter dict the next one reads: the class emitter writes `= <default>` iff the key 'default' is present.  The argparse
# emitter (param2argparse_param, through _resolve_arg) may normalise 'typ' and supply an empty 'doc'; it must leave the
# 'default' key exactly as it found it -- absent stays absent, present keeps its value.
A = "cdd.shared.ast_utils"
PREC = {"doc?": "str", "typ?": "opaque", "default?": "opaque"}

_RREC = {"doc?": "str", "typ": "opaque", "default?": "opaque"}
_FRAME = [
    "present(_param, 'default') == present(old(param[1]), 'default')",
    "implies(present(old(param[1]), 'default'), same(field(_param, 'default'), field(old(param[1]), 'default')))",
    "present(_param, 'doc') == present(old(param[1]), 'doc')",
]

CONTRACTS += [
    Contract(
        A + ":_resolve_arg",
        params={"action": "opaque", "choices": "opaque", "param": ["str", _RREC], "required": "bool", "typ": "opaque"},
        # what a caller may rely on: only the 'typ' entry of the dict it passed is written, and that very dict comes back
        modifies=["param[1].typ"],
        result=["opaque", "opaque", "opaque", "opaque", ["str", "@param[1]"]],
        ensures=[
            # (the function deletes its own name `param`: the dict is named through the result, which IS that dict)
            "is_obj(result[4][1], old(param[1]))",
            "present(result[4][1], 'default') == present(old(param[1]), 'default')",
            "implies(present(old(param[1]), 'default'), same(field(result[4][1], 'default'), field(old(param[1]), 'default')))",
            "present(result[4][1], 'doc') == present(old(param[1]), 'doc')",
        ],
        loops={0: {"invariant": _FRAME + ["is_obj(_param, old(param[1]))"]}},
        pure_results={"ast_parse_fix": "opaque", "walk": "opaque"},
    ),
    Contract(
        A + ":param2argparse_param#frame-on-default",
        src=A + ":param2argparse_param",
        block=("name, _param = param", "_action, default, _required, _typ = "),
        params={"param": ["str", PREC], "word_wrap": "bool", "emit_default_doc": "bool"},
        ensures=_FRAME[:2] + ["is_obj(_param, old(param[1]))"],
        pure_results={"extract_default": "opaque", "infer_type_and_default": "opaque"},
    ),
]

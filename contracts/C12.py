"""
C12 — sidecar block contract on cmp_ast (cdd/shared/ast_utils.py), the comparison that decides whether sync rewrites a
target (`if not cmp_ast(original_node, replacement_node)`): on the list / tuple branch two sequences are only ever found
equal when they have the same length -- a target whose body is a strict prefix of the truth's (or the reverse) is different.
"""

from cddvc.symexec import Contract

CONTRACTS = [
    Contract(
        "cdd.shared.ast_utils:cmp_ast#sequences-of-different-length-differ",
        src="cdd.shared.ast_utils:cmp_ast",
        # the body of `if isinstance(node0, (list, tuple)):`
        block=("if len(node0) != len(node1)", "for left, right in zip(node0, node1)"),
        params={"node0": "list:seq:opaque", "node1": "list:seq:opaque"},
        loops={0: {"invariant": []}},
        ensures=["n_count(node0) == n_count(node1)"],
    ),
]

"""C06 — sidecar contract on the real param2json_schema_property (cdd/json_schema/utils/emit_utils.py)."""

from cddvc.symexec import Contract

M = "cdd.json_schema.utils.emit_utils"
PARAM = {"doc?": "str", "typ?": "str", "default?": "opaque", "choices?": "opaque"}

CONTRACTS = [
    Contract(
        M + ":param2json_schema_property",
        params={"param": ["str", PARAM], "required": "list:seq:str"},
        modifies=["required"],
        ensures=[
            # the property: listed as required exactly when the type is not Optional[...]
            "implies(present(old(param[1]), 'typ'),"
            " same(required, appended(old(required), old(param[0]))) == (not startswith(field(old(param[1]), 'typ'), 'Optional[')))",
            # frame on `required`: untouched, or exactly the name appended
            "same(required, old(required)) or same(required, appended(old(required), old(param[0])))",
            "implies(not present(old(param[1]), 'typ'), same(required, old(required)))",
            # doc -> description only when truthy; the schema never carries a `doc` or `typ` key for a typed param
            "implies(present(old(param[1]), 'doc') and field(old(param[1]), 'doc') != '', present(result[1], 'description') and field(result[1], 'description') == field(old(param[1]), 'doc'))",
            "implies(present(old(param[1]), 'typ'), not present(result[1], 'typ'))",
            "result[0] == old(param[0])",
        ],
    ),
]


def structural(find_def):
    """
    Side conditions under which `dict(map(partial(param2json_schema_property, required=required), params.items()))` IS
    the left fold of lean/C06.lean (each an obligation, rule engine over the real ast of json_schema()):
      S1 `required` starts as a fresh empty list            S2 it is handed to the callee only as the keyword `required`
      S3 the partial is mapped once over intermediate_repr["params"].items() and the map is consumed once, by dict(...)
      S4 the same list object is what the schema carries under "required" and nothing else in the function touches it
    """
    import ast

    out = []
    fn = find_def("cdd.json_schema.emit", "json_schema")
    if fn is None:
        return [("json_schema/fold-shape", None, "json_schema not found")]
    assigns = [n for n in ast.walk(fn) if isinstance(n, (ast.Assign, ast.AnnAssign))]

    def bound(name):
        return [n for n in assigns if any(isinstance(t, ast.Name) and t.id == name for t in ([n.target] if isinstance(n, ast.AnnAssign) else n.targets))]

    req = bound("required")
    ok1 = len(req) == 1 and isinstance(req[0].value, ast.List) and not req[0].value.elts
    out.append(("json_schema/S1-required-starts-empty", ok1, "`required = []`, bound once" if ok1 else "required is bound %d time(s): %s" % (len(req), [ast.unparse(r)[:60] for r in req])))
    uses = [n for n in ast.walk(fn) if isinstance(n, ast.Name) and n.id == "required" and isinstance(n.ctx, ast.Load)]
    par = {}
    for n in ast.walk(fn):
        for ch in ast.iter_child_nodes(n):
            par[id(ch)] = n
    kw_uses = [u for u in uses if isinstance(par.get(id(u)), ast.keyword) and par[id(u)].arg == "required"]
    dict_uses = [u for u in uses if isinstance(par.get(id(u)), ast.Dict)]
    other = [u for u in uses if u not in kw_uses and u not in dict_uses]
    partials = [par.get(id(par[id(u)])) for u in kw_uses]
    ok2 = (len(kw_uses) == 1 and isinstance(partials[0], ast.Call) and ast.unparse(partials[0].func) == "partial"
           and len(partials[0].args) == 1 and ast.unparse(partials[0].args[0]) == "param2json_schema_property" and len(partials[0].keywords) == 1)
    out.append(("json_schema/S2-required-passed-only-as-keyword-of-the-partial", ok2 and not other,
                "partial(param2json_schema_property, required=required) is the only place the list goes (besides the schema literal)" if ok2 and not other
                else "other uses of `required`: %s" % [ast.unparse(par.get(id(u)))[:60] for u in other + [u for u in kw_uses if not ok2]]))
    ok3, why3 = False, "partial not bound to a name used once"
    if ok2:
        holder = par.get(id(partials[0]))
        if isinstance(holder, (ast.Assign, ast.AnnAssign)):
            pname = (holder.target if isinstance(holder, ast.AnnAssign) else holder.targets[0])
            if isinstance(pname, ast.Name):
                puses = [n for n in ast.walk(fn) if isinstance(n, ast.Name) and n.id == pname.id and isinstance(n.ctx, ast.Load)]
                if len(puses) == 1:
                    mp = par.get(id(puses[0]))
                    dc = par.get(id(mp))
                    ok3 = (isinstance(mp, ast.Call) and ast.unparse(mp.func) == "map" and len(mp.args) == 2 and mp.args[0] is puses[0]
                           and ast.unparse(mp.args[1]) == "intermediate_repr['params'].items()"
                           and isinstance(dc, ast.Call) and ast.unparse(dc.func) == "dict" and len(dc.args) == 1 and dc.args[0] is mp and not dc.keywords)
                    why3 = "the partial is used as: %s" % ast.unparse(dc if dc is not None else mp)[:120]
    out.append(("json_schema/S3-mapped-once-over-params-in-order-and-consumed-by-dict", ok3,
                "dict(map(<partial>, intermediate_repr['params'].items())): one call per parameter, in declaration order" if ok3 else why3))
    ok4 = len(dict_uses) == 1 and any(isinstance(k, ast.Constant) and k.value == "required" and v is dict_uses[0] for k, v in zip(par[id(dict_uses[0])].keys, par[id(dict_uses[0])].values))
    muts = [n for n in ast.walk(fn) if isinstance(n, ast.Call) and isinstance(n.func, ast.Attribute) and isinstance(n.func.value, ast.Name) and n.func.value.id == "required"]
    out.append(("json_schema/S4-same-list-emitted-under-required", ok4 and not muts,
                'the schema literal carries {"required": required} and json_schema itself calls no method on the list' if ok4 and not muts else "dict uses: %d, method calls on required: %s" % (len(dict_uses), [ast.unparse(m)[:50] for m in muts])))
    # S5 (parse side): the names the property parser treats as required are exactly schema["required"] -- also when that list is
    # empty (every parameter Optional), which is what the emitter writes for an all-Optional interface
    pj = find_def("cdd.json_schema.parse", "json_schema")
    ok5, why5 = None, "cdd.json_schema.parse:json_schema not found"
    if pj is not None:
        binds = [n for n in ast.walk(pj) if isinstance(n, (ast.Assign, ast.AnnAssign)) and any(isinstance(t, ast.Name) and t.id == "required" for t in ([n.target] if isinstance(n, ast.AnnAssign) else n.targets))]
        txt = ast.unparse(binds[0].value) if len(binds) == 1 else None
        ok5 = txt in ("frozenset(schema['required']) if schema.get('required') else frozenset()", "frozenset(schema.get('required') or ())", "frozenset(schema.get('required', ()))")
        why5 = ("`required` is frozenset(schema['required']) when that list is non-empty and the empty set otherwise: a property is wrapped in Optional exactly when the emitter did not list it"
                if ok5 else "`required` of the parser is bound to: %s" % (txt or "%d bindings" % len(binds)))
    out.append(("parse.json_schema/S5-required-set-is-the-schema's-required-list", ok5, why5))
    # S6 / S7 (Literal <-> pattern): the emitter joins the members with a one-character constant, the parser splits the
    # pattern at the same constant and takes every piece as a member -- the shape lean/C06.lean pattern_roundtrip is about
    ef = find_def("cdd.json_schema.utils.emit_utils", "param2json_schema_property")
    pf = find_def("cdd.json_schema.utils.parse_utils", "json_schema_property_to_param")
    sep_e = sep_p = None
    ok6, why6 = None, "param2json_schema_property not found"
    if ef is not None:
        joins = [v for d in ast.walk(ef) if isinstance(d, ast.Dict) for k, v in zip(d.keys, d.values) if isinstance(k, ast.Constant) and k.value == "pattern"]
        enum_b = [n for n in ast.walk(ef) if isinstance(n, ast.Assign) and any(isinstance(t, ast.Name) and t.id == "enum" for t in n.targets)]
        ok6 = (len(joins) == 1 and isinstance(joins[0], ast.Call) and isinstance(joins[0].func, ast.Attribute) and joins[0].func.attr == "join"
               and isinstance(joins[0].func.value, ast.Constant) and isinstance(joins[0].func.value.value, str) and len(joins[0].func.value.value) == 1
               and len(joins[0].args) == 1 and ast.unparse(joins[0].args[0]) == "enum" and len(enum_b) == 1
               and ast.unparse(enum_b[0].value) in ("sorted(map(cdd.shared.ast_utils.get_value, cdd.shared.ast_utils.get_value(parsed_typ.slice).elts))",
                                                    "tuple(map(cdd.shared.ast_utils.get_value, cdd.shared.ast_utils.get_value(parsed_typ.slice).elts))",
                                                    "list(map(cdd.shared.ast_utils.get_value, cdd.shared.ast_utils.get_value(parsed_typ.slice).elts))"))
        sep_e = joins[0].func.value.value if ok6 else None
        why6 = ("the Literal branch writes \"pattern\": %r.join(enum), enum being the members of the Literal (get_value of every element)" % sep_e if ok6
                else "the pattern is written as: %s ; enum bound as: %s" % ([ast.unparse(j)[:80] for j in joins], [ast.unparse(b.value)[:120] for b in enum_b]))
    out.append(("param2json_schema_property/S6-pattern-is-the-members-joined-by-one-character", ok6, why6))
    ok7, why7 = None, "json_schema_property_to_param not found"
    if pf is not None:
        mb = [n for n in ast.walk(pf) if isinstance(n, ast.Assign) and any(isinstance(t, ast.Name) and t.id == "maybe_enum" for t in n.targets)]
        fm = [n for n in ast.walk(pf) if isinstance(n, ast.Assign) and ast.unparse(n.targets[0]) == "_param['typ']" and "Literal" in ast.unparse(n.value)]
        split_ok = len(mb) == 1 and isinstance(mb[0].value, ast.Call) and ast.unparse(mb[0].value.func) == "_param['pattern'].split" and len(mb[0].value.args) == 1 and isinstance(mb[0].value.args[0], ast.Constant) and not mb[0].value.keywords
        sep_p = mb[0].value.args[0].value if split_ok else None
        ok7 = bool(split_ok and sep_e is not None and sep_p == sep_e and len(fm) == 1
                   and ast.unparse(fm[0].value) == "'Literal[{}]'.format(', '.join(map(\"'{}'\".format, maybe_enum)))")
        why7 = ("maybe_enum = _param['pattern'].split(%r) -- the emitter's separator -- and the type is Literal[...] of exactly those pieces, in order" % sep_p if ok7
                else "split: %s ; emitter separator %r ; Literal built as: %s" % ([ast.unparse(b.value)[:80] for b in mb], sep_e, [ast.unparse(f.value)[:120] for f in fm]))
    out.append(("json_schema_property_to_param/S7-pattern-split-at-the-emitter's-separator-into-the-members", ok7, why7))
    return out

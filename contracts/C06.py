"""C06 — sidecar contract on the real param2json_schema_property (cdd/json_schema/utils/emit_utils.py)."""

from cddvc.symexec import Contract

M = "cdd.json_schema.utils.emit_utils"
PARAM = {"doc?": "str", "typ?": "str", "default?": "opaque", "choices?": "opaque"}

CONTRACTS = [
    Contract(
        M + ":param2json_schema_property",
        params={"param": ["str", PARAM], "required": "list:seq:str"},
        modifies=["required"],
        ensures=[
            # the property: listed as required exactly when the type is not Optional[...]
            "implies(present(old(param[1]), 'typ'),"
            " same(required, appended(old(required), old(param[0]))) == (not startswith(field(old(param[1]), 'typ'), 'Optional[')))",
            # frame on `required`: untouched, or exactly the name appended
            "same(required, old(required)) or same(required, appended(old(required), old(param[0])))",
            "implies(not present(old(param[1]), 'typ'), same(required, old(required)))",
            # doc -> description only when truthy; the schema never carries a `doc` or `typ` key for a typed param
            "implies(present(old(param[1]), 'doc') and field(old(param[1]), 'doc') != '', present(result[1], 'description') and field(result[1], 'description') == field(old(param[1]), 'doc'))",
            "implies(present(old(param[1]), 'typ'), not present(result[1], 'typ'))",
            "result[0] == old(param[0])",
        ],
    ),
]

"""
C05 — sidecar: block contract on the primary-key inference of ensure_has_primary_key
(cdd/sqlalchemy/utils/emit_utils.py): when no column is marked '[PK]', exactly one column gets the marker.
"""

from cddvc.symexec import Contract

M = "cdd.sqlalchemy.utils.emit_utils"


def _block(txt):
    return txt.startswith("candidate_pks: ") or txt.startswith("for __it in filter(lambda k:") or txt.startswith("if not force_pk_id and len(candidate_pks) == 1")


CONTRACTS = [
    Contract(
        M + ":ensure_has_primary_key#no-pk-branch",
        src=M + ":ensure_has_primary_key",
        block=_block,
        params={"params": ("map", {"doc?": "str", "typ?": "str"}), "intermediate_repr": "opaque", "force_pk_id": "bool"},
        loops={0: {"invariant": []}},
        local_kinds={"candidate_pks": "seq"},
        ensures=[
            # exactly one column is written / updated in this branch and its description now starts with the marker
            "touched_exactly_one_marked(params, '[PK]')",
        ],
    ),
]

"""
C05 — sidecar: block contract on the primary-key inference of ensure_has_primary_key
(cdd/sqlalchemy/utils/emit_utils.py): when no column is marked '[PK]', exactly one column gets the marker.
"""

from cddvc.symexec import Contract

M = "cdd.sqlalchemy.utils.emit_utils"


def _block(txt):
    return txt.startswith("candidate_pks: ") or txt.startswith("for __it in filter(lambda k:") or txt.startswith("if not force_pk_id and len(candidate_pks) == 1")


CONTRACTS = [
    Contract(
        M + ":ensure_has_primary_key#no-pk-branch",
        src=M + ":ensure_has_primary_key",
        block=_block,
        params={"params": ("map", {"doc?": "str", "typ?": "str"}), "intermediate_repr": "opaque", "force_pk_id": "bool"},
        loops={0: {"invariant": []}},
        local_kinds={"candidate_pks": "seq"},
        ensures=[
            # exactly one column is written / updated in this branch and its description now starts with the marker
            "touched_exactly_one_marked(params, '[PK]')",
        ],
    ),
]


def structural(find_def):
    """
    Type-table lemma over the REAL tables (cdd.sqlalchemy.utils.emit_utils.typ2column_type, built by inverting
    cdd.sqlalchemy.utils.parse_utils.column_type2typ and then updated -- twice: cdd.compound.openapi.utils.emit_utils updates it
    again on import): for every scalar type of the SQL-representable slice, the column type the emitters write is one the
    parsers read back as the same type -- in BOTH states of the table (a fresh interpreter that imported the SQLAlchemy emitter
    only, and after the OpenAPI utilities were imported as well).  The tables are finite, so evaluating them is complete (not a
    bound); what is trusted is that the emitters / parsers consult these tables (exercised by the stand-in).
    """
    import json
    import os
    import subprocess
    import sys

    code = ("import json, cdd.sqlalchemy.utils.emit_utils as eu, cdd.sqlalchemy.utils.parse_utils as pu\n"
            "a = dict(eu.typ2column_type)\n"
            "import cdd.compound.openapi.utils.emit_utils\n"
            "print(json.dumps({'sqlalchemy-only': a, 'with-openapi-utils': dict(eu.typ2column_type), 'back': dict(pu.column_type2typ)}, default=str))\n")
    out = []
    # Literal -> Enum: the labels handed to Enum(...) are the Literal's own member nodes (no conversion on the way), so the
    # parser, which rebuilds the Literal from whatever Enum received, gets the members back with their types
    import ast

    f = find_def("cdd.sqlalchemy.utils.shared_utils", "update_args_infer_typ_sqlalchemy")
    ok, why = None, "update_args_infer_typ_sqlalchemy not found"
    if f is not None:
        enums = [c for c in ast.walk(f) if isinstance(c, ast.Call) and ast.unparse(c.func) == "Call" and any(k.arg == "func" and "'Enum'" in ast.unparse(k.value) for k in c.keywords)]
        argsv = [ast.unparse(k.value) for c in enums for k in c.keywords if k.arg == "args"]
        ok = len(enums) == 1 and argsv in (["val.elts"], ["list(val.elts)"], ["val.elts[:]"])
        why = "Enum(...) is built with args=val.elts, the member nodes of the Literal" if ok else "Enum(...) is built with args=%s" % argsv
    out.append(("literal-enum/labels-are-the-literal's-own-members", ok, why))
    try:
        from checks import common

        r = subprocess.run([sys.executable, "-c", code], capture_output=True, text=True, timeout=120, env=dict(os.environ, PYTHONPATH=common.REPO))
        tables = json.loads(r.stdout.strip().splitlines()[-1])
    except Exception as ex:
        return [("type-tables/evaluated", None, "the tables could not be evaluated in a fresh interpreter: %s" % ex)]
    for state in ("sqlalchemy-only", "with-openapi-utils"):
        for t in ("int", "float", "str", "bool"):
            col = tables[state].get(t)
            back = tables["back"].get(col)
            out.append(("type-tables/%s/%s-is-written-as-a-column-type-read-back-as-%s" % (state, t, t), back == t,
                        "typ2column_type[%r] == %r and column_type2typ[%r] == %r" % (t, col, col, back)))
    return out


# --------------------------------------------------------------------------------------------------------------
# _handle_column_keywords, the step that writes `default=`: the value emitted is the default it was HANDED (an AST node as it is,
# anything else through set_value) -- the block does not re-bind `default`, and appends exactly one keyword.  The three
# emitters share this helper, and the parser (column_parse_kwarg) reads back only what set_value / the callers' nodes produce;
# a default re-interpreted here (a dict literal parsed out of the text '{}') cannot be read back by any of the three parsers.
MH = "cdd.sqlalchemy.utils.emit_utils"
CONTRACTS.append(
    Contract(
        MH + ":_handle_column_keywords#default-emitted-as-given",
        src=MH + ":_handle_column_keywords",
        block=lambda txt: txt.startswith("if has_default:"),
        params={"has_default": "bool", "default": "opaque", "keywords": "list:seq:opaque", "_param": "opaque"},
        ensures=[
            "same(default, old(default))",
            "n_count(keywords) == n_count(old(keywords)) + ite(has_default, 1, 0)",
        ],
    )
)

"""
C07 — sidecar contract on find_cst_at_ast (cdd/shared/ast_cst_utils.py): the slot handed to the three
maybe_replace_* functions is the CST node of the very definition the AST node denotes.
"""

from cddvc.symexec import Contract

CONTRACTS = [
    Contract(
        "cdd.shared.ast_cst_utils:find_cst_at_ast",
        params={"cst_list": "list:seq:opaque", "node": "opaque"},
        ensures=[
            # the returned node IS the element at the returned index
            "is_none(result[1]) or same(result[1], at(cst_list, result[0]))",
            # ... its name is the AST node's name and its CST type is the one ast2cst maps the AST type to
            "is_none(result[1]) or same(getattr(result[1], 'name', None), getattr(node, 'name', None))",
            "is_none(result[1]) or type(result[1]).__name__ == cst_type",
            # the list itself is only read
            "same(cst_list, old(cst_list))",
        ],
        loops={0: {"invariant": ["is_none(cst_node_found)"]}},
    ),
]


# --------------------------------------------------------------------------------------------------------------
# maybe_replace_function_args: the header splice `head ( plist ) ws [-> ann] :`  ->  `head ( rendered ) ws [-> ann] :`
#
# The straight-line code between `def_len` and the store into cst_list[cst_idx] is verified as four consecutive
# blocks (sequential composition: each block's ensures is the next block's requires; every block also proves that it
# leaves the header text and the earlier results alone).  The blocks are delimited by the first words of the statements,
# so a rewrite inside a block is verified against the same contract.
#   A  name offset      def_len .. function_name_starts_at     ensures 0 <= function_name_starts_at <= len(head)
#   B  open paren       arg_start_idx                          ensures arg_start_idx == len(head)
#   C  close paren      func_end .. (return_type) .. func_end  ensures func_end == len(head) + 1 + len(plist) + 1
#   D  splice           cst_list[cst_idx] = FunctionDefinitionStart(...)
# Ghosts: head = `def name` / `async def name`, plist = the parameter list text, ws = blanks, ann = return annotation.
M7 = "cdd.shared.ast_cst_utils:maybe_replace_function_args"
STORE = "cst_list[cst_idx] = FunctionDefinitionStart("
SLOT = {"cst_list[cst_idx].value": "str"}
SLOT_RET = {"cst_list[cst_idx].value": "str", "new_node.returns": "opaque"}
SHAPE_NO_ANN = "cst_list[cst_idx].value == head + '(' + plist + ')' + ws + ':'"
SHAPE_ANN = "cst_list[cst_idx].value == head + '(' + plist + ')' + ws + '->' + ann + ':'"
SHAPE_REQ = [
    # between the closing parenthesis and the arrow / colon: no parenthesis, no colon
    "not contains(ws, ')') and not contains(ws, ':')",
]
ANN_REQ = [
    # the return annotation is arbitrary text without an arrow or a colon -- it MAY contain parentheses and brackets;
    # the parameter list may contain anything, an arrow inside a default included
    "not contains('>' + ann, '->') and not contains(ann, ':')",
]
# maybe_replace_function_return_type runs first and leaves an arrow in the header text iff new_node.returns is set
# (cross-function invariant, assumed here; the bounded stand-in exercises the composition)
UNCHANGED = "cst_list[cst_idx].value == old(cst_list[cst_idx].value)"

CONTRACTS.extend([
    Contract(
        M7 + "#A-name-offset", src=M7, block=("def_len: ", "arg_start_idx", "before"),
        params={"cst_list": "opaque", "cst_idx": "int", "head": "str", "rest": "str"}, paths=SLOT,
        requires=[
            "cst_list[cst_idx].value == head + rest",
            "startswith(head, 'def ') or startswith(head, 'async def ')",
        ],
        ensures=["0 <= function_name_starts_at", "function_name_starts_at <= length(head)", UNCHANGED],
    ),
    Contract(
        M7 + "#B-open-paren", src=M7, block=("arg_start_idx", "func_end", "before"),
        params={"cst_list": "opaque", "cst_idx": "int", "head": "str", "rest": "str", "function_name_starts_at": "int"}, paths=SLOT,
        requires=[
            "cst_list[cst_idx].value == head + '(' + rest",
            "not contains(head, '(')",
            "0 <= function_name_starts_at and function_name_starts_at <= length(head)",
        ],
        ensures=["arg_start_idx == length(head)", UNCHANGED],
    ),
    Contract(
        M7 + "#C-close-paren/no-annotation", src=M7, block=("func_end", STORE, "before"),
        params={"cst_list": "opaque", "cst_idx": "int", "new_node": "opaque", "head": "str", "plist": "str", "ws": "str", "arg_start_idx": "int"}, paths=SLOT_RET,
        requires=[SHAPE_NO_ANN, "is_none(new_node.returns)"] + SHAPE_REQ,
        ensures=["func_end == length(head) + 1 + length(plist) + 1", UNCHANGED, "arg_start_idx == old(arg_start_idx)"],
    ),
    Contract(
        M7 + "#C-close-paren/annotation", src=M7, block=("func_end", STORE, "before"),
        params={"cst_list": "opaque", "cst_idx": "int", "new_node": "opaque", "head": "str", "plist": "str", "ws": "str", "ann": "str", "arg_start_idx": "int"}, paths=SLOT_RET,
        requires=[SHAPE_ANN, "not is_none(new_node.returns)"] + SHAPE_REQ + ANN_REQ,
        ensures=["func_end == length(head) + 1 + length(plist) + 1", UNCHANGED, "arg_start_idx == old(arg_start_idx)"],
    ),
    Contract(
        M7 + "#D-splice", src=M7, block=(STORE, STORE),
        params={"cst_list": "opaque", "cst_idx": "int", "new_node": "opaque", "head": "str", "plist": "str", "tail": "str",
                "arg_start_idx": "int", "func_end": "int"},
        paths={"cst_list[cst_idx].value": "str", "cst_list[cst_idx].name": "str",
               "cst_list[cst_idx].line_no_start": "int", "cst_list[cst_idx].line_no_end": "int"},
        pure_results={"to_code": "str"},
        requires=[
            # tail = blanks, optional return annotation, colon
            "cst_list[cst_idx].value == head + '(' + plist + ')' + tail",
            "arg_start_idx == length(head)",
            "func_end == length(head) + 1 + length(plist) + 1",
        ],
        ensures=[
            # everything up to and including the opening parenthesis, and everything from the parenthesis that closes the
            # parameter list (blanks, return annotation, colon), is carried over unchanged
            "startswith(cst_list[cst_idx].value, head + '(')",
            "endswith(cst_list[cst_idx].value, ')' + tail)",
            "length(cst_list[cst_idx].value) >= length(head) + 2 + length(tail)",
            # the slot keeps its name and line span
            "cst_list[cst_idx].name == old(cst_list[cst_idx].name)",
            "cst_list[cst_idx].line_no_start == old(cst_list[cst_idx].line_no_start)",
            "cst_list[cst_idx].line_no_end == old(cst_list[cst_idx].line_no_end)",
        ],
    ),
])


# --------------------------------------------------------------------------------------------------------------
# maybe_replace_function_return_type: its two nested helpers cut / extend the header text around the return arrow.
# The header is `H -> A :` (A = the return annotation, which MAY contain colons, parentheses, brackets; no arrow).
MR = "cdd.shared.ast_cst_utils:maybe_replace_function_return_type"

CONTRACTS.extend([
    Contract(
        MR + ".remove_return_typ",
        params={"statement": "str", "H": "str", "A": "str"},
        # ghosts H, A are extra declared variables (see `ghost_params`)
        requires=[
            "statement == H + '->' + A + ':'",
            "not contains('>' + A + ':', '->')",
        ],
        result="str",
        ensures=[
            # everything before the arrow is kept (trailing blanks trimmed) and closed by the header colon; nothing of the
            # annotation survives, whatever characters it contains
            "result == rstrip(H) + ':'",
        ],
        ghost_params=("H", "A"),
    ),
    Contract(
        MR + ".add_return_typ",
        params={"statement": "str", "H": "str"},
        closure={"new_node": "opaque"},
        pure_results={"to_code": "str"},
        requires=[
            # a header without return annotation: `H :` -- H is everything up to the header colon and MAY contain colons
            # itself (annotated parameters, defaults such as 'a:b')
            "statement == H + ':'",
        ],
        result="str",
        ensures=[
            "startswith(result, H + ' -> ')",
            "endswith(result, ':')",
            "length(result) >= length(H) + 5",
        ],
        ghost_params=("H",),
    ),
])


# --------------------------------------------------------------------------------------------------------------
# is_triple_quoted (cdd/shared/pure_utils.py): the predicate by which the CST scanner decides that an accumulating docstring
# chunk is complete, and by which cst_parse_one_node recognises the chunk as a docstring.  doctrans REPLACES a docstring only
# when the chunk is recognised; a chunk cut at a line that merely ends in the OTHER triple quote is not, and the converted
# docstring is then inserted next to the old one (the program gains a statement).  Exact contract: same delimiter at both ends.
CONTRACTS.append(
    Contract(
        "cdd.shared.pure_utils:is_triple_quoted",
        params={"s": "str"},
        result="bool",
        ensures=[
            "result == (length(s) > 5 and ((startswith(s, \"'''\") and endswith(s, \"'''\")) or (startswith(s, '\"\"\"') and endswith(s, '\"\"\"'))))",
        ],
    )
)

"""
C07 — sidecar contract on find_cst_at_ast (cdd/shared/ast_cst_utils.py): the slot handed to the three
maybe_replace_* functions is the CST node of the very definition the AST node denotes.
"""

from cddvc.symexec import Contract

CONTRACTS = [
    Contract(
        "cdd.shared.ast_cst_utils:find_cst_at_ast",
        params={"cst_list": "list:seq:opaque", "node": "opaque"},
        ensures=[
            # the returned node IS the element at the returned index
            "is_none(result[1]) or same(result[1], at(cst_list, result[0]))",
            # ... its name is the AST node's name and its CST type is the one ast2cst maps the AST type to
            "is_none(result[1]) or same(getattr(result[1], 'name', None), getattr(node, 'name', None))",
            "is_none(result[1]) or type(result[1]).__name__ == cst_type",
            # the list itself is only read
            "same(cst_list, old(cst_list))",
        ],
        loops={0: {"invariant": ["is_none(cst_node_found)"]}},
    ),
]

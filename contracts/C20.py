"""C20 — sidecar for the dry-run frame condition"""

ENTRY = "cdd.compound.exmod:exmod"
FLAG = ("dry_run", True)
# Obligation: with dry_run assumed true, no FS_WRITE site is reachable from ENTRY.
# For non-vacuity the same analysis WITHOUT the assumption must reach these (cover):
MUST_REACH_WITHOUT_FLAG = [
    "FS_WRITE@cdd.compound.exmod:exmod:os.makedirs#0",
    "FS_WRITE@cdd.compound.exmod_utils:emit_file_on_hierarchy:open#0",
    "FS_WRITE@cdd.shared.emit.file:file:open#0",
    "FS_WRITE@cdd.compound.exmod:_create_sqlalchemy_mod:os.mkdir#0",
]


# --------------------------------------------------------------------------------------------------------------
# E1 contract on relative_filename (cdd/shared/pkg_utils.py).  emit_file_on_hierarchy joins the output directory with
# relative_filename(<module file>).  Whatever prefix it removes, what it returns must be a SUFFIX of the file name it was
# given: then no component of the result can be `..`, so joined under the output directory it cannot climb out of it (an
# absolute result -- returned unchanged for packages outside site-packages -- replaces the output directory altogether;
# that case is covered by the bounded stand-in and discussed in DESIGN.md §10.8).
from cddvc.symexec import Contract

CONTRACTS = [
    Contract(
        "cdd.shared.pkg_utils:relative_filename",
        params={"filename": "str", "remove_hints": "opaque"},
        result="str",
        pure_results={"get_python_lib": "str"},
        ensures=["endswith(filename, result)"],
    ),
]


# --------------------------------------------------------------------------------------------------------------
# get_module_contents: every symbol it collects is keyed '<module>.<submodule>.<name>' where <name> is the name the collected
# definition HAS in its own file (node.name).  emit_file_on_hierarchy looks that last component up among the definitions of the
# target file to decide that "the symbol is already there" -- for a package that is not installed below site-packages the
# target file is the source file itself, and that test is all that keeps exmod from rewriting it (DESIGN.md §10.8).
def structural(find_def):
    import ast

    f = find_def("cdd.compound.exmod_utils", "get_module_contents")
    ok, detail = None, "get_module_contents not found"
    if f is not None:
        comps = [n.value for n in ast.walk(f) if isinstance(n, (ast.Assign, ast.AnnAssign)) and isinstance(n.value, ast.DictComp)
                 and ast.unparse(n.targets[0] if isinstance(n, ast.Assign) else n.target) == "res"]
        ok, detail = None, "the dict comprehension bound to `res` was not found"
        if len(comps) == 1:
            k, v = comps[0].key, comps[0].value
            kw = {x.arg: x.value for x in k.keywords} if isinstance(k, ast.Call) and isinstance(k.func, ast.Attribute) and k.func.attr == "format" else {}
            ok = isinstance(v, ast.Name) and "node_name" in kw and ast.unparse(kw["node_name"]) == "%s.name" % v.id and isinstance(k.func.value, ast.Constant) \
                and str(k.func.value.value).endswith(".{node_name}")
            detail = ("every collected definition is keyed by its own name: key = '...{node_name}'.format(..., node_name=%s.name), value = %s" % (v.id, v.id)) if ok else \
                "the key of a collected definition no longer ends in the definition's own name (node_name=%s)" % (ast.unparse(kw["node_name"]) if "node_name" in kw else "?")
    out = [("get_module_contents/symbol-keyed-by-its-own-name", ok, detail)]
    # emit_file_on_hierarchy: a symbol is written only when the target file does not define it yet -- whatever the emit kind.
    # For a package that is not installed below site-packages the target file IS the source file (relative_filename returns
    # the absolute path), so this test is what keeps a real run from rewriting the source package.
    f = find_def("cdd.compound.exmod_utils", "emit_file_on_hierarchy")
    ok2, detail2 = None, "emit_file_on_hierarchy not found"
    if f is not None:
        par = {}
        for n in ast.walk(f):
            for ch in ast.iter_child_nodes(n):
                par[id(ch)] = n
        calls = [n for n in ast.walk(f) if isinstance(n, ast.Call) and isinstance(n.func, ast.Name) and n.func.id == "_emit_symbol"]
        stores = [n for n in ast.walk(f) if isinstance(n, (ast.Assign, ast.AnnAssign)) and ast.unparse(n.targets[0] if isinstance(n, ast.Assign) else n.target) == "symbol_in_file"]
        want = {"path.isfile(emit_filename)", "any(filter(partial(eq, name), map(attrgetter('name'), filter(rpartial(hasattr, 'name'), existent_mod.body))))"}
        guarded = False
        if len(calls) == 1:
            up = par.get(id(calls[0]))
            while up is not None and not isinstance(up, ast.If):
                up = par.get(id(up))
            if isinstance(up, ast.If):
                conj = up.test.values if isinstance(up.test, ast.BoolOp) and isinstance(up.test.op, ast.And) else [up.test]
                guarded = any(ast.unparse(c) == "not symbol_in_file" for c in conj) and any(calls[0] in list(ast.walk(b)) for b in up.body)
        ok2 = len(calls) == 1 and guarded and bool(stores) and all(n.value is not None and ast.unparse(n.value) in want for n in stores)
        detail2 = ("_emit_symbol is called once, under `not symbol_in_file`, and symbol_in_file is path.isfile(emit_filename) refined by: some top-level definition of the existing file has .name == name (any emit kind)" if ok2
                   else "emit guard: %d call(s) of _emit_symbol, under `not symbol_in_file`: %s; symbol_in_file is assigned from %s" % (len(calls), guarded, [ast.unparse(n.value)[:90] if n.value is not None else "?" for n in stores]))
    out.append(("emit_file_on_hierarchy/emit-only-when-the-file-lacks-the-symbol", ok2, detail2))
    return out

"""C20 — sidecar for the dry-run frame condition"""

ENTRY = "cdd.compound.exmod:exmod"
FLAG = ("dry_run", True)
# Obligation: with dry_run assumed true, no FS_WRITE site is reachable from ENTRY.
# For non-vacuity the same analysis WITHOUT the assumption must reach these (cover):
MUST_REACH_WITHOUT_FLAG = [
    "FS_WRITE@cdd.compound.exmod:exmod:os.makedirs#0",
    "FS_WRITE@cdd.compound.exmod_utils:emit_file_on_hierarchy:open#0",
    "FS_WRITE@cdd.shared.emit.file:file:open#0",
    "FS_WRITE@cdd.compound.exmod:_create_sqlalchemy_mod:os.mkdir#0",
]

"""C20 — sidecar for the dry-run frame condition"""

ENTRY = "cdd.compound.exmod:exmod"
FLAG = ("dry_run", True)
# Obligation: with dry_run assumed true, no FS_WRITE site is reachable from ENTRY.
# For non-vacuity the same analysis WITHOUT the assumption must reach these (cover):
MUST_REACH_WITHOUT_FLAG = [
    "FS_WRITE@cdd.compound.exmod:exmod:os.makedirs#0",
    "FS_WRITE@cdd.compound.exmod_utils:emit_file_on_hierarchy:open#0",
    "FS_WRITE@cdd.shared.emit.file:file:open#0",
    "FS_WRITE@cdd.compound.exmod:_create_sqlalchemy_mod:os.mkdir#0",
]


# --------------------------------------------------------------------------------------------------------------
# E1 contract on relative_filename (cdd/shared/pkg_utils.py).  emit_file_on_hierarchy joins the output directory with
# relative_filename(<module file>).  Whatever prefix it removes, what it returns must be a SUFFIX of the file name it was
# given: then no component of the result can be `..`, so joined under the output directory it cannot climb out of it (an
# absolute result -- returned unchanged for packages outside site-packages -- replaces the output directory altogether;
# that case is covered by the bounded stand-in and discussed in DESIGN.md §10.8).
from cddvc.symexec import Contract

CONTRACTS = [
    Contract(
        "cdd.shared.pkg_utils:relative_filename",
        params={"filename": "str", "remove_hints": "opaque"},
        result="str",
        pure_results={"get_python_lib": "str"},
        ensures=["endswith(filename, result)"],
    ),
]

"""
C15 — sidecar contracts on the real docstring split / re-assembly functions (cdd/shared/docstring_utils.py).
"""

from cddvc.symexec import Contract

M = "cdd.shared.docstring_utils"
PURE = {"num_of_nls": "int", "count_chars_from": "int", "indent": "str", "count_iter_items": "int"}

CONTRACTS = [
    Contract(
        M + ":_get_token_start_idx",
        params={"doc_str": "str"},
        result="int",
        ensures=["result >= -1", "result <= length(doc_str)"],
        loops={0: {"invariant": ["n_count(stack) <= k"]}},
        local_kinds={"stack": "str"},
        pure_results=PURE,
        deterministic=True,  # no global state is read (E4 rules of C10), so equal arguments give equal results
    ),
    Contract(
        # ASSUMED (trusted): checked at run time by the bounded stand-in, not verified here
        M + ":_get_token_last_idx",
        params={"doc_str": "str"},
        result="int",
        ensures=["result >= -1"],
        deterministic=True,
        trusted="index scanner with four helper functions; `result >= -1` is evaluated at run time over the bounded domain",
    ),
    Contract(
        M + ":parse_docstring_into_header_args_footer",
        params={"current_doc_str": "str", "original_doc_str": "str"},
        requires=["original_doc_str != ''"],
        ensures=[
            # the slicing lemma of the property: the three slices of the ORIGINAL tile it whenever start <= last
            "implies(start_idx_original == -1 or last_idx_original == -1 or start_idx_original <= last_idx_original,"
            " or_empty(result[0]) + args_returns_original + or_empty(result[2]) == original_doc_str)",
            # the returned middle part is the slice of the current text unless the re-indentation branch ran
            "implies(current_doc_str == original_doc_str and indent_args_returns_original <= 1, result[1] == args_returns_original)",
        ],
        pure_results=PURE,
    ),
    Contract(
        M + ":header_args_footer_to_str",
        params={"header": "str", "args_returns": "str", "footer": "str"},
        result="str",
        ensures=["startswith(result, old(header))", "endswith(result, old(footer))"],
        pure_results=PURE,
    ),
]

# --------------------------------------------------------------------------------------------------------------
# _get_token_start_idx, one iteration at the end of a line: a line that begins a parameter / return section in the
# ReST or Google style ("the header is everything before the first section token") makes the scanner return the
# start of that line.  The tokens are the property's (three styles), not read from the code's tables, so a table
# that loses one fails here.  NumPy headings need the underline on the next line and are covered by the bounded
# stand-in only.
SECTION_STARTS = (":param", ":cvar", ":ivar", ":var", ":type", ":raises", ":return", ":rtype", "Args:", "Kwargs:", "Raises:", "Returns:")

CONTRACTS.append(
    Contract(
        M + ":_get_token_start_idx#section-line-recognised",
        src=M + ":_get_token_start_idx",
        # the statements after `line = ...` and before `stack.clear()`
        block=("line = ", "stack.clear()", "between"),
        block_exit="return",
        params={"line": "str", "idx": "int", "stack": "list:str", "doc_str": "str", "indent_amount": "int", "ch": "str"},
        requires=[
            " or ".join("startswith(line, %r)" % t for t in SECTION_STARTS),
            "idx >= 0 and idx < length(doc_str)",
        ],
        ensures=["result == idx - n_count(stack)"],
        pure_results=PURE,
    )
)

# --------------------------------------------------------------------------------------------------------------
# cdd/docstring/emit.py:docstring, the re-indentation step (runs for indent_level >= 1): the text is rebuilt as the first
# non-blank line + "the remaining lines", which are candidate_doc_str[J:].splitlines().  J is probed: it is the position of
# the newline that ends the first non-blank line, or one past it -- never further, so no header line is skipped.
ME = "cdd.docstring.emit"

CONTRACTS.append(
    Contract(
        ME + ":docstring#reindent-keeps-every-line",
        src=ME + ":docstring",
        block=("lines = ", "lines = "),
        probes={"J": "next_nl if len(candidate_doc_str) == next_nl"},
        params={"candidate_doc_str": "str", "next_nl": "int", "line": "str"},
        # next_nl is where str.find found the line break that ends the first non-blank line
        requires=["next_nl >= 0", "next_nl < length(candidate_doc_str)", "substr(candidate_doc_str, next_nl, next_nl + 1) == '\\n'"],
        ensures=[
            # the remaining lines start at that line break or right after it: nothing but the line break is skipped
            "J == next_nl or J == next_nl + 1",
        ],
        pure_results=PURE,
    )
)


# Converse of the section-line contract: a line that starts with none of the section tokens of the three styles (nor with a
# bare NumPy heading word, which the scanner is known to accept -- see its own comment) is NOT taken for a section start:
# the scan goes on.  A token table that grows beyond the property's vocabulary (":key", ":note", "Example:" ...) fails here,
# because header prose may start a line with such text.
NOT_SECTION = " and ".join("not startswith(line, %r)" % t for t in SECTION_STARTS + ("Parameters", "Returns"))

CONTRACTS.append(
    Contract(
        M + ":_get_token_start_idx#prose-line-not-a-section",
        src=M + ":_get_token_start_idx",
        block=("line = ", "stack.clear()", "between"),
        block_exit="normal",
        params={"line": "str", "idx": "int", "stack": "list:str", "doc_str": "str", "indent_amount": "int", "ch": "str"},
        requires=[NOT_SECTION, "idx >= 0 and idx < length(doc_str)"],
        ensures=["True"],
        pure_results=PURE,
    )
)


# --------------------------------------------------------------------------------------------------------------
# derive_docstring_format: the style router in front of every docstring parse.  A docstring that carries a ReST field
# (":param", ":type", ":return" ... -- the property's own token list, not the code's table) is read as ReST, whatever words its
# prose contains: the Google / NumPy scanner would take a mid-sentence "Args:" or "Returns:" of the header for a section start
# and cut the header there.
REST_FIELDS = (":param", ":cvar", ":ivar", ":var", ":type", ":raises", ":return", ":rtype")
CONTRACTS.append(
    Contract(
        M + ":derive_docstring_format",
        params={"docstring": "str"},
        ensures=[
            "implies(%s, result == Style.rest)" % " or ".join("contains(docstring, %r)" % t for t in REST_FIELDS),
            "implies(not (%s) and (%s), result == Style.google)" % (" or ".join("contains(docstring, %r)" % t for t in REST_FIELDS),
                                                                     " or ".join("contains(docstring, %r)" % t for t in ("Args:", "Kwargs:", "Raises:", "Returns:"))),
            "implies(not (%s), result == Style.numpydoc)" % " or ".join("contains(docstring, %r)" % t for t in REST_FIELDS + ("Args:", "Kwargs:", "Raises:", "Returns:")),
        ],
    )
)

"""
C09 — totality of the classifier helper get_construct_name (cdd/shared/cst_utils.py).

cst_parse_one_node calls it on the words of every scanned statement; the contracts of contracts/C09.py treat that call
as a total pure function ("for every string whatsoever" leaves no room for an exception).  This contract discharges
that assumption: for EVERY tuple of strings the function returns -- no subscript is out of range.
Kept in its own module so that the callers keep seeing an uninterpreted function (their proofs do not depend on the name).
"""

from cddvc.symexec import Contract

CONTRACTS = [
    Contract(
        "cdd.shared.cst_utils:get_construct_name",
        params={"words": "list:seq:str"},
        loops={0: {"invariant": []}},
        ensures=["True"],
        total=True,
    ),
]

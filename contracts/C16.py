"""C16 — sidecar contract on the real components_paths_from_name_model_route_id_crud (OpenAPI emitter core)."""

import ast

from cddvc.symexec import Contract

M = "cdd.compound.openapi.utils.emit_openapi_utils"
ITEM = "route + '/{' + _id + '}'"

CONTRACTS = [
    Contract(
        M + ":components_paths_from_name_model_route_id_crud",
        params={
            "components": {"schemas": "map", "requestBodies": "map"},
            "paths": "map",
            "name": "str", "model": "opaque", "route": "str", "_id": "str", "crud": "str",
        },
        modifies=["components", "paths"],
        ensures=[
            # closure: every $ref written here resolves to a component written here (or to ServerError, which
            # emit.openapi defines before the first call)
            "refs_closed(paths, components['schemas'], components['requestBodies'])",
            # the model's schema is always defined, the request body exactly when Create is requested
            "defines(components['schemas'], name)",
            "defines(components['requestBodies'], name + 'Body') == contains(crud, 'C')",
            # operations match the CRUD letters
            "has_op(paths, route, 'post') == contains(crud, 'C')",
            "implies(has_op(paths, %s, 'get'), contains(crud, 'R'))" % ITEM,
            "implies(has_op(paths, %s, 'delete'), contains(crud, 'D'))" % ITEM,
            "implies(defines(paths, %s), has_op(paths, %s, 'get') == contains(crud, 'R'))" % (ITEM, ITEM),
            "implies(defines(paths, %s), has_op(paths, %s, 'delete') == contains(crud, 'D'))" % (ITEM, ITEM),
            # the item route exists whenever only C/R/U/D letters are requested; no verb on the wrong route
            "implies(chars_subset(crud, 'CRUD'), defines(paths, %s))" % ITEM,
            "not has_op(paths, route, 'get') and not has_op(paths, route, 'delete') and not has_op(paths, %s, 'post')" % ITEM,
            # the item route declares its path template parameter
            "implies(defines(paths, %s), declares_param(paths, %s, _id))" % (ITEM, ITEM),
            # frame: nothing else is written
            "writes_only(paths, route, %s)" % ITEM,
            "writes_only(components['schemas'], name)",
            "writes_only(components['requestBodies'], name + 'Body')",
        ],
    ),
]

# upsert_routes: the predicate that decides which requested routes the routes module "already has".  It is a lambda
# inside the real function; find_def turns it mechanically into `def _lambda(call): return <body>`.  The property's
# clause "operations present are exactly those requested" needs: a decorator counts as the model's route for a method
# only when it sits on THAT method's path -- POST on the collection route, every other method on the item route.
CONTRACTS.append(Contract(
    "cdd.compound.openapi.gen_routes:upsert_routes.<lambda call~call.args[0]>",
    params={"call": "opaque"},
    closure={"route": "str", "primary_key": "str", "app": "str"},
    paths={"call.func.attr": "str", "call.func.value.id": "str", "call.args[0]": "opaque"},
    pure_results={"get_value": "str"},
    ensures=[
        "implies(result and call.func.attr == 'post', pure('get_value', call.args[0]) == route)",
        "implies(result and call.func.attr != 'post', pure('get_value', call.args[0]) == route + '/:' + primary_key)",
        "implies(result, call.func.value.id == app)",
    ],
))


def structural(find_def):
    """emit.openapi defines ServerError before the first call and mutates the document only through the verified function"""
    out = []
    f = find_def("cdd.compound.openapi.emit", "openapi")
    ok = False
    if f is not None:
        txt = ast.unparse(f)
        first = f.body[1] if isinstance(f.body[0], ast.Expr) else f.body[0]
        ok = (
            isinstance(first, ast.Assign) and "'ServerError'" in ast.unparse(first) and "'schemas'" in ast.unparse(first) and "'requestBodies': {}" in ast.unparse(first)
            and txt.count("components_paths_from_name_model_route_id_crud(components, paths, *name_model_route_id_crud)") == 1
            and not any(isinstance(n, (ast.Subscript,)) and isinstance(n.ctx, (ast.Store, ast.Del)) for n in ast.walk(f))
            and "'components': components" in txt and "'paths': paths" in txt
        )
    out.append(("openapi/initial-components-define-ServerError-and-only-callee-writes", ok,
                "emit.openapi starts from {requestBodies: {}, schemas: {ServerError: ...}}, calls the verified function once per tuple with (components, paths, *tuple), has no other store, and returns those objects"))
    # openapi_bulk.parse_route: the route functions handed on are nodes OF the routes module, selected one by one -- the return
    # value is filter(P, filter(Q, parsed_ast.body)) (each function of the body at most once, in order, never another node in
    # its place).  Generated route functions of different models share their names (create / read / destroy), so anything
    # that goes through a name cannot tell them apart.
    f = find_def("cdd.compound.openapi.gen_openapi", "openapi_bulk.parse_route")
    ok = None
    if f is not None:
        rets = [n for n in ast.walk(f) if isinstance(n, ast.Return)]

        def is_filter_of_body(e):
            if ast.unparse(e) == "parsed_ast.body":
                return True
            return (isinstance(e, ast.Call) and isinstance(e.func, ast.Name) and e.func.id == "filter" and len(e.args) == 2 and not e.keywords
                    and is_filter_of_body(e.args[1]))

        ok = len(rets) == 1 and rets[0].value is not None and not ast.unparse(rets[0].value) == "parsed_ast.body" and is_filter_of_body(rets[0].value)
    # upsert_routes, the branch that APPENDS the missing routes to an existing module: what it writes starts on a new line (the
    # module it appends to need not end with one -- the module upsert_routes itself creates does not), otherwise the first
    # appended decorator is glued to the last statement (`response.status = 204@app.post(...)` still parses) and every route
    # of the second model is lost
    fu = find_def("cdd.compound.openapi.gen_routes", "upsert_routes")
    oku, detailu = None, "upsert_routes not found"
    if fu is not None:
        withs = [n for n in ast.walk(fu) if isinstance(n, ast.With) and any(isinstance(i.context_expr, ast.Call) and ast.unparse(i.context_expr.func) == "open"
                 and len(i.context_expr.args) > 1 and isinstance(i.context_expr.args[1], ast.Constant) and i.context_expr.args[1].value == "a" for i in n.items)]
        oku, detailu = None, "the appending `with open(routes_path, 'a')` was not found"
        if len(withs) == 1:
            first = withs[0].body[0]
            arg = first.value.args[0] if isinstance(first, ast.Expr) and isinstance(first.value, ast.Call) and ast.unparse(first.value.func).endswith(".write") and first.value.args else None
            head = arg.left if isinstance(arg, ast.BinOp) and isinstance(arg.op, ast.Add) else arg
            oku = isinstance(head, ast.Constant) and isinstance(head.value, str) and head.value.startswith("\n")
            detailu = "the first thing the append branch writes starts with a line break" if oku else "the append branch starts by writing: %s" % (ast.unparse(arg)[:80] if arg is not None else ast.unparse(first)[:80])
    out.append(("upsert_routes/appended-routes-start-on-a-new-line", oku, detailu))
    out.append(("openapi_bulk.parse_route/selects-nodes-of-the-module-body", ok,
                "parse_route returns filter(..., filter(..., parsed_ast.body)): every route function of the module is kept or dropped on its own"))
    return out

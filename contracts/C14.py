"""
C14 — sidecar contract on _set_name_and_type (cdd/shared/docstring_parsers.py): the name-sanitising step every
docstring-derived parameter goes through ("each parameter name is a ... string without leading asterisks").
"""

from cddvc.symexec import Contract

M = "cdd.shared.docstring_parsers"
P = {"doc?": "str", "typ?": "str", "default?": "opaque"}

CONTRACTS = [
    Contract(
        M + ":_set_name_and_type",
        params={"param": ["str", P], "infer_type": "bool", "word_wrap": "bool", "none_default_for_kwargs": "bool"},
        ensures=[
            # *args / **kwargs entries lose every leading asterisk
            "not startswith(result[0], '*')",
            # and nothing else of the name is touched: the result is a suffix of the original name
            "endswith(old(param[0]), result[0])",
            # a plain name is returned unchanged
            "implies(not startswith(old(param[0]), '*'), result[0] == old(param[0]))",
        ],
        local_kinds={"arg": "opaque"},
    ),
]

# column_call_to_param (cdd/sqlalchemy/utils/parse_utils.py): the Column(...) keywords that are folded into the
# description / type -- primary_key, foreign_key, nullable -- never survive as keys of the returned entry
# ("each entry has only the keys type, description, default (and the extension key)").
MQ = "cdd.sqlalchemy.utils.parse_utils"
ENTRY = {"typ": "str", "doc?": "str", "default?": "opaque", "primary_key?": "opaque", "foreign_key?": "opaque", "nullable?": "opaque", "x_typ?": "opaque"}

CONTRACTS.append(
    Contract(
        MQ + ":column_call_to_param#fold-keywords",
        src=MQ + ":column_call_to_param",
        block=("for shortname, longname in", "return ", "before"),
        params={"_param": ENTRY, "call": "opaque"},
        ensures=[
            "not present(_param, 'primary_key')",
            "not present(_param, 'foreign_key')",
            "not present(_param, 'nullable')",
            # the type is still there
            "present(_param, 'typ')",
        ],
    )
)

# json_schema_property_to_param (cdd/json_schema/utils/parse_utils.py): JSON-schema keywords that are folded into the
# type never survive as keys of the returned entry -- `pattern` (-> Literal[...]) , `type` (-> typ), `description` (-> doc).
MJ = "cdd.json_schema.utils.parse_utils"
from cdd.json_schema.utils.parse_utils import json_type2typ as _JSON_TYPE2TYP  # the real table of the tree under check
JENTRY = {"type?": "str", "description?": "str", "pattern?": "str", "default?": "opaque", "typ?": "str", "doc?": "str"}

CONTRACTS.append(
    Contract(
        MJ + ":json_schema_property_to_param#fold-keywords",
        src=MJ + ":json_schema_property_to_param",
        block=("if 'description' in _param", "def transform_ref_fk_set", "before"),
        params={"_param": JENTRY, "name": "str"},
        requires=[
            # `type` names a JSON type the table knows (else KeyError: no normal end)
        ],
        ensures=[
            "not present(_param, 'description')",
            "implies(old(present(_param, 'description')), present(_param, 'doc'))",
            # a non-empty pattern is always turned into a Literal type and removed
            "implies(old(present(_param, 'pattern')) and old(field(_param, 'pattern')) != '', not present(_param, 'pattern'))",
            # a property that states its JSON type gets the Python type the table maps it to -- whatever the parameter is
            # called (the `*kwargs` fallback type is a fallback only)
            "implies(old(present(_param, 'type')) and old(field(_param, 'type')) != '' and not (old(present(_param, 'pattern')) and old(field(_param, 'pattern')) != ''),"
            " present(_param, 'typ') and (%s))" % " or ".join("field(_param, 'typ') == %r" % v for v in sorted(set(_JSON_TYPE2TYP.values()))),
        ],
    )
)


# "the type is a string that parses as a Python expression": the argparse parser takes the type of an option from
# _handle_value(keyword.value).  Whatever it returns (it may refuse a node with NotImplementedError) is a str -- never a
# typing object -- and for a plain Name other than the json `loads` callable it is that name.
CONTRACTS.append(
    Contract(
        "cdd.argparse_function.utils.emit_utils:_handle_value",
        params={"node": "opaque"},
        paths={"node.id": "str"},
        ensures=[
            "is_str(result)",
            "implies(node.id != 'loads', result == node.id) or not is_str(result)",
        ],
    )
)


# _set_param_values (cdd/shared/docstring_parsers.py): what a ReST ':type name: T' line stores as the type -- the code fence
# is taken off FIRST and a '**kwargs'-like type becomes 'dict', so that the stored string never starts with '**' (which is no
# Python expression: "each type is a string that parses as a Python expression").  str.replace is an uninterpreted function
# of its arguments, the same one in code and specification.
_T = "replace(val, '```', '')"
CONTRACTS.append(
    Contract(
        M + ":_set_param_values",
        params={"input_str": "str", "val": "str", "sw": "str"},
        ensures=[
            "result[0] == ite(startswith(input_str, sw), 'typ', 'doc')",
            "implies(not startswith(input_str, sw), result[1] == val)",
            "implies(startswith(input_str, sw), result[1] == ite(startswith(%s, '**'), 'dict', %s))" % (_T, _T),
        ],
    )
)


# json_schema_property_to_param, the Optional step ("optionality round-trips": a property that is not listed in `required` comes
# back as Optional[...]): for every entry that has a type and is not marked nullable, the type is wrapped exactly when the name
# is not required and the type is not an Optional already -- whatever the default is -- and left alone otherwise.
CONTRACTS.append(
    Contract(
        MJ + ":json_schema_property_to_param#optional-iff-not-required",
        src=MJ + ":json_schema_property_to_param",
        # the `if` whose body is the wrapping assignment (selected by what it does, not by how its test is spelled)
        block=lambda txt: txt.startswith("if ") and txt.rstrip().endswith("_param['typ'] = 'Optional[{}]'.format(_param['typ'])") and txt.count("\n") <= 2,
        params={"_param": {"typ": "str", "default?": "opaque", "doc?": "str"}, "name": "str", "required": "opaque"},
        ensures=[
            "implies(not (name in required) and old(field(_param, 'typ')) != '' and not contains(old(field(_param, 'typ')), 'Optional['),"
            " field(_param, 'typ') == 'Optional[' + old(field(_param, 'typ')) + ']')",
            "implies(name in required, field(_param, 'typ') == old(field(_param, 'typ')))",
            # (`nullable` is absent from the declared entry: pop's default False is what the test sees)
            "implies(old(field(_param, 'typ')) == '' or contains(old(field(_param, 'typ')), 'Optional['), field(_param, 'typ') == old(field(_param, 'typ')))",
            "field(_param, 'typ') == old(field(_param, 'typ')) or field(_param, 'typ') == 'Optional[' + old(field(_param, 'typ')) + ']'",
            "present(_param, 'default') == old(present(_param, 'default'))",
        ],
    )
)

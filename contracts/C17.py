"""
C17 — sidecar: entry points, allowed effect sites (closed inventory per entry point), char-set chain.
"""

import re

# ---- entry points the property lists: every parser, every emitter, doctrans, sync, sync_properties, gen
ENTRY_MODULE_RE = re.compile(r"cdd\.([a-z_]+\.(parse|emit)|routes\.(parse|emit)\.[a-z_]+|compound\.openapi\.(parse|emit)|shared\.emit\.file)")
NAMED_ENTRIES = [
    "cdd.compound.doctrans:doctrans",
    "cdd.shared.conformance:ground_truth",
    "cdd.compound.sync_properties:sync_properties",
    "cdd.compound.gen:gen",
    "cdd.shared.docstring_parsers:parse_docstring",
    # the route generators PARSE a model file / a routes file (SQLAlchemy parser, bottle route parser): "parsing ... treats
    # its input as data" applies to them as to every other parser
    "cdd.compound.openapi.gen_routes:gen_routes",
    "cdd.compound.openapi.gen_routes:upsert_routes",
    "cdd.compound.openapi.gen_openapi:openapi_bulk",
]

EVAL_SITE = "EXEC@cdd.shared.docstring_parsers:__set_name_and_type_handle_doc_in_param:eval#0"

# kind -> {site key: justification}; a reachable site that is not listed fails the entry's obligation
ALLOWED = {
    "EXEC": {
        EVAL_SITE: "argument satisfies the clean() char-set contract (obligations C17/charset/*)",
    },
    "IMPORT_DYN": {
        "IMPORT_DYN@cdd.shared.parse.utils.parser_utils:get_parser:importlib.import_module#0": "argument is 'cdd.' + x + '.parse' (obligation C17/dispatch/get_parser)",
        "IMPORT_DYN@cdd.shared.emit.utils.emitter_utils:get_emitter:importlib.import_module#0": "argument is 'cdd.' + x + '.emit' (obligation C17/dispatch/get_emitter)",
        "IMPORT_DYN@cdd.routes.parse.bottle:<module>:importlib.import_module#0": "choice between two constants (typing / typing_extensions)",
    },
    "IMPORT_PARENT": {},
    "SPAWN": {},
    "NET": {},
    "FS_WRITE": {
        "FS_WRITE@cdd.shared.emit.file:file:open#0": "the explicitly named output file (emit.file.file)",
        "FS_WRITE@cdd.shared.emit.file:file:.write#0": "the explicitly named output file (emit.file.file)",
        "FS_WRITE@cdd.json_schema.emit:json_schema_file:open#0": "the explicitly named output file",
        "FS_WRITE@cdd.json_schema.emit:json_schema_file:json.dump#0": "the explicitly named output file",
    },
}

# per-entry additions (explicit, user-requested behaviour that the property statement allows)
ALLOWED_PER_ENTRY = {
    "cdd.compound.doctrans:doctrans": {
        "FS_WRITE@cdd.compound.doctrans:doctrans:open#0": "doctrans rewrites the named file in place",
        "FS_WRITE@cdd.compound.doctrans:doctrans:.write#0": "doctrans rewrites the named file in place",
    },
    "cdd.compound.gen:gen": {
        "EXEC@cdd.compound.gen:gen:eval#0": "--prepend: executes only the Import/ImportFrom statements of the user-given option (obligation C17/gen/prepend-imports-only)",
        "EXEC@cdd.compound.gen:gen:compile#0": "same site",
        "IMPORT_DYN@cdd.shared.pure_utils:get_module:importlib.import_module#0": "gen given a module path instead of a file imports that module by design (obligation C17/gen/get_module-not-on-file-path)",
        "IMPORT_PARENT@cdd.shared.pure_utils:find_module_filepath:importlib.util.find_spec#0": "gen --phase / module path, by design; not the from-file path",
        "IMPORT_PARENT@cdd.shared.pure_utils:filename_from_mod_or_filename:importlib.util.find_spec#0": "gen --phase / module path, by design; not the from-file path",
        "FS_WRITE@cdd.compound.gen_utils:gen_file:open#0": "the explicitly named output file (append)",
        "FS_WRITE@cdd.compound.gen_utils:gen_file:.write#0": "the explicitly named output file (append)",
        "FS_WRITE@cdd.sqlalchemy.utils.emit_utils:update_with_imports_from_columns:open#0": "gen --phase 1 updates the named output file",
        "FS_WRITE@cdd.sqlalchemy.utils.emit_utils:update_with_imports_from_columns:.write#0": "gen --phase 1 updates the named output file",
        "FS_WRITE@cdd.sqlalchemy.utils.emit_utils:update_fk_for_file:open#0": "gen --phase 2 updates the named output file",
        "FS_WRITE@cdd.sqlalchemy.utils.emit_utils:update_fk_for_file:.write#0": "gen --phase 2 updates the named output file",
    },
}

_FIND_SPEC = "IMPORT_PARENT@cdd.shared.pure_utils:filename_from_mod_or_filename:importlib.util.find_spec#0"
_FIND_SPEC_WHY = ("a module NAME instead of a file, by design; never for an existing file or a path "
                  "(obligation C17/filename_from_mod_or_filename/find_spec-only-for-a-name-that-is-no-file)")
ALLOWED_PER_ENTRY["cdd.compound.openapi.gen_routes:gen_routes"] = {_FIND_SPEC: _FIND_SPEC_WHY}
ALLOWED_PER_ENTRY["cdd.compound.openapi.gen_routes:upsert_routes"] = {
    _FIND_SPEC: _FIND_SPEC_WHY,
    "FS_WRITE@cdd.compound.openapi.gen_routes:upsert_routes:open#0": "the explicitly named routes file",
    "FS_WRITE@cdd.compound.openapi.gen_routes:upsert_routes:.write#0": "the explicitly named routes file",
    "FS_WRITE@cdd.compound.openapi.gen_routes:upsert_routes:open#1": "the explicitly named routes file (append of the missing routes)",
    "FS_WRITE@cdd.compound.openapi.gen_routes:upsert_routes:.write#1": "the explicitly named routes file (append of the missing routes)",
    "FS_WRITE@cdd.compound.openapi.gen_routes:upsert_routes:.write#2": "the explicitly named routes file (same handle: separator + the missing routes, since fix f892f04)",
}
ALLOWED_PER_ENTRY["cdd.compound.openapi.gen_openapi:openapi_bulk"] = {}

# sync_properties: the eval/compile of the input module is reachable only with input_eval true
FLAG_ENTRY = ("cdd.compound.sync_properties:sync_properties", "input_eval", False)

# ---- char-set chain (C17 b)
CHAIN_MOD = "cdd.docstring.utils.parse_utils"
FILTER_FN = "_parse_adhoc_doc_for_typ_phase0"
CLOSURE_FNS = ["_parse_adhoc_doc_for_typ_phase1", "_union_literal_from_sentence", "_union_literal_from_sentence_phase0", "parse_adhoc_doc_for_typ", FILTER_FN]
ENTRY_FN = "parse_adhoc_doc_for_typ"

"""
C08 — sidecar contract on set_default_doc (cdd/shared/defaults_utils.py): the emitter-side guard that keeps
'Defaults to ...' from being appended a second time — the mechanism behind "one round reaches a fixpoint"
for descriptions.  (The quoting lemmas of contracts/C01.py are shared.)
"""

from cddvc.symexec import Contract

M = "cdd.shared.defaults_utils"
P = {"doc?": "str", "default?": "opaque", "typ?": "opaque"}
MENTIONS = "(contains(field(old(param[1]), 'doc'), 'Defaults') or contains(field(old(param[1]), 'doc'), 'defaults'))"

CONTRACTS = [
    Contract(
        M + ":set_default_doc",
        params={"param": ["str", P], "emit_default_doc": "bool"},
        ensures=[
            # a description that already announces its default is left alone (no second 'Defaults to')
            "implies(emit_default_doc and present(old(param[1]), 'doc') and %s,"
            " field(result[1], 'doc') == field(old(param[1]), 'doc'))" % MENTIONS,
            # whatever it appends contains the guard word, so applying it again is a no-op (idempotence)
            "implies(emit_default_doc and present(old(param[1]), 'doc') and field(result[1], 'doc') != field(old(param[1]), 'doc'),"
            " contains(field(result[1], 'doc'), 'Defaults to') and startswith(field(result[1], 'doc'), field(old(param[1]), 'doc')))",
            # without a default nothing is appended
            "implies(emit_default_doc and present(old(param[1]), 'doc') and not present(old(param[1]), 'default'),"
            " field(result[1], 'doc') == field(old(param[1]), 'doc'))",
            "result[0] == old(param[0])",
            # frame: only the description is ever written -- the default (and the type) the emitters read afterwards are the
            # caller's own (a param dict is shared with the code that emits the value, e.g. class attributes)
            "present(result[1], 'default') == present(old(param[1]), 'default')",
            "implies(present(old(param[1]), 'default'), same(field(result[1], 'default'), field(old(param[1]), 'default')))",
            "present(result[1], 'typ') == present(old(param[1]), 'typ')",
            # and the converse, which is what lets a default written in the prose come back at all: a description that does NOT
            # mention the word gets the clause appended whenever there is a default to announce (a **kwargs entry with a None
            # default is the documented exception)
            "implies(emit_default_doc and present(old(param[1]), 'doc') and present(old(param[1]), 'default') and not %s and not endswith(old(param[0]), 'kwargs'),"
            " contains(field(result[1], 'doc'), ' Defaults to ') and startswith(field(result[1], 'doc'), field(old(param[1]), 'doc')))" % MENTIONS,
        ],
        pure_results={"needs_quoting": "bool"},
    ),
]


# --------------------------------------------------------------------------------------------------------------
# _parse_out_default_and_doc, the branch that takes the "Defaults to X" clause OUT of a description (emit_default_doc false):
# what is kept is `fst + rest`.  Whatever the line and wherever the announce was found (also at position 0: a description that
# BEGINS with "Defaults to ..."), `fst` is the text in front of the announce, less the separating blank(s): a prefix of the line,
# never longer than what precedes the announce -- so the stripped description is never longer than the line it came from, and
# repeated regeneration cannot make it grow (the defect repaired by the fix: commit in /repo: line[:_start_idx - 1] with
# _start_idx == 0 is line[:-1], the description then doubled on every round).
def _strip_contract(tag, offset_kind, offset_req):
    return Contract(
        M + ":_parse_out_default_and_doc#default-clause-removed/" + tag,
        src=M + ":_parse_out_default_and_doc",
        block=("stop_tokens = ", "rest = "),
        params={"line": "str", "_start_idx": "int", "start_rest_offset": "int", "rstrip_default": "bool", "default_end_offset": offset_kind},
        requires=["_start_idx >= 0", "_start_idx <= start_rest_offset", "start_rest_offset <= length(line)"] + offset_req,
        ensures=[
            "startswith(line, fst)",
            "implies(_start_idx >= 1, length(fst) <= _start_idx - 1 and length(fst) >= _start_idx - 2)",
            "implies(_start_idx == 0, fst == '')",
            "length(fst) + length(rest) <= length(line)",
        ],
        pure_results={"count_iter_items": "int"},
    )


CONTRACTS.append(_strip_contract("plain", "none", []))
CONTRACTS.append(_strip_contract("paren", "int", ["default_end_offset == -1 or default_end_offset == -2 or default_end_offset == 0"]))

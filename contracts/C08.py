"""
C08 — sidecar contract on set_default_doc (cdd/shared/defaults_utils.py): the emitter-side guard that keeps
'Defaults to ...' from being appended a second time — the mechanism behind "one round reaches a fixpoint"
for descriptions.  (The quoting lemmas of contracts/C01.py are shared.)
"""

from cddvc.symexec import Contract

M = "cdd.shared.defaults_utils"
P = {"doc?": "str", "default?": "opaque", "typ?": "opaque"}
MENTIONS = "(contains(field(old(param[1]), 'doc'), 'Defaults') or contains(field(old(param[1]), 'doc'), 'defaults'))"

CONTRACTS = [
    Contract(
        M + ":set_default_doc",
        params={"param": ["str", P], "emit_default_doc": "bool"},
        ensures=[
            # a description that already announces its default is left alone (no second 'Defaults to')
            "implies(emit_default_doc and present(old(param[1]), 'doc') and %s,"
            " field(result[1], 'doc') == field(old(param[1]), 'doc'))" % MENTIONS,
            # whatever it appends contains the guard word, so applying it again is a no-op (idempotence)
            "implies(emit_default_doc and present(old(param[1]), 'doc') and field(result[1], 'doc') != field(old(param[1]), 'doc'),"
            " contains(field(result[1], 'doc'), 'Defaults to') and startswith(field(result[1], 'doc'), field(old(param[1]), 'doc')))",
            # without a default nothing is appended
            "implies(emit_default_doc and present(old(param[1]), 'doc') and not present(old(param[1]), 'default'),"
            " field(result[1], 'doc') == field(old(param[1]), 'doc'))",
            "result[0] == old(param[0])",
            # frame: only the description is ever written -- the default (and the type) the emitters read afterwards are the
            # caller's own (a param dict is shared with the code that emits the value, e.g. class attributes)
            "present(result[1], 'default') == present(old(param[1]), 'default')",
            "implies(present(old(param[1]), 'default'), same(field(result[1], 'default'), field(old(param[1]), 'default')))",
            "present(result[1], 'typ') == present(old(param[1]), 'typ')",
        ],
        pure_results={"needs_quoting": "bool"},
    ),
]

"""
C09 — sidecar contracts on the real CST functions (cdd/shared/cst_utils.py, cdd/shared/cst.py).

Top-level `ensures` are taken from the property statement; invariants and helper
contracts are derived from the code.  See DESIGN.md §5 C09.
"""

import ast

from cddvc.symexec import Contract

M = "cdd.shared.cst_utils"
STATE = {"acc": "int", "prev_node": "opaque", "parsed": "list:node"}
PURE = {"is_triple_quoted": "bool", "balanced_parentheses": "bool"}

CONTRACTS = [
    Contract(
        M + ":cst_scan",
        total=True,
        params={"scanned": "list:str", "stack": "list:str"},
        modifies=["scanned", "stack"],
        ensures=[
            # conservation: nothing is lost, duplicated or reordered between `scanned` and `stack`
            "joined(scanned) + joined(stack) == old(joined(scanned)) + old(joined(stack))",
        ],
        loops={
            0: {
                "invariant": [
                    "joined(scanned) + joined(expression) == old(joined(scanned)) + done",
                    "n_count(expression) == 0 or expression_str == joined(expression)",
                    "joined(stack) == '' or (joined(stack) == old(joined(stack))"
                    " and joined(scanned) == old(joined(scanned)))",
                ]
            }
        },
        local_kinds={"expression": "str", "scanned": "str", "stack": "str"},
        pure_results=PURE,
    ),
    Contract(
        M + ":cst_scanner",
        total=True,
        params={"source": "str"},
        result="list:str",
        ensures=["joined(result) == source"],
        loops={0: {"invariant": ["joined(scanned) + joined(stack) == done"]}},
        local_kinds={"scanned": "str", "stack": "str"},
        pure_results=PURE,
    ),
    Contract(
        M + ":infer_cst_type",
        total=True,
        params={},
        result="ctor",
        ensures=["is_ctor(result)"],
        loops={0: {"invariant": []}},
        pure_results=PURE,
    ),
    Contract(
        M + ":cst_parse_one_node#body",
        total=True,
        src=M + ":cst_parse_one_node",
        decorators=["set_prev_node"],
        params={"statement": "str", "state": STATE},
        modifies=["state.acc"],
        result="node",
        ensures=[
            "result.value == statement",
            "result.line_no_start == old(state['acc'])",
            "result.line_no_end == state['acc']",
            "state['acc'] == old(state['acc']) + count(statement, '\\n')",
            "same(state['parsed'], old(state['parsed']))",
        ],
        pure_results=PURE,
    ),
    Contract(
        # the decorated name: behaviour of set_prev_node's `wrapper` with `function` := the body above
        M + ":cst_parse_one_node",
        src=M + ":set_prev_node.wrapper",
        params={"statement": "str", "state": STATE},
        bind={"function": M + ":cst_parse_one_node#body"},
        modifies=["state"],
        result="node",
        ensures=[
            "same(state['parsed'], appended(old(state['parsed']), result))",
            "result.value == statement",
            "result.line_no_start == old(state['acc'])",
            "result.line_no_end == state['acc']",
            "state['acc'] == old(state['acc']) + count(statement, '\\n')",
        ],
    ),
    Contract(
        M + ":cst_parser",
        total=True,
        params={"scanned": "list:str"},
        result="list:node",
        ensures=[
            "joined_values(result) == joined(scanned)",
            "n_count(result) == 0 or first_start(result) == 1",
            "chain_ok(result)",
            "span_ok(result)",
        ],
        loops={
            0: {
                "invariant": [
                    "joined_values(state['parsed']) == done",
                    "chain_ok(state['parsed'])",
                    "span_ok(state['parsed'])",
                    "n_count(state['parsed']) == 0 or first_start(state['parsed']) == 1",
                    "n_count(state['parsed']) == 0 or last_end(state['parsed']) == state['acc']",
                    "n_count(state['parsed']) > 0 or state['acc'] == 1",
                ]
            }
        },
        local_kinds={"state.parsed": "node"},
    ),
    Contract(
        "cdd.shared.cst:cst_parse",
        total=True,
        params={"source": "str"},
        result="list:node",
        ensures=[
            # the property statement, verbatim over the abstract view of the node list
            "joined_values(result) == source",
            "n_count(result) == 0 or first_start(result) == 1",
            "chain_ok(result)",
            "span_ok(result)",
        ],
    ),
]


def structural(find_def):
    """
    Syntactic side conditions the contracts rely on (each is one obligation, rule engine).
    find_def(module, path) -> ast node
    """
    out = []
    spn = find_def(M, "set_prev_node")
    ok = (
        spn is not None
        and isinstance(spn.body[-1], ast.Return)
        and isinstance(spn.body[-1].value, ast.Name)
        and spn.body[-1].value.id == "wrapper"
    )
    out.append(("set_prev_node/returns-wrapper", ok, "set_prev_node must return its nested `wrapper`"))
    w = find_def(M, "set_prev_node.wrapper")
    ok = w is not None and [ast.unparse(d) for d in w.decorator_list] == ["wraps(function)"]
    out.append(("set_prev_node.wrapper/decorated-by-wraps-only", ok, "functools.wraps copies metadata only"))
    one = find_def(M, "cst_parse_one_node")
    ok = one is not None and [ast.unparse(d) for d in one.decorator_list] == ["set_prev_node"]
    out.append(("cst_parse_one_node/decorators", ok, "decorator list is exactly [set_prev_node]"))
    return out

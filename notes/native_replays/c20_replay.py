import os, sys, tempfile, shutil, io
d=tempfile.mkdtemp()
pkg=os.path.join(d,'src','mypkg'); os.makedirs(pkg)
open(os.path.join(pkg,'__init__.py'),'w').write('from mypkg.m import C\n__all__=["C"]\n')
open(os.path.join(pkg,'m.py'),'w').write('class C(object):\n    """\n    Doc\n\n    :cvar a: x\n    """\n    a: int = 5\n__all__=["C"]\n')
sys.path.insert(0, os.path.join(d,'src'))
out=os.path.join(d,'out'); os.makedirs(out)
import cdd.compound.exmod_utils
cdd.compound.exmod_utils.EXMOD_OUT_STREAM=io.StringIO()
from cdd.compound.exmod import exmod
def snap(): return sorted(os.path.join(r,f)[len(d):] for r,ds,fs in os.walk(d) for f in fs+ds if '__pycache__' not in r and f!='__pycache__')
before=snap()
try:
    exmod(emit_name="sqlalchemy", module="mypkg", blacklist=[], whitelist=[], output_directory=out, target_module_name=None, mock_imports=False, emit_sqlalchemy_submodule=True, extra_modules=None, no_word_wrap=None, recursive=False, dry_run=True)
except Exception as e:
    print("raised", type(e).__name__, e)
after=snap()
print("created under dry-run:", sorted(set(after)-set(before)))
shutil.rmtree(d)

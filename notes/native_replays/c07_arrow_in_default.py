"""
Native replay (C07): `def f(a, b='->'):` + a docstring that types the parameters, doctrans --type-annotations.
Before fix 40e7a03 the rewritten file was not valid Python (header cut inside the parameter list).
Run: PYTHONPATH=/repo /venv/bin/python notes/native_replays/c07_arrow_in_default.py
"""
import ast, os, tempfile
from cdd.compound.doctrans import doctrans

SRC = '''def f(a, b='->'):
    """
    Summary

    :param a: the a
    :type a: ```int```

    :param b: the b
    :type b: ```str```
    """
    return a
'''
d = tempfile.mkdtemp()
p = os.path.join(d, "m.py")
open(p, "wt").write(SRC)
doctrans(filename=p, docstring_format="rest", type_annotations=True, no_word_wrap=None)
out = open(p).read()
print(out)
ast.parse(out)
print("valid Python")

import tempfile, os
from cdd.compound.doctrans import doctrans
src = '''def f(a=1, *args, b=2, **kw):
    """
    Doc

    :param a: the a
    :type a: ```int```

    :param b: the b
    :type b: ```int```

    :return: r
    :rtype: ```int```
    """
    return a + b
'''
fd,fn=tempfile.mkstemp(suffix='.py'); os.write(fd,src.encode()); os.close(fd)
doctrans(filename=fn, docstring_format="rest", type_annotations=True, no_word_wrap=None)
print(open(fn).read().split('"""')[0]); os.unlink(fn)

import subprocess, sys, os
code = '''
import ast, json
import cdd.compound.openapi.utils.emit_utils
import cdd.function.parse as fp
src = "def f(a=1) -> int:\\n    \\"\\"\\"\\n    Doc\\n\\n    :param a: g\\n\\n    :return: the thing\\n    \\"\\"\\"\\n    return 5\\n"
ir = fp.function(ast.parse(src).body[0])
print(json.dumps(ir["returns"]))
'''
outs=set()
for seed in range(12):
    o=subprocess.run([sys.executable,"-c",code],env={**os.environ,"PYTHONHASHSEED":str(seed)},capture_output=True,text=True)
    outs.add(o.stdout.strip() or o.stderr[-300:])
print(len(outs), "distinct"); [print(o) for o in outs]

import subprocess, sys
code = '''
import ast
import cdd.compound.openapi.utils.emit_utils
import cdd.function.parse as fp
src = "def f(alpha, beta, gamma, delta, epsilon, zeta=1):\\n    \\"\\"\\"\\n    Doc\\n\\n    :param gamma: g\\n    :type gamma: ```int```\\n    \\"\\"\\"\\n"
ir = fp.function(ast.parse(src).body[0])
print(list(ir["params"].keys()))
'''
outs=set()
for seed in "0 1 2 3 4".split():
    import os
    o=subprocess.run([sys.executable,"-c",code],env={**os.environ,"PYTHONHASHSEED":seed},capture_output=True,text=True)
    outs.add(o.stdout.strip() or o.stderr[-300:])
print(len(outs), "distinct orders"); [print(o) for o in outs]

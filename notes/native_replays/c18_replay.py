import subprocess, sys, os, pkgutil
import cdd
mods=[]
for root,dirs,files in os.walk('/repo/cdd'):
    if 'tests' in root.split('/'): continue
    for f in files:
        if f.endswith('.py'):
            p=os.path.join(root,f)[len('/repo/'):-3].replace('/','.')
            if p.endswith('.__init__'): p=p[:-9]
            mods.append(p)
from concurrent.futures import ThreadPoolExecutor
def t(m):
    r=subprocess.run([sys.executable,'-c','import '+m],capture_output=True,text=True)
    return m, r.returncode, r.stderr.strip().splitlines()[-1:] 
bad=[x for x in ThreadPoolExecutor(16).map(t,sorted(mods)) if x[1]]
print(len(mods),'modules;',len(bad),'fail'); [print(b) for b in bad]

"""C10 finding: gen(--prepend ...) leaks the prepended imports into cdd.compound.gen's module globals;
a later, unrelated gen call in the same process then behaves differently from a fresh process."""
import os, sys, tempfile, shutil
from cdd.compound.gen import gen
d = tempfile.mkdtemp()
inp = os.path.join(d, "inp.py")
open(inp, "wt").write('class C(object):\n    """\n    Conf\n\n    :cvar a: the a\n    """\n\n    a: int = 5\n\n__all__ = ["C"]\n')
imp = os.path.join(d, "imports.py"); open(imp, "wt").write("import os\n")
def call(out, prepend=None, imports_from_file=None):
    gen(name_tpl="{name}Gen", input_mapping=inp, parse_name="class", emit_name="class", output_filename=os.path.join(d, out), prepend=prepend,
        imports_from_file=imports_from_file, emit_call=False, emit_default_doc=True, emit_and_infer_imports=False, no_word_wrap=None, decorator_list=None)
    return open(os.path.join(d, out)).read()
sa = os.path.join(d, "sa.py"); open(sa, "wt").write("from sqlalchemy import Column\n\nclass T(Base):\n    __tablename__ = 't'\n    a = Column(Integer, primary_key=True)\n")
def phase1():
    gen(name_tpl="{name}", input_mapping=inp, parse_name="class", emit_name="sqlalchemy", output_filename=sa, prepend=None, imports_from_file=None,
        emit_call=False, emit_default_doc=True, emit_and_infer_imports=False, no_word_wrap=None, decorator_list=None, phase=1)
phase1(); print("phase-1 update works in a process without history")
call("o2.py", prepend="import json as cdd\n", imports_from_file=imp)   # an unrelated earlier conversion with --prepend
try:
    phase1(); print("still works"); rc = 0
except Exception as e:
    print("the same phase-1 call now fails after the earlier, unrelated gen --prepend call:", type(e).__name__, e); rc = 1
shutil.rmtree(d); sys.exit(rc)

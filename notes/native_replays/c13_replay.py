import tempfile, os
from cdd.compound.sync_properties import sync_properties
def run(inp, out, ip, op):
    d=tempfile.mkdtemp(); a=os.path.join(d,'a.py'); b=os.path.join(d,'b.py')
    open(a,'w').write(inp); open(b,'w').write(out)
    sync_properties(input_filename=a, input_params=(ip,), input_eval=False, output_filename=b, output_params=(op,), output_param_wrap=None)
    r=open(b).read(); 
    import shutil; shutil.rmtree(d); return r.strip()
inp='class In(object):\n    x: int = 7\n    s: str = "abc"\n'
print(run(inp,'def keep(x, b=3):\n    return x\n','In.x','keep.x'))
print(run(inp,'def keep(a, x=1, b=3):\n    return x\n','In.x','keep.x'))
print(run(inp,'def keep(a, b=3, x=1):\n    return x\n','In.x','keep.x'))
print(run(inp,'class K(object):\n    def keep(self, x, b=3):\n        return x\n','In.x','K.keep.x'))
print(run(inp,'class K(object):\n    def keep(self, a, x=2, b=3):\n        return x\n','In.x','K.keep.x'))
print(run(inp,'def keep(a, s="q", b=3):\n    return s\n','In.s','keep.s'))
print(run(inp,'def keep(x=1, *, b=3):\n    return x\n','In.x','keep.x'))

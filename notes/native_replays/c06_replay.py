from collections import OrderedDict
import json, sys
sys.path.insert(0,'/verif/.venv/lib/python3.12/site-packages')
import jsonschema
from cdd.json_schema.emit import json_schema
ir={"name":"T","doc":"","params":OrderedDict([("a",{"typ":"int","doc":"x","default":5})]),"returns":None}
s=json_schema(ir)
print(json.dumps(s))
try:
    jsonschema.Draft202012Validator.check_schema(s); print("valid")
except Exception as e: print("INVALID:", str(e).splitlines()[0])
from cdd.json_schema.parse import json_schema as p
try: print(p(s)["doc"].__repr__())
except Exception as e: print("parse raised", type(e).__name__, e)

import signal, sys
from collections import OrderedDict
import cdd.docstring.emit as e
def h(*a): print("HANG"); sys.exit(1)
signal.signal(signal.SIGALRM, h); signal.alarm(5)
for doc in ["  \nfoo bar", " \n \nfoo", "\t\nfoo\n  \n", "  \n  x"]:
    ir={"name":"f","doc":doc,"params":OrderedDict([("a",{"typ":"int","doc":"x"})]),"returns":None}
    for il in (0,1,2):
        r=e.docstring(ir, indent_level=il)
print("terminates")
